"""Record the canonical dumps of the inverse-table keys into c08_pinned.json.

usage: python3 tools/extract/c08_record_pinned.py <path to a built harness binary hx/assert/c08>

Run this only after reviewing a deliberate change of the key recipes in symengine/functions.cpp /
constants.cpp: it asks the *real library* (through the harness op `tab cst|tct <i>`, whose tables are the
initialiser lists copied verbatim from the source) for the canonical tree of every key and stores it under
the expanded recipe text.  The check itself never writes this file.
"""
import json
import subprocess
import sys
from pathlib import Path

sys.path.insert(0, str(Path(__file__).resolve().parent))
import c08_tables  # noqa: E402


def main():
    hx = sys.argv[1]
    info = c08_tables.fn(Path("/repo"), Path("/tmp/c08_gen_record"), allow_unpinned=True)
    pinned = {}
    for nm, short in (("inverse_cst", "cst"), ("inverse_tct", "tct")):
        recs = info["key_recipes"][nm]
        ops = "".join("tab %s %d\n" % (short, i) for i in range(len(recs)))
        out = subprocess.run([hx, "run"], input=ops, capture_output=True, text=True).stdout
        rows = [l.split("\t")[1] for l in out.splitlines() if l.startswith("R\t")]
        assert len(rows) == len(recs), (len(rows), len(recs))
        for r, row in zip(recs, rows):
            pinned[r] = row.split(" => ")[0]
    c08_tables.PINNED.write_text(json.dumps(pinned, indent=1, sort_keys=True) + "\n")
    print("recorded", len(pinned), "keys")


if __name__ == "__main__":
    main()
