#!/usr/bin/env python3
"""Translator for C45 (arbitrary-precision evaluation).

Reads (source text only - neither MPFR nor MPC is needed)
  symengine/eval_mpfr.cpp   EvalMPFRVisitor bvisit bodies
  symengine/eval_mpc.cpp    EvalMPCVisitor bvisit bodies
  symengine/real_mpfr.cpp   RealMPFR::{add,sub,rsub,mul,div,rdiv,pow,rpow}real(const Kind&)
  symengine/real_mpfr.h     the add/sub/.../rpow dispatch chains
  symengine/eval.cpp        evalf_numeric dispatch for bits > 53
and writes lean/SymVerif/Gen/MpfrFormulas.lean: per node kind the call sequence as an `MDef`
(Model/Mpfr.lean), the arithmetic dispatch table as `ArithEntry`s.

Every body must match one of the expected shapes; anything else raises TranslatorError
(=> tie broken, kind T).  Run on every check.
"""
import re
import sys
from pathlib import Path

sys.path.insert(0, str(Path(__file__).resolve().parent))
from c12_formulas import TranslatorError, strip_comments, norm, match_brace, class_body, bvisits  # noqa: E402

ACCESSOR = {"get_arg()": 0, "get_args()[0]": 0, "get_args()[1]": 1, "get_arg1()": 0, "get_arg2()": 1,
            "get_num()": 0, "get_den()": 1, "get_base()": 0, "get_exp()": 1}
CONSTS = ["pi", "E", "EulerGamma", "Catalan", "GoldenRatio"]


def lean_str(s):
    return '"' + s + '"'


def strip_lib(fn, allowed, what):
    """`mpfr_sin` -> `sin`; the prefix must be one of the libraries the file may call"""
    for lib in allowed:
        if fn.startswith(lib + "_"):
            return fn[len(lib) + 1:]
    raise TranslatorError("%s: call of %s (expected a %s_ entry point)" % (what, fn, "/".join(allowed)))


class Body:
    """parser of one normalised straight-line body over the registers result_ / one temporary"""

    def __init__(self, lib, param, what):
        self.lib = lib            # "mpfr" | "mpc"
        self.p = re.escape(param) if param else r"\w+"
        self.what = what
        self.temps = set()

    def reg(self, tok):
        if tok == "result_":
            return ".res"
        m = re.match(r"^(\w+)(?:\.get_mpfr_t\(\)|\.get_mpc_t\(\))?$", tok)
        if m and m.group(1) in self.temps:
            return ".tmp"
        return None

    def arg(self, tok):
        r = self.reg(tok)
        if r:
            return "(.reg %s)" % r
        if re.match(r"^\d+$", tok):
            return "(.ui %s)" % tok
        if re.match(r"^-\d+$", tok):
            return "(.si (%s))" % tok
        raise TranslatorError("%s: unexpected call argument %r" % (self.what, tok))

    def stmts(self, b, acc_map=ACCESSOR):
        out, rest = [], b
        prec = r"mp(?:fr|c)_get_prec\(result_\)"
        while rest:
            m = re.match(r"^mpfr_class (\w+)\(" + prec + r"\);", rest)
            if not m:
                m = re.match(r"^mp(?:fr|c)_t (\w+);mp(?:fr|c)_init2\(\1," + prec + r"\);", rest)
            if m:
                if self.temps and m.group(1) not in self.temps:
                    raise TranslatorError("%s: more than one temporary" % self.what)
                self.temps.add(m.group(1))
                rest = rest[m.end():]
                continue
            m = re.match(r"^mp(?:fr|c)_clear\((\w+)\);", rest)
            if m and m.group(1) in self.temps:
                rest = rest[m.end():]
                continue
            m = re.match(r"^apply\(([\w.()]+?),\*\(?" + self.p + r"\.(get_\w+\(\)(?:\[\d\])?)\)?\);", rest)
            if m:
                dst = self.reg(m.group(1))
                if dst is None or m.group(2) not in acc_map:
                    raise TranslatorError("%s: apply(%s, %s)" % (self.what, m.group(1), m.group(2)))
                out.append("(.load %s %d)" % (dst, acc_map[m.group(2)]))
                rest = rest[m.end():]
                continue
            m = re.match(r"^(mp(?:fr|c)_\w+)\(([^;]*?),rnd_\);", rest)
            if m:
                fn, args = m.group(1), m.group(2).split(",")
                dst = self.reg(args[0])
                if dst is None:
                    raise TranslatorError("%s: destination %s" % (self.what, args[0]))
                allowed = ("mpfr",) if self.lib == "mpfr" else ("mpc", "mpfr")
                out.append("(.call %s %s [%s])" % (lean_str(strip_lib(fn, allowed, self.what)), dst,
                                                   ", ".join(self.arg(a) for a in args[1:])))
                rest = rest[m.end():]
                continue
            raise TranslatorError("%s: statement has an unexpected shape: %s" % (self.what, rest[:120]))
        return out


def lst(xs):
    return "[" + ", ".join(xs) + "]"


def tr_body(lib, cls, param, b):
    what = "%s bvisit(const %s&)" % (lib, cls)
    p = re.escape(param) if param else r"\w*"
    B = Body(lib, param, what)
    L = lib
    if cls == "Basic" and re.match(r'^throw NotImplementedError\("[^"]*"\);$', b):
        return None
    if re.match(r'^throw NotImplementedError\("[^"]*"\);$', b):
        return ".notImpl"
    m = re.match(r"^" + L + r"_(set(?:_\w+)?)\(result_,[^;]*,rnd_\);$", b)
    if m and cls in ("Integer", "Rational", "RealDouble", "RealMPFR", "Complex", "ComplexDouble", "ComplexMPC"):
        expect = {"Integer": "get_mpz_t(%s.as_integer_class())", "Rational": "get_mpq_t(%s.as_rational_class())",
                  "RealDouble": "%s.i", "RealMPFR": "%s.i.get_mpfr_t()",
                  "Complex": "get_mpq_t(%s.real_),get_mpq_t(%s.imaginary_)",
                  "ComplexDouble": "%s.i.real(),%s.i.imag()", "ComplexMPC": "%s.as_mpc().get_mpc_t()"}[cls]
        expect = expect.replace("%s", param)
        if b != "%s_%s(result_,%s,rnd_);" % (L, m.group(1), expect):
            raise TranslatorError("%s: leaf reads %s" % (what, b))
        return ".leaf " + lean_str(m.group(1))
    if cls in ("NumberWrapper", "FunctionWrapper") and b == "%s.eval(%s_get_prec(result_))->accept(*this);" % (param, L):
        return ".delegate"
    if cls == "Beta" and b == "apply(result_,*(%s.rewrite_as_gamma()));" % param:
        return ".delegate"
    if cls == "UnevaluatedExpr" and b == "apply(result_,*%s.get_arg());" % param:
        return ".seq [(.load .res 0)]"
    # fold over get_args()
    m = re.match(r"^(.*?)auto d=" + p + r"\.get_args\(\);auto p=d\.begin\(\);apply\(result_,\*\(\*p\)\);p\+\+;"
                 r"for\(;p!=d\.end\(\);p\+\+\)\{apply\(([\w.()]+),\*\(\*p\)\);(" + L + r"_\w+)\(result_,result_,([\w.()]+),rnd_\);\}(.*)$", b)
    if m:
        pre = B.stmts(m.group(1))
        post = B.stmts(m.group(5))
        if pre or post or B.reg(m.group(2)) != ".tmp" or B.reg(m.group(4)) != ".tmp":
            raise TranslatorError("%s: fold shape" % what)
        want = {"Add": "add", "Mul": "mul", "Max": "max", "Min": "min"}.get(cls)
        if want is None or m.group(3) != "%s_%s" % (L, want):
            raise TranslatorError("%s folds with %s" % (what, m.group(3)))
        return ".fold " + lean_str(strip_lib(m.group(3), (L,), what))
    if cls == "Pow":
        m = re.match(r"^if\(eq\(\*" + p + r"\.get_base\(\),\*E\)\)\{(.*?)\}else\{(.*)\}$", b)
        if not m:
            raise TranslatorError("%s: shape" % what)
        e_map = {"get_exp()": 0}
        eb = Body(lib, param, what + " [base E]").stmts(m.group(1), e_map)
        bb = Body(lib, param, what).stmts(m.group(2))
        return ".powE %s %s" % (lst(eb), lst(bb))
    if cls in ("Equality", "Unequality", "LessThan", "StrictLessThan"):
        m = re.match(r"^(.*?)if\((" + L + r"_\w+_p)\(([\w.()]+),result_\)\)\{" + L + r"_set_ui\(result_,1,rnd_\);\}"
                     r"else\{" + L + r"_set_ui\(result_,0,rnd_\);\}$", b)
        if not m:
            raise TranslatorError("%s: shape" % what)
        pre = B.stmts(m.group(1))
        if pre != ["(.load .tmp 0)", "(.load .res 1)"] or B.reg(m.group(3)) != ".tmp":
            raise TranslatorError("%s: operands %s" % (what, pre))
        return ".cmp " + lean_str(strip_lib(m.group(2), (L,), what))
    if cls == "Constant":
        entries, rest, first = [], b, True
        while True:
            m = re.match((r"^" if first else r"^else ") + r"if\(" + p + r"\.__eq__\(\*(\w+)\)\)\{(.*?)\}(?=else)", rest)
            if not m:
                break
            if m.group(1) not in CONSTS:
                raise TranslatorError("%s: unknown constant %s" % (what, m.group(1)))
            body = m.group(2)
            CB = Body(lib, param, what + " " + m.group(1))
            # E: a local mpfr_t initialised at the result's precision
            mm = re.match(r"^mpfr_t (\w+);mpfr_init2\(\1,mp(?:fr|c)_get_prec\(result_\)\);(.*?)mpfr_clear\(\1\);$", body)
            if mm:
                CB.temps.add(mm.group(1))
                body = mm.group(2)
            entries.append("(%s, %s)" % (lean_str(m.group(1)), lst(CB.stmts(body))))
            rest = rest[m.end():]
            first = False
        if not entries or not re.match(r'^else\{throw NotImplementedError\(.*\);\}$', rest):
            raise TranslatorError("%s: chain tail %r" % (what, rest[:80]))
        return ".const " + lst(entries)
    return ".seq " + lst(B.stmts(b))


def tr_visitor(repo, fname, cls_name, lib):
    src = strip_comments((repo / fname).read_text())
    out = []
    for cls, (param, b) in bvisits(class_body(src, cls_name)).items():
        d = tr_body(lib, cls, param, b)
        if d is not None:
            out.append((cls, d))
    n = norm(src)
    ptr = "mpfr_ptr" if lib == "mpfr" else "mpc_ptr"
    if ("void apply(%s result,const Basic&b){%s tmp=result_;result_=result;b.accept(*this);result_=tmp;}" % (ptr, ptr)) not in n:
        raise TranslatorError("%s::apply changed" % cls_name)
    if ("void eval_%s(%s result,const Basic&b,mpfr_rnd_t rnd){%s v(rnd);v.apply(result,b);}" % (lib, ptr, cls_name)) not in n:
        raise TranslatorError("eval_%s entry point changed" % lib)
    return out


# ----------------------------------------------------------------------------- real_mpfr.cpp

KINDS = ["Integer", "Rational", "Complex", "RealDouble", "ComplexDouble", "RealMPFR"]
OPS = {"addreal": "add", "subreal": "sub", "rsubreal": "rsub", "mulreal": "mul", "divreal": "div",
       "rdivreal": "rdiv", "powreal": "pow", "rpowreal": "rpow"}
OTHER_SRC = {"Integer": ["get_mpz_t(other.as_integer_class())"], "Rational": ["get_mpq_t(other.as_rational_class())"],
             "RealDouble": ["other.i"], "RealMPFR": ["other.i.get_mpfr_t()"],
             "Complex": ["get_mpq_t(other.real_),get_mpq_t(other.imaginary_)"],
             "ComplexDouble": ["other.i.real(),other.i.imag()"]}


def arith_stmts(b, kind, what):
    """call sequence over registers t (res) / s (tmp); operands `this` (i) and `other`"""
    out, rest = [], b
    regs = {}
    other_txt = OTHER_SRC[kind][0]

    def arg(tok):
        tok = tok.strip()
        if tok in ("i.get_mpfr_t()", "this->i.get_mpfr_t()"):
            return ".this"
        if tok == other_txt:
            return ".other"
        m = re.match(r"^(\w+)\.get_mp(?:fr|c)_t\(\)$", tok)
        if m and m.group(1) in regs:
            return "(.reg %s)" % regs[m.group(1)]
        if re.match(r"^-?\d+$", tok):
            return "(.si (%s))" % tok if tok.startswith("-") else "(.ui %s)" % tok
        raise TranslatorError("%s: argument %r" % (what, tok))

    prec = None
    while rest:
        m = re.match(r"^mp(?:fr|c)_class (\w+)\(([^;]*?)\)(?:,(\w+)\(([^;]*?)\))?;", rest)
        if m:
            for nm, pr in ((m.group(1), m.group(2)), (m.group(3), m.group(4))):
                if nm is None:
                    continue
                regs[nm] = ".res" if not regs else ".tmp"
                if len(regs) > 2:
                    raise TranslatorError("%s: too many temporaries" % what)
                if pr == "get_prec()":
                    pp = "this"
                elif pr == "std::max(get_prec(),other.get_prec())":
                    pp = "max"
                else:
                    raise TranslatorError("%s: precision %s" % (what, pr))
                if prec is None:
                    prec = pp
                elif prec != pp:
                    raise TranslatorError("%s: mixed precisions" % what)
            rest = rest[m.end():]
            continue
        m = re.match(r"^(mp(?:fr|c)_\w+)\(([^;]*?),MPFR_RNDN\);", rest)
        if m:
            fn = m.group(1)
            raw = m.group(2)
            # the two-component sources of Complex / ComplexDouble are one operand
            raw = raw.replace(other_txt, "@OTHER@")
            toks = [t.replace("@OTHER@", other_txt) for t in raw.split(",")]
            dst = arg(toks[0])
            if not dst.startswith("(.reg "):
                raise TranslatorError("%s: destination %s" % (what, toks[0]))
            out.append("(.call %s %s [%s])" % (lean_str(strip_lib(fn, ("mpfr", "mpc"), what)), dst[6:-1],
                                               ", ".join(arg(t) for t in toks[1:])))
            rest = rest[m.end():]
            continue
        m = re.match(r"^return (?:make_rcp<const RealMPFR>|complex_mpc)\(std::move\((\w+)\)\);", rest)
        if m:
            if regs.get(m.group(1)) != ".res":
                raise TranslatorError("%s: returns %s" % (what, m.group(1)))
            rest = rest[m.end():]
            if rest:
                raise TranslatorError("%s: code after return" % what)
            return out, prec
        raise TranslatorError("%s: statement %s" % (what, rest[:100]))
    raise TranslatorError("%s: no return" % what)


THROW = 'throw SymEngineException("Result is complex. Recompile with MPC support.");'


def tr_arith(repo):
    raw = (repo / "symengine/real_mpfr.cpp").read_text()
    src = strip_comments(raw)
    entries = []
    seen = set()
    for m in re.finditer(r"RCP<const Number>\s+RealMPFR::(\w+)\(const (\w+) &other\) const\s*\{", src):
        meth, kind = m.group(1), m.group(2)
        if meth not in OPS or kind not in KINDS:
            raise TranslatorError("unexpected method RealMPFR::%s(const %s&)" % (meth, kind))
        st = m.end() - 1
        body = src[st + 1:match_brace(src, st) - 1]
        what = "RealMPFR::%s(%s)" % (meth, kind)
        if (meth, kind) in seen:
            raise TranslatorError("duplicate " + what)
        seen.add((meth, kind))
        # split on the preprocessor structure
        lines = body.split("\n")
        segs, cur, mode = {"pre": [], "mpc": [], "nompc": [], "post": []}, "pre", None
        for ln in lines:
            s = ln.strip()
            if s.startswith("#ifdef HAVE_SYMENGINE_MPC"):
                if cur != "pre":
                    raise TranslatorError(what + ": nested #ifdef")
                cur = "mpc"
            elif s.startswith("#else"):
                cur = "nompc"
            elif s.startswith("#endif"):
                cur = "post"
            elif s.startswith("#"):
                raise TranslatorError(what + ": preprocessor line " + s)
            else:
                segs[cur].append(ln)
        pre, mpc, nompc, post = (norm("\n".join(segs[k])) for k in ("pre", "mpc", "nompc", "post"))
        zero = False
        guard = ""
        body_real, prec, body_mpc = [], "", []
        if mpc:
            if nompc != THROW:
                raise TranslatorError(what + ": the branch without MPC is not the expected throw")
            gm = re.match(r"^if\((.*?)\)\{$", pre)
            if gm:
                if not post.startswith("}"):
                    raise TranslatorError(what + ": guard block")
                post = post[1:]
                g = gm.group(1)
                if g == "mpfr_cmp_si(i.get_mpfr_t(),0)<0":
                    guard = "this"
                elif g == "other.is_negative()" and kind in ("Integer", "Rational"):
                    guard = "other"
                elif g == "other.i<0" and kind == "RealDouble":
                    guard = "other"
                elif g == "mpfr_cmp_si(other.i.get_mpfr_t(),0)<0" and kind == "RealMPFR":
                    guard = "other"
                else:
                    raise TranslatorError(what + ": guard " + g)
                body_mpc, _ = arith_stmts(mpc, kind, what + " [mpc]")
                body_real, prec = arith_stmts(post, kind, what)
            else:
                if pre or post:
                    raise TranslatorError(what + ": code outside the MPC block")
                body_mpc, _ = arith_stmts(mpc, kind, what + " [mpc]")
        else:
            txt = pre
            if txt.startswith("if(other.is_zero()){return zero;}"):
                zero = True
                txt = txt[len("if(other.is_zero()){return zero;}"):]
            body_real, prec = arith_stmts(txt, kind, what)
        entries.append(dict(op=OPS[meth], other=kind, zero=zero, guard=guard, prec=prec or "",
                            body=body_real, mpc=body_mpc))
    # dispatch chains in the header
    h = norm(strip_comments((repo / "symengine/real_mpfr.h").read_text()))
    chains = {}
    for pub, meth in (("add", "addreal"), ("sub", "subreal"), ("rsub", "rsubreal"), ("mul", "mulreal"),
                      ("div", "divreal"), ("rdiv", "rdivreal"), ("pow", "powreal"), ("rpow", "rpowreal")):
        m = re.search(r"RCP<const Number>%s\(const Number&other\)const override\{(.*?)\}\}" % pub, h)
        if not m:
            raise TranslatorError("RealMPFR::%s dispatch not found" % pub)
        chain = m.group(1) + "}"
        ks = re.findall(r"if\(is_a<(\w+)>\(other\)\)\{return (\w+)\(down_cast<const (\w+)&>\(other\)\);\}", chain)
        for k, mm, k2 in ks:
            if mm != meth or k != k2:
                raise TranslatorError("RealMPFR::%s dispatches %s to %s(%s)" % (pub, k, mm, k2))
        tail = re.sub(r"(?:else )?if\(is_a<\w+>\(other\)\)\{return \w+\(down_cast<const \w+&>\(other\)\);\}", "", chain)
        if pub.startswith("r"):
            ok = tail == 'else{throw NotImplementedError("Not Implemented");}'
        else:
            ok = tail == "else{return other.%s%s(*this);}" % ("" if pub in ("add", "mul") else "r", pub)
        if not ok:
            raise TranslatorError("RealMPFR::%s dispatch tail %s" % (pub, tail))
        chains[OPS[meth]] = [k for k, _, _ in ks]
        have = sorted(e["other"] for e in entries if e["op"] == OPS[meth])
        if sorted(chains[OPS[meth]]) != have:
            raise TranslatorError("RealMPFR::%s dispatches to %s but %s are defined" % (pub, sorted(chains[OPS[meth]]), have))
    return entries, chains


def fn(repo: Path, gen_dir: Path) -> dict:
    repo = Path(repo)
    mpfr = tr_visitor(repo, "symengine/eval_mpfr.cpp", "EvalMPFRVisitor", "mpfr")
    mpc = tr_visitor(repo, "symengine/eval_mpc.cpp", "EvalMPCVisitor", "mpc")
    arith, chains = tr_arith(repo)
    ev = norm(strip_comments((repo / "symengine/eval.cpp").read_text()))
    want = ("else if(bits>53&&real){#ifdef HAVE_SYMENGINE_MPFR mpfr_class mc=mpfr_class(bits);mpfr_ptr result=mc.get_mpfr_t();"
            "eval_mpfr(result,b,MPFR_RNDN);return make_rcp<RealMPFR>(std::move(mc));")
    ev1 = re.sub(r"\s*#\s*ifdef HAVE_SYMENGINE_MPFR\s*", "#ifdef HAVE_SYMENGINE_MPFR ", ev)
    evalf_ok = want.replace(" ", "") in ev1.replace(" ", "")
    if not evalf_ok:
        raise TranslatorError("evalf_numeric: > 53 bit real dispatch changed")
    want2 = "mpc_class mc=mpc_class(bits);mpc_ptr result=mc.get_mpc_t();eval_mpc(result,b,MPFR_RNDN);return make_rcp<ComplexMPC>(std::move(mc));"
    if want2.replace(" ", "") not in ev.replace(" ", ""):
        raise TranslatorError("evalf_numeric: > 53 bit complex dispatch changed")

    out = "/- GENERATED by tools/extract/c45_mpfr.py from symengine/eval_mpfr.cpp, eval_mpc.cpp, real_mpfr.cpp/.h.\n"
    out += "   Do not edit: regenerated on every check run. -/\n"
    out += "import SymVerif.Model.Mpfr\nnamespace SymVerif.Mpfr.Gen\nopen SymVerif.Mpfr\n\n"
    for name, doc, ents in (("mpfrDefs", "EvalMPFRVisitor (eval_mpfr)", mpfr), ("mpcDefs", "EvalMPCVisitor (eval_mpc)", mpc)):
        out += "/-- %s -/\ndef %s : MDefs := [\n" % (doc, name)
        out += ",\n".join("  (%s, %s)" % (lean_str(k), v) for k, v in ents)
        out += "]\n\n"
    out += "/-- RealMPFR::<op>real(const <Kind>&) (real_mpfr.cpp) -/\ndef realArith : List ArithEntry := [\n"
    out += ",\n".join("  { op := %s, other := %s, zeroShortcut := %s, guard := %s, prec := %s,\n    body := %s,\n    mpcBody := %s }" % (
        lean_str(e["op"]), lean_str(e["other"]), "true" if e["zero"] else "false", lean_str(e["guard"]),
        lean_str(e["prec"]), lst(e["body"]), lst(e["mpc"])) for e in arith)
    out += "]\n\n"
    out += "/-- evalf_numeric(b, bits > 53, real) = RealMPFR(mpfr_class(bits)) filled by eval_mpfr(…, MPFR_RNDN) -/\n"
    out += "def evalfRealUsesBitsPrecision : Bool := true\n\n"
    out += "end SymVerif.Mpfr.Gen\n"
    gen_dir = Path(gen_dir)
    gen_dir.mkdir(parents=True, exist_ok=True)
    f = gen_dir / "MpfrFormulas.lean"
    if not f.exists() or f.read_text() != out:
        f.write_text(out)
    return dict(translator="c45_mpfr", mpfr_kinds=len(mpfr), mpc_kinds=len(mpc), arith_methods=len(arith),
                dispatch={k: v for k, v in chains.items()})


if __name__ == "__main__":
    print(fn(Path(sys.argv[1] if len(sys.argv) > 1 else "/repo"), Path(sys.argv[2] if len(sys.argv) > 2 else "/tmp/gen")))
