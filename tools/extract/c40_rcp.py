"""C40 translator: symengine/symengine_rcp.h + every symengine/*.cpp|*.h  ->  lean/SymVerif/Gen/RcShape.lean

Ties the protocol model (lean/SymVerif/Model/RC.lean) to the source text:

 * each member function of `RCP<T>` / `EnableRCPFromThis<T>` that the model mirrors is compared
   (comments stripped, whitespace-normalised) with the statement sequence the model encodes
   (copy = `++` if non-null; destructor/reset = `--` then `delete` at 0; copy assignment increments
   the source *before* releasing the old target; move leaves the source null; `rcp_from_this`
   builds an RCP from the raw `this`; the count starts at 0).  A function whose body no longer has
   that shape makes the translator raise (tie broken, kind T).
 * every place in the library that casts away constness of a dictionary in order to move out of it
   (the "steal") is listed with: guarded by `use_count() == 1` in the enclosing `if`, and compiled only
   under `#if !defined(WITH_SYMENGINE_THREAD_SAFE)`.  The list goes to Gen/RcShape.lean; Props/C40
   proves by `decide` that every listed site is guarded, so a new unguarded site breaks the proof.
"""
import re
from pathlib import Path


class ShapeError(Exception):
    pass


def strip_comments(txt):
    txt = re.sub(r"/\*.*?\*/", lambda m: re.sub(r"[^\n]", " ", m.group(0)), txt, flags=re.S)
    txt = re.sub(r"//[^\n]*", "", txt)
    return txt


def norm(s):
    return re.sub(r"\s+", "", s)


RCP_SHAPES = {
    "explicit constructor from raw pointer":
        "explicit RCP(T *p) : ptr_(p) { SYMENGINE_ASSERT(ptr_ != nullptr) (ptr_->refcount_)++; }",
    "copy constructor":
        "RCP(const RCP<T> &rp) : ptr_(rp.ptr_) { if (not is_null()) (ptr_->refcount_)++; }",
    "converting copy constructor":
        "RCP(const RCP<T2> &r_ptr) : ptr_(r_ptr.get()) { if (not is_null()) (ptr_->refcount_)++; }",
    "move constructor":
        "RCP(RCP<T> &&rp) SYMENGINE_NOEXCEPT : ptr_(rp.ptr_) { rp.ptr_ = nullptr; }",
    "converting move constructor":
        "RCP(RCP<T2> &&r_ptr) SYMENGINE_NOEXCEPT : ptr_(r_ptr.get()) { r_ptr._set_null(); }",
    "destructor":
        "~RCP() SYMENGINE_NOEXCEPT { if (ptr_ != nullptr and --(ptr_->refcount_) == 0) delete ptr_; }",
    "copy assignment":
        "RCP<T> &operator=(const RCP<T> &r_ptr) { T *r_ptr_ptr_ = r_ptr.ptr_; if (not r_ptr.is_null()) "
        "(r_ptr_ptr_->refcount_)++; if (not is_null() and --(ptr_->refcount_) == 0) delete ptr_; "
        "ptr_ = r_ptr_ptr_; return *this; }",
    "move assignment":
        "RCP<T> &operator=(RCP<T> &&r_ptr) { std::swap(ptr_, r_ptr.ptr_); return *this; }",
    "reset":
        "void reset() { if (not is_null() and --(ptr_->refcount_) == 0) delete ptr_; ptr_ = nullptr; }",
    "rcp_from_this":
        "inline RCP<T> rcp_from_this() { #if defined(WITH_SYMENGINE_RCP) return rcp(static_cast<T *>(this));",
    "rcp_from_this const":
        "inline RCP<const T> rcp_from_this() const { #if defined(WITH_SYMENGINE_RCP) "
        "return rcp(static_cast<const T *>(this));",
    "use_count":
        "unsigned int use_count() const { #if defined(WITH_SYMENGINE_RCP) return refcount_;",
    "count starts at zero":
        "EnableRCPFromThis() : refcount_(0) {}",
    "make_rcp":
        "inline RCP<T> make_rcp(Args &&...args) { #if defined(WITH_SYMENGINE_RCP) "
        "return rcp(new T(std::forward<Args>(args)...));",
    "atomic count in thread-safe builds":
        "#if defined(WITH_SYMENGINE_THREAD_SAFE) mutable std::atomic<unsigned int> refcount_; #else "
        "mutable unsigned int refcount_; #endif",
}


def check_rcp_header(repo):
    p = repo / "symengine" / "symengine_rcp.h"
    txt = norm(strip_comments(p.read_text()))
    missing = [k for k, v in RCP_SHAPES.items() if norm(v) not in txt]
    if missing:
        raise ShapeError("symengine_rcp.h: no longer has the modelled shape for: " + "; ".join(missing))
    return len(RCP_SHAPES)


def cpp_conditionals(lines):
    """For each line index, the stack of active preprocessor conditions (strings)."""
    stack, out = [], []
    for raw in lines:
        s = raw.strip()
        if re.match(r"#\s*if", s):
            stack.append(s)
        elif re.match(r"#\s*(else|elif)", s):
            if stack:
                stack[-1] = "ELSE-OF " + stack[-1]
        elif re.match(r"#\s*endif", s):
            if stack:
                stack.pop()
        out.append(list(stack))
    return out


STEAL_PAT = re.compile(r"const_cast\s*<\s*(?:map_basic_basic|umap_basic_num|map_basic_num|vec_basic|set_basic|"
                       r"std::\w+<[^>]*>|\w*dict\w*)\s*&\s*>")


def steal_sites(repo):
    sites = []
    files = sorted(list((repo / "symengine").glob("*.cpp")) + list((repo / "symengine").glob("*.h"))
                   + list((repo / "symengine" / "polys").glob("*.h")) + list((repo / "symengine" / "polys").glob("*.cpp")))
    for f in files:
        src = strip_comments(f.read_text(errors="replace"))
        lines = src.splitlines()
        conds = cpp_conditionals(lines)
        for i, l in enumerate(lines):
            if STEAL_PAT.search(l):
                # guarded: an `if (… use_count() == 1)` opens the block within the preceding 12 lines
                window = "\n".join(lines[max(0, i - 12):i])
                guarded = re.search(r"if\s*\([^;{]*use_count\(\)\s*==\s*1\s*\)\s*\{", window) is not None
                nts = any(re.search(r"!\s*defined\s*\(\s*WITH_SYMENGINE_THREAD_SAFE\s*\)", c)
                          and not c.startswith("ELSE-OF") for c in conds[i])
                # the moved-from dictionary must be consumed by std::move right after
                moved = "std::move" in "\n".join(lines[i:i + 3])
                sites.append((str(f.relative_to(repo / "symengine")), i + 1, guarded, nts, moved))
    return sites


def lean_bool(b):
    return "true" if b else "false"


def fn(repo: Path, gen_dir: Path) -> dict:
    n = check_rcp_header(repo)
    sites = steal_sites(repo)
    if not sites:
        raise ShapeError("no dictionary-steal site found (Add::from_dict changed shape?)")
    body = ",\n   ".join('("%s", %d, %s, %s)' % (f, ln, lean_bool(g), lean_bool(t)) for f, ln, g, t, _ in sites)
    txt = ("/- generated by tools/extract/c40_rcp.py from the working tree; do not edit -/\n"
           "namespace SymVerif.Gen.RcShape\n\n"
           "/-- number of `RCP` / `EnableRCPFromThis` member functions whose text matched the modelled shape -/\n"
           "def rcpShapesMatched : Nat := %d\n\n"
           "/-- every `const_cast<dictionary &>` in the library: (file, line, guarded by `use_count() == 1`,\n"
           "    compiled only when `WITH_SYMENGINE_THREAD_SAFE` is not defined) -/\n"
           "def stealSites : List (String × Nat × Bool × Bool) :=\n  [%s]\n\n"
           "end SymVerif.Gen.RcShape\n") % (n, body)
    out = gen_dir / "RcShape.lean"
    if not out.exists() or out.read_text() != txt:
        out.write_text(txt)
    return dict(translator="c40_rcp", rcp_shapes=n,
                steal_sites=[dict(file=f, line=ln, guarded=g, not_thread_safe_only=t, moved=m) for f, ln, g, t, m in sites])
