"""C27 translator: symengine/type_codes.inc (+ basic.h)  ->  lean/SymVerif/Gen/SetsTypeCodes.lean

The set containers of symengine (`set_basic`, `set_set`) are `std::set`s ordered by `RCPBasicKeyLess`, i.e. by
`Basic::hash()` first.  Several set algorithms iterate such containers and their *result* depends on the order
(Union::set_union merges with the first mergeable member, the free set_intersection distributes over the first
Union, ...).  The Lean model of C27 therefore reproduces the hash of numbers and sets; every `__hash__` is seeded
with the class's TypeID, which is what this translator re-reads on every run.

Also re-checked here (shape ties, the translator raises if they no longer hold):
  * basic.h expands the enum with SYMENGINE_INCLUDE_ALL (the numbering is configuration independent);
  * hash_combine for integral values is  seed ^= v + 0x9e3779b9 + (seed << 6) + (seed >> 2)   (basic-inl.h);
  * RCPBasicKeyLess compares the hashes first (basic.h);
  * Integer::__hash__ / Rational::__hash__ / Infty::__hash__ and the __hash__ of the set classes have the
    bodies the model mirrors (whitespace-normalised comparison).
"""
import re
from pathlib import Path

NEEDED = ["SYMENGINE_INTEGER", "SYMENGINE_RATIONAL", "SYMENGINE_INFTY", "SYMENGINE_EMPTYSET", "SYMENGINE_FINITESET",
          "SYMENGINE_INTERVAL", "SYMENGINE_COMPLEXES", "SYMENGINE_REALS", "SYMENGINE_RATIONALS",
          "SYMENGINE_INTEGERS", "SYMENGINE_NATURALS", "SYMENGINE_NATURALS0", "SYMENGINE_UNION",
          "SYMENGINE_INTERSECTION", "SYMENGINE_COMPLEMENT", "SYMENGINE_UNIVERSALSET"]


class ShapeError(Exception):
    pass


def norm(s):
    s = re.sub(r"/\*.*?\*/", " ", s, flags=re.S)
    s = re.sub(r"//[^\n]*", " ", s)
    return re.sub(r"\s+", "", s)


def body_of(txt, signature):
    """Text between the braces of the function whose header contains `signature`."""
    i = txt.find(signature)
    if i < 0:
        raise ShapeError("function %r not found" % signature)
    j = txt.find("{", i)
    depth, k = 0, j
    while k < len(txt):
        if txt[k] == "{":
            depth += 1
        elif txt[k] == "}":
            depth -= 1
            if depth == 0:
                return txt[j + 1:k]
        k += 1
    raise ShapeError("unbalanced braces after %r" % signature)


def expect(txt, signature, shape, where):
    got = norm(body_of(txt, signature))
    if got != norm(shape):
        raise ShapeError("%s: body of %s changed: %s" % (where, signature, got[:200]))


def fn(repo: Path, gen_dir: Path) -> dict:
    se = repo / "symengine"
    basic_h = (se / "basic.h").read_text()
    m = re.search(r"enum\s+TypeID\s*\{(.*?)\}\s*;", basic_h, flags=re.S)
    if not m or "type_codes.inc" not in m.group(1):
        raise ShapeError("basic.h: enum TypeID does not include type_codes.inc any more")
    pre = m.group(1).split("type_codes.inc")[0]
    if not re.search(r"#define\s+SYMENGINE_INCLUDE_ALL\b", pre):
        raise ShapeError("basic.h: enum TypeID is no longer expanded with SYMENGINE_INCLUDE_ALL")
    if not re.search(r"#define\s+SYMENGINE_ENUM\(\s*type\s*,\s*Class\s*\)\s*type\s*,", pre):
        raise ShapeError("basic.h: unexpected SYMENGINE_ENUM expansion inside enum TypeID")
    codes = {}
    n = 0
    for line in (se / "type_codes.inc").read_text().splitlines():
        mm = re.match(r"\s*SYMENGINE_ENUM\(\s*(\w+)\s*,\s*(\w+)\s*\)", line)
        if mm:
            codes[mm.group(1)] = n
            n += 1
    for k in NEEDED:
        if k not in codes:
            raise ShapeError("type_codes.inc: %s missing" % k)

    # RCPBasicKeyLess: hash first
    expect(basic_h, "struct RCPBasicKeyLess", """
        bool operator()(const RCP<const Basic> &x, const RCP<const Basic> &y) const
        { hash_t xh = x->hash(), yh = y->hash(); if (xh != yh) return xh < yh;
          if (eq(*x, *y)) return false; return x->__cmp__(*y) == -1; }""", "basic.h")
    inl = (se / "basic-inl.h").read_text()
    if "seed^=hash_t(v)+hash_t(0x9e3779b9)+(seed<<6)+(seed>>2);" not in norm(inl):
        raise ShapeError("basic-inl.h: hash_combine for integral values changed")
    expect((se / "integer.cpp").read_text(), "hash_t Integer::__hash__() const",
           "return ((hash_t)mp_get_ui(this->i)) * (hash_t)(mp_sign(this->i));", "integer.cpp")
    expect((se / "rational.cpp").read_text(), "hash_t Rational::__hash__() const", """
        hash_t seed = SYMENGINE_RATIONAL;
        hash_combine<long long int>(seed, mp_get_si(SymEngine::get_num(this->i)));
        hash_combine<long long int>(seed, mp_get_si(SymEngine::get_den(this->i)));
        return seed;""", "rational.cpp")
    expect((se / "infinity.cpp").read_text(), "hash_t Infty::__hash__() const",
           "hash_t seed = SYMENGINE_INFTY; hash_combine<Basic>(seed, *_direction); return seed;", "infinity.cpp")
    sets = (se / "sets.cpp").read_text()
    expect(sets, "hash_t Interval::__hash__() const", """
        hash_t seed = SYMENGINE_INTERVAL; hash_combine<Basic>(seed, *start_); hash_combine<Basic>(seed, *end_);
        hash_combine<bool>(seed, left_open_); hash_combine<bool>(seed, right_open_); return seed;""", "sets.cpp")
    for cls, code in [("FiniteSet", "SYMENGINE_FINITESET"), ("Union", "SYMENGINE_UNION"),
                      ("Intersection", "SYMENGINE_INTERSECTION")]:
        expect(sets, "hash_t %s::__hash__() const" % cls,
               "hash_t seed = %s; for (const auto &a : container_) hash_combine<Basic>(seed, *a); return seed;" % code,
               "sets.cpp")
    expect(sets, "hash_t Complement::__hash__() const", """
        hash_t seed = SYMENGINE_COMPLEMENT; hash_combine<Basic>(seed, *universe_);
        hash_combine<Basic>(seed, *container_); return seed;""", "sets.cpp")
    for cls, code in [("EmptySet", "SYMENGINE_EMPTYSET"), ("UniversalSet", "SYMENGINE_UNIVERSALSET"),
                      ("Reals", "SYMENGINE_REALS"), ("Rationals", "SYMENGINE_RATIONALS"),
                      ("Integers", "SYMENGINE_INTEGERS"), ("Naturals", "SYMENGINE_NATURALS"),
                      ("Naturals0", "SYMENGINE_NATURALS0")]:
        expect(sets, "hash_t %s::__hash__() const" % cls, "hash_t seed = %s; return seed;" % code, "sets.cpp")

    out = ["/- GENERATED by tools/extract/c27_typecodes.py from symengine/type_codes.inc -- do not edit. -/",
           "namespace SymVerif.Gen.SetsTC", ""]
    for k in NEEDED:
        name = "tc" + "".join(p.capitalize() for p in k[len("SYMENGINE_"):].lower().split("_"))
        out.append("def %s : UInt64 := %d" % (name, codes[k]))
    out += ["", "end SymVerif.Gen.SetsTC", ""]
    gen_dir.mkdir(parents=True, exist_ok=True)
    p = gen_dir / "SetsTypeCodes.lean"
    txt = "\n".join(out)
    if not p.exists() or p.read_text() != txt:
        p.write_text(txt)
    return dict(translator="c27_typecodes", source="symengine/type_codes.inc", entries=n,
                codes={k: codes[k] for k in NEEDED})
