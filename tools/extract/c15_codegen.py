#!/usr/bin/env python3
"""Translator for C15 (C code printers).

* parses `init_str_printer_names()` (strprinter.cpp) into the class -> C function name table,
* determines whether CodePrinter::bvisit(const UnevaluatedExpr&) parenthesises its operand,
* pins (sha256 of the comment-stripped, whitespace-normalised body) every function of
  strprinter.cpp / codegen.cpp / visitor.h whose logic is modelled *by hand* in
  lean/SymVerif/Model/CCode.lean.  A changed body raises TranslatorError: the model has to be
  revisited (tie broken, kind T) instead of silently drifting.

Writes lean/SymVerif/Gen/CCodeNames.lean.
"""
import hashlib
import re
import sys
from pathlib import Path

sys.path.insert(0, str(Path(__file__).resolve().parent))
from c12_formulas import TranslatorError, strip_comments, strip_ifdef, norm, match_brace  # noqa: E402

# function header regex -> accepted body hashes (first 16 hex digits)
PINNED = {
    "strprinter.cpp": {
        r"void Precedence::bvisit\(const Add &x\)": None,
        r"void Precedence::bvisit\(const Mul &x\)": None,
        r"void Precedence::bvisit\(const Relational &x\)": None,
        r"void Precedence::bvisit\(const Pow &x\)": None,
        r"void Precedence::bvisit\(const Rational &x\)": None,
        r"void Precedence::bvisit\(const Complex &x\)": None,
        r"void Precedence::bvisit\(const Integer &x\)": None,
        r"void Precedence::bvisit\(const RealDouble &x\)": None,
        r"void Precedence::bvisit\(const ComplexDouble &x\)": None,
        r"void Precedence::bvisit\(const Basic &x\)": None,
        r"PrecedenceEnum Precedence::getPrecedence\(const RCP<const Basic> &x\)": None,
        r"void StrPrinter::bvisit\(const Symbol &x\)": None,
        r"void StrPrinter::bvisit\(const Integer &x\)": None,
        r"std::string print_double\(double d\)": None,
        r"void StrPrinter::bvisit\(const RealDouble &x\)": None,
        r"void StrPrinter::bvisit\(const Add &x\)": None,
        r"void StrPrinter::bvisit\(const Mul &x\)": None,
        r"std::string StrPrinter::print_div\(const std::string &num,\s*const std::string &den, bool paren\)": None,
        r"bool StrPrinter::split_mul_coef\(\)": None,
        r"void StrPrinter::bvisit\(const Pow &x\)": None,
        r"std::string StrPrinter::apply\(const vec_basic &d\)": None,
        r"std::string StrPrinter::parenthesizeLT\(const RCP<const Basic> &x,\s*PrecedenceEnum precedenceEnum\)": None,
        r"std::string StrPrinter::parenthesizeLE\(const RCP<const Basic> &x,\s*PrecedenceEnum precedenceEnum\)": None,
        r"std::string StrPrinter::parenthesize\(const std::string &x\)": None,
        r"std::string StrPrinter::print_mul\(\)": None,
    },
    "codegen.cpp": {
        r"const char \*print_precision_suffix\(CodePrinterPrecision precision\)": None,
        r"std::string CodePrinter::print_scalar_literal\(double d\) const": None,
        r"std::string CodePrinter::print_math_function\(const std::string &name\) const": None,
        r"std::string\s+CodePrinter::format_codegen_function_name\(const std::string &name\) const": None,
        r"std::string CodePrinter::print_binary_reduction\(const vec_basic &args,\s*const std::string &func_name\)": None,
        r"std::string\s+CodePrinter::print_binary_reduction_impl\(vec_basic::const_iterator begin,\s*vec_basic::const_iterator end,\s*const std::string &func_name\)": None,
        r"void CodePrinter::bvisit\(const Basic &x\)": None,
        r"void CodePrinter::bvisit\(const Complex &x\)": None,
        r"void CodePrinter::bvisit\(const Dummy &x\)": None,
        r"void CodePrinter::bvisit\(const Interval &x\)": None,
        r"void CodePrinter::bvisit\(const Contains &x\)": None,
        r"void CodePrinter::bvisit\(const Piecewise &x\)": None,
        r"void CodePrinter::bvisit\(const BooleanAtom &x\)": None,
        r"void CodePrinter::bvisit\(const Integer &x\)": None,
        r"void CodePrinter::bvisit\(const And &x\)": None,
        r"void CodePrinter::bvisit\(const Or &x\)": None,
        r"void CodePrinter::bvisit\(const Xor &x\)": None,
        r"void CodePrinter::bvisit\(const Not &x\)": None,
        r"void CodePrinter::bvisit\(const Rational &x\)": None,
        r"void CodePrinter::bvisit\(const Abs &x\)": None,
        r"void CodePrinter::bvisit\(const Ceiling &x\)": None,
        r"void CodePrinter::bvisit\(const Truncate &x\)": None,
        r"void CodePrinter::bvisit\(const Max &x\)": None,
        r"void CodePrinter::bvisit\(const Min &x\)": None,
        r"void CodePrinter::bvisit\(const Constant &x\)": None,
        r"void CodePrinter::bvisit\(const NaN &x\)": None,
        r"void CodePrinter::bvisit\(const Equality &x\)": None,
        r"void CodePrinter::bvisit\(const Unequality &x\)": None,
        r"void CodePrinter::bvisit\(const LessThan &x\)": None,
        r"void CodePrinter::bvisit\(const StrictLessThan &x\)": None,
        r"void CodePrinter::bvisit\(const Sign &x\)": None,
        r"void CodePrinter::bvisit\(const Function &x\)": None,
        r"void CodePrinter::bvisit\(const RealDouble &x\)": None,
        r"void C89CodePrinter::bvisit\(const Infty &x\)": None,
        r"void C89CodePrinter::_print_pow\(std::ostringstream &o,\s*const RCP<const Basic> &a,\s*const RCP<const Basic> &b\)": None,
        r"void C99CodePrinter::bvisit\(const Infty &x\)": None,
        r"void C99CodePrinter::_print_pow\(std::ostringstream &o,\s*const RCP<const Basic> &a,\s*const RCP<const Basic> &b\)": None,
        r"void C99CodePrinter::bvisit\(const Gamma &x\)": None,
        r"void C99CodePrinter::bvisit\(const LogGamma &x\)": None,
        r"std::string ccode\(const Basic &x, CodePrinterPrecision precision\)": None,
    },
}
HASHES_FILE = Path(__file__).resolve().parent / "c15_pinned.json"


def body_of(src, header_re):
    m = re.search(header_re + r"\s*(?::[^{]*)?\{", src)
    if not m:
        raise TranslatorError("function not found: %s" % header_re)
    st = m.end() - 1
    return norm(src[st:match_brace(src, st)])


def h16(s):
    return hashlib.sha256(s.encode()).hexdigest()[:16]


def fn(repo: Path, gen_dir: Path) -> dict:
    import json
    repo = Path(repo)
    import os
    learn = os.environ.get("C15_LEARN") == "1"   # maintainer action after revisiting Model/CCode.lean
    if learn:
        pinned = {}
    elif HASHES_FILE.exists():
        pinned = json.loads(HASHES_FILE.read_text())
    else:
        raise TranslatorError("tools/extract/c15_pinned.json is missing")
    changed = []
    srcs = {}
    for fname in ("strprinter.cpp", "codegen.cpp"):
        src = (repo / "symengine/printers" / fname).read_text()
        src = strip_ifdef(strip_ifdef(strip_comments(src), "HAVE_SYMENGINE_MPFR"), "HAVE_SYMENGINE_MPC")
        srcs[fname] = src
        for hdr in PINNED[fname]:
            h = h16(body_of(src, hdr))
            key = fname + "::" + hdr
            if learn:
                pinned[key] = [h]
            elif h not in pinned.get(key, []):
                changed.append(key)
    # RewriteTrigVisitor (visitor.h): the twelve rewrites
    vis = strip_comments((repo / "symengine/visitor.h").read_text())
    m = re.search(r"class RewriteTrigVisitor[^{]*\{", vis)
    if not m:
        raise TranslatorError("RewriteTrigVisitor not found")
    rw = norm(vis[m.end() - 1:match_brace(vis, m.end() - 1)])
    key = "visitor.h::RewriteTrigVisitor"
    if learn:
        pinned[key] = [h16(rw)]
    elif h16(rw) not in pinned.get(key, []):
        changed.append(key)
    rewrites = dict(re.findall(r"void visit\(const (\w+)&x\)override\{(.*?)->accept\(\*this\);\}", rw))
    expect = {"Cot": "div(one,tan(x.get_arg()))", "Csc": "div(one,sin(x.get_arg()))", "Sec": "div(one,cos(x.get_arg()))",
              "ACot": "atan(div(one,x.get_arg()))", "ACsc": "asin(div(one,x.get_arg()))", "ASec": "acos(div(one,x.get_arg()))",
              "Coth": "div(one,tanh(x.get_arg()))", "Csch": "div(one,sinh(x.get_arg()))", "Sech": "div(one,cosh(x.get_arg()))",
              "ACoth": "atanh(div(one,x.get_arg()))", "ACsch": "asinh(div(one,x.get_arg()))", "ASech": "acosh(div(one,x.get_arg()))"}
    if rewrites != expect:
        raise TranslatorError("RewriteTrigVisitor rewrites changed: %s" % rewrites)
    # precedence enum
    sh = strip_comments((repo / "symengine/printers/strprinter.h").read_text())
    if not re.search(r"enum class PrecedenceEnum\s*\{\s*Relational,\s*Add,\s*Mul,\s*Pow,\s*Atom\s*\}", sh):
        raise TranslatorError("PrecedenceEnum changed")
    # UnevaluatedExpr
    ub = body_of(srcs["codegen.cpp"], r"void CodePrinter::bvisit\(const UnevaluatedExpr &x\)")
    if ub == "{str_=apply(x.get_arg());}":
        uneval_paren = False
    elif ub == "{str_=parenthesize(apply(x.get_arg()));}":
        uneval_paren = True
    else:
        raise TranslatorError("CodePrinter::bvisit(UnevaluatedExpr) has an unexpected body: %s" % ub)
    # names table
    nb = body_of(srcs["strprinter.cpp"], r"std::vector<std::string> init_str_printer_names\(\)")
    tc = {}
    for m in re.finditer(r"SYMENGINE_ENUM\((SYMENGINE_\w+),\s*(\w+)\)", (repo / "symengine/type_codes.inc").read_text()):
        tc[m.group(1)] = m.group(2)
    names = []
    body_rest = nb
    for m in re.finditer(r'names\[(SYMENGINE_\w+)\]="(\w*)";', nb):
        if m.group(1) not in tc:
            raise TranslatorError("unknown type code %s" % m.group(1))
        if m.group(2):
            names.append((tc[m.group(1)], m.group(2)))
    skeleton = re.sub(r'names\[SYMENGINE_\w+\]="\w*";', "", nb)
    if skeleton != '{std::vector<std::string>names;names.assign(TypeID_Count,"");return names;}':
        raise TranslatorError("init_str_printer_names has an unexpected shape: %s" % skeleton[:200])
    # later assignments win (std::vector assignment), keep the last per class
    last = {}
    for k, v in names:
        last[k] = v
    if learn:
        HASHES_FILE.write_text(json.dumps(pinned, indent=1, sort_keys=True))
    if changed:
        raise TranslatorError("hand-modelled printer functions changed, revisit Model/CCode.lean: " + "; ".join(changed))
    out = "/- GENERATED by tools/extract/c15_codegen.py from printers/strprinter.cpp and printers/codegen.cpp. Do not edit. -/\n"
    out += "namespace SymVerif.CCode.Gen\n\n"
    out += "/-- init_str_printer_names(): class name ↦ printed function name -/\n"
    out += "def fnNames : List (String × String) := [\n"
    out += ",\n".join('  ("%s", "%s")' % kv for kv in sorted(last.items())) + "]\n\n"
    out += "/-- CodePrinter::bvisit(const UnevaluatedExpr&) parenthesises its operand -/\n"
    out += "def unevalParen : Bool := %s\n\n" % ("true" if uneval_paren else "false")
    out += "end SymVerif.CCode.Gen\n"
    gen_dir = Path(gen_dir)
    gen_dir.mkdir(parents=True, exist_ok=True)
    f = gen_dir / "CCodeNames.lean"
    if not f.exists() or f.read_text() != out:
        f.write_text(out)
    return dict(translator="c15_codegen", names=len(last), uneval_paren=uneval_paren, pinned=len(pinned), learned=learn)


if __name__ == "__main__":
    print(fn(Path(sys.argv[1] if len(sys.argv) > 1 else "/repo"), Path(sys.argv[2] if len(sys.argv) > 2 else "/tmp/gen")))
