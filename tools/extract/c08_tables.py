"""C08 translator: symengine/constants.cpp + symengine/functions.cpp
      ->  lean/SymVerif/Gen/TrigTables.lean   (recipes of the special-angle tables, as Lean data)
      ->  harness/c08_gen.h                    (the same initialiser lists, verbatim, for the `tab` ops)

What is read
  constants.cpp   the DEFINE_CONSTANTS macro: every DEFINE_CONSTANT(type, name, recipe)
  functions.cpp   sin_table():      static const RCP<const Basic> table[] = { 24 names };
                  inverse_cst():    inverse_cst_ = { {key, value}, ... }   (asin/acos/asec/acsc lookups)
                  inverse_tct():    inverse_tct_ = { {key, value}, ... }   (atan/acot/atan2 lookups)

Every table entry is a C++ expression over the public constructors add/sub/mul/div/pow/sqrt/neg/integer and
the named constants; it is parsed into the closed recipe language

    Recipe ::= int n | add a b | sub a b | mul a b | div a b | pow a b | sqrt a

with all names expanded (sqrt_(x) is the macro pow(x, div(one, i2)) and is kept as `sqrt x`).  The Lean
theorems of Props/C08 (`sinTable_value`, `inverseCst_value`, ...) quantify over the generated lists, so an
edited table entry makes `lake build` fail (tie kind P).  Anything that does not parse into this shape
raises (tie kind T).

The canonical S-expression dump that the *library* produces for every lookup key is pinned in
c08_pinned.json (recorded from the real library; the harness op `tab cst|tct <i>` re-checks on every run
that the library still builds exactly that tree from the source recipe).  The model's `inverse_lookup`
compares canonical dumps like the C++ `umap_basic_basic::find` compares trees.  A key recipe without a
pinned dump raises.
"""
import json
import re
from pathlib import Path

HERE = Path(__file__).resolve().parent
PINNED = HERE / "c08_pinned.json"


class ShapeError(Exception):
    pass


def strip_comments(s):
    s = re.sub(r"/\*.*?\*/", " ", s, flags=re.S)
    s = re.sub(r"//[^\n]*", " ", s)
    return s


# ------------------------------------------------------------------ tiny C++ call-expression parser

TOK = re.compile(r"\s*([A-Za-z_][A-Za-z_0-9]*|-?\d+|[(),{}])")


def tokenize(s):
    out, i = [], 0
    s = s.strip()
    while i < len(s):
        m = TOK.match(s, i)
        if not m:
            raise ShapeError("cannot tokenize recipe at %r" % s[i:i + 30])
        out.append(m.group(1))
        i = m.end()
    return out


def parse_expr(toks, i):
    """returns (ast, next) with ast = ('name', n) | ('num', k) | ('call', f, [args])"""
    if i >= len(toks):
        raise ShapeError("unexpected end of recipe")
    t = toks[i]
    if re.fullmatch(r"-?\d+", t):
        return ("num", int(t)), i + 1
    if not re.fullmatch(r"[A-Za-z_]\w*", t):
        raise ShapeError("unexpected token %r in recipe" % t)
    if i + 1 < len(toks) and toks[i + 1] == "(":
        args, j = [], i + 2
        if toks[j] == ")":
            return ("call", t, []), j + 1
        while True:
            a, j = parse_expr(toks, j)
            args.append(a)
            if toks[j] == ",":
                j += 1
                continue
            if toks[j] == ")":
                return ("call", t, args), j + 1
            raise ShapeError("expected , or ) in recipe, got %r" % toks[j])
    return ("name", t), i + 1


def parse_recipe_text(s):
    toks = tokenize(s)
    ast, j = parse_expr(toks, 0)
    if j != len(toks):
        raise ShapeError("trailing tokens in recipe %r" % s)
    return ast


BUILTIN = {"zero": 0, "one": 1, "minus_one": -1, "two": 2}
BIN = {"add", "sub", "mul", "div", "pow"}


def to_recipe(ast, defs, depth=0):
    """expand names, return nested tuples ('int', n) | (op, a, b) | ('sqrt', a)"""
    if depth > 40:
        raise ShapeError("recipe expansion too deep (cyclic definition?)")
    k = ast[0]
    if k == "num":
        return ("int", ast[1])
    if k == "name":
        n = ast[1]
        if n in BUILTIN:
            return ("int", BUILTIN[n])
        if n in defs:
            return to_recipe(defs[n], defs, depth + 1)
        raise ShapeError("unknown name %r in a table recipe" % n)
    f, args = ast[1], ast[2]
    if f == "integer" and len(args) == 1 and args[0][0] == "num":
        return ("int", args[0][1])
    if f in BIN and len(args) == 2:
        return (f, to_recipe(args[0], defs, depth + 1), to_recipe(args[1], defs, depth + 1))
    if f in ("sqrt", "sqrt_") and len(args) == 1:
        return ("sqrt", to_recipe(args[0], defs, depth + 1))
    if f == "neg" and len(args) == 1:
        return ("mul", ("int", -1), to_recipe(args[0], defs, depth + 1))
    raise ShapeError("constructor %s/%d is outside the recipe language" % (f, len(args)))


def recipe_text(r):
    if r[0] == "int":
        return str(r[1])
    if r[0] == "sqrt":
        return "sqrt(%s)" % recipe_text(r[1])
    return "%s(%s,%s)" % (r[0], recipe_text(r[1]), recipe_text(r[2]))


def recipe_lean(r):
    if r[0] == "int":
        return "(.int (%d))" % r[1]
    if r[0] == "sqrt":
        return "(.sqrt %s)" % recipe_lean(r[1])
    return "(.%s %s %s)" % (r[0], recipe_lean(r[1]), recipe_lean(r[2]))


# ------------------------------------------------------------------ source scanning

def balanced(s, i, open_ch, close_ch):
    """s[i] == open_ch; returns index just after the matching close"""
    assert s[i] == open_ch
    d = 0
    for j in range(i, len(s)):
        if s[j] == open_ch:
            d += 1
        elif s[j] == close_ch:
            d -= 1
            if d == 0:
                return j + 1
    raise ShapeError("unbalanced %s%s" % (open_ch, close_ch))


def split_top(s, sep=","):
    out, d, cur = [], 0, ""
    for c in s:
        if c in "({":
            d += 1
        elif c in ")}":
            d -= 1
        if c == sep and d == 0:
            out.append(cur)
            cur = ""
        else:
            cur += c
    if cur.strip():
        out.append(cur)
    return [x.strip() for x in out]


def read_constants(repo):
    src = strip_comments((repo / "symengine" / "constants.cpp").read_text())
    m = re.search(r"#define\s+DEFINE_CONSTANTS\b", src)
    if not m:
        raise ShapeError("constants.cpp: DEFINE_CONSTANTS macro not found")
    # the macro body: continuation lines
    body, i = "", m.end()
    for line in src[i:].split("\n"):
        body += line.rstrip().rstrip("\\") + "\n"
        if not line.rstrip().endswith("\\"):
            break
    defs_text, defs = {}, {}
    pos = 0
    while True:
        k = body.find("DEFINE_CONSTANT(", pos)
        if k < 0:
            break
        e = balanced(body, k + len("DEFINE_CONSTANT"), "(", ")")
        inner = body[k + len("DEFINE_CONSTANT("):e - 1]
        parts = split_top(inner)
        if len(parts) < 3:
            raise ShapeError("DEFINE_CONSTANT with %d fields" % len(parts))
        ty, name, rec = parts[0], parts[1], ",".join(parts[2:])
        defs_text[name] = re.sub(r"\s+", " ", rec)
        pos = e
    if len(defs_text) < 30:
        raise ShapeError("constants.cpp: only %d DEFINE_CONSTANT entries found" % len(defs_text))
    for n, t in defs_text.items():
        try:
            defs[n] = parse_recipe_text(t)
        except ShapeError:
            pass  # pi, I, Inf, boolTrue ...: not recipes; an error is raised only if a table uses them
    return defs, defs_text


def read_tables(repo):
    src = strip_comments((repo / "symengine" / "functions.cpp").read_text())
    m = re.search(r"sin_table\s*\(\s*\)\s*\{.*?table\s*\[\s*\]\s*=\s*\{(.*?)\}\s*;", src, flags=re.S)
    if not m:
        raise ShapeError("functions.cpp: sin_table() initialiser not found")
    sin_names = split_top(m.group(1))
    if len(sin_names) != 24:
        raise ShapeError("sin_table has %d entries, expected 24" % len(sin_names))
    tabs = {}
    for nm in ("inverse_cst", "inverse_tct"):
        m = re.search(nm + r"_\s*=\s*\{", src)
        if not m:
            raise ShapeError("functions.cpp: %s_ initialiser not found" % nm)
        e = balanced(src, m.end() - 1, "{", "}")
        inner = src[m.end():e - 1]
        pairs = []
        for ent in split_top(inner):
            if not ent:
                continue
            if not (ent.startswith("{") and ent.endswith("}")):
                raise ShapeError("%s entry %r is not a {key, value} pair" % (nm, ent))
            kv = split_top(ent[1:-1])
            if len(kv) != 2:
                raise ShapeError("%s entry %r is not a pair" % (nm, ent))
            pairs.append((re.sub(r"\s+", " ", kv[0]), re.sub(r"\s+", " ", kv[1])))
        if not pairs:
            raise ShapeError("%s is empty" % nm)
        tabs[nm] = pairs
    # every use of the tables must be one of the known call sites (a new table user is a shape change)
    uses = len(re.findall(r"\bsin_table\s*\(\s*\)\s*\[", src))
    if uses != 8:
        raise ShapeError("sin_table() is indexed at %d places, the model knows 8 (sin cos tan*2 cot*2 csc sec)" % uses)
    return sin_names, tabs


def write_if_changed(p, txt):
    if not p.exists() or p.read_text() != txt:
        p.parent.mkdir(parents=True, exist_ok=True)
        p.write_text(txt)


EXTERN_NAMES = ["i2", "i3", "i5", "im2", "im3", "im5", "sq2", "sq3", "sq5"] + \
               ["C%d" % i for i in range(7)] + ["mC%d" % i for i in range(7)]


def fn(repo: Path, gen_dir: Path, allow_unpinned: bool = False) -> dict:
    repo = Path(repo)
    defs, defs_text = read_constants(repo)
    sin_names, tabs = read_tables(repo)
    for n in EXTERN_NAMES:
        if n not in defs_text:
            raise ShapeError("constants.cpp no longer defines %s" % n)
    pinned = json.loads(PINNED.read_text()) if PINNED.exists() else {}

    sin_rec = [to_recipe(("name", n), defs) for n in sin_names]
    tab_rec = {}
    for nm, pairs in tabs.items():
        rows = []
        for (k, v) in pairs:
            rk = to_recipe(parse_recipe_text(k), defs)
            rv = to_recipe(parse_recipe_text(v), defs)
            key_txt = recipe_text(rk)
            if key_txt not in pinned and allow_unpinned:
                pinned[key_txt] = "UNPINNED"
            if key_txt not in pinned:
                raise ShapeError("%s key %s (= %s) has no pinned canonical dump in c08_pinned.json; "
                                 "record it with tools/extract/c08_record_pinned.py after reviewing the change"
                                 % (nm, k, key_txt))
            rows.append((rk, rv, pinned[key_txt]))
        tab_rec[nm] = rows

    L = []
    L.append("/- GENERATED by tools/extract/c08_tables.py from symengine/constants.cpp and symengine/functions.cpp.")
    L.append("   Do not edit: regenerated on every check run. -/")
    L.append("import SymVerif.Model.Surd")
    L.append("namespace SymVerif.Gen.TrigTables")
    L.append("open SymVerif.Funcs")
    L.append("")
    L.append("/-- `sin_table()` of functions.cpp: entry `n` is meant to be sin(pi*n/12) -/")
    L.append("def sinTable : List Recipe := [")
    L.append(",\n".join("  %s" % recipe_lean(r) for r in sin_rec))
    L.append("]")
    L.append("")
    L.append("def sinTableNames : List String := [%s]" % ", ".join('"%s"' % n for n in sin_names))
    for nm, lean_nm in (("inverse_cst", "inverseCst"), ("inverse_tct", "inverseTct")):
        rows = tab_rec[nm]
        L.append("")
        L.append("/-- `%s()` of functions.cpp: (key recipe, value recipe); f(key) = pi / value -/" % nm)
        L.append("def %s : List (Recipe × Recipe) := [" % lean_nm)
        L.append(",\n".join("  (%s, %s)" % (recipe_lean(k), recipe_lean(v)) for (k, v, _) in rows))
        L.append("]")
        L.append("")
        L.append("/-- canonical dump of each key as built by the library (pinned; re-checked by the `tab` ops) -/")
        L.append("def %sKeyDumps : List String := [" % lean_nm)
        L.append(",\n".join('  "%s"' % d for (_, _, d) in rows))
        L.append("]")
    L.append("")
    L.append("end SymVerif.Gen.TrigTables")
    write_if_changed(Path(gen_dir) / "TrigTables.lean", "\n".join(L) + "\n")

    # harness header: the initialiser lists verbatim, evaluated against the real library objects
    H = []
    H.append("// GENERATED by tools/extract/c08_tables.py from symengine/functions.cpp (initialiser lists verbatim).")
    H.append("#ifndef VERIF_C08_GEN_H")
    H.append("#define VERIF_C08_GEN_H")
    H.append("#include <symengine/basic.h>")
    H.append("#include <symengine/add.h>")
    H.append("#include <symengine/mul.h>")
    H.append("#include <symengine/pow.h>")
    H.append("#include <symengine/constants.h>")
    H.append("#include <vector>")
    H.append("#include <utility>")
    H.append("namespace SymEngine {")
    for n in EXTERN_NAMES:
        H.append("extern RCP<const Basic> &%s;" % n)
    H.append("}")
    H.append("namespace c08gen {")
    H.append("using namespace SymEngine;")
    H.append("typedef std::vector<std::pair<RCP<const Basic>, RCP<const Basic>>> pairs_t;")
    H.append("inline std::vector<RCP<const Basic>> sin_table() { return {%s}; }" % ", ".join(sin_names))
    for nm in ("inverse_cst", "inverse_tct"):
        H.append("inline pairs_t %s() { return {" % nm)
        for (k, v) in tabs[nm]:
            H.append("    {%s, %s}," % (k, v))
        H.append("}; }")
    H.append("}")
    H.append("#endif")
    harness_dir = HERE.parent.parent / "harness"
    write_if_changed(harness_dir / "c08_gen.h", "\n".join(H) + "\n")

    return dict(translator="c08_tables", sin_table=sin_names,
                key_recipes={nm: [recipe_text(k) for (k, _, _) in rows] for nm, rows in tab_rec.items()},
                inverse_cst=len(tabs["inverse_cst"]), inverse_tct=len(tabs["inverse_tct"]),
                pinned_keys=len(pinned))


if __name__ == "__main__":
    import sys
    print(fn(Path(sys.argv[1] if len(sys.argv) > 1 else "/repo"),
             Path(sys.argv[2] if len(sys.argv) > 2 else "/tmp/c08_gen"), allow_unpinned="--allow-unpinned" in sys.argv))
