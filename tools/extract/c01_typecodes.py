"""C01/C02 translator: symengine/type_codes.inc, basic.h, functions.h, ntheory_funcs.h, logic.{h,cpp},
sets.{h,cpp}  ->  lean/SymVerif/Gen/TypeCodes.lean

What is translated (re-read from the working tree on every run):

 * the TypeID numbering: the SYMENGINE_ENUM(...) entries of type_codes.inc in order, with the
   `#if defined(HAVE_SYMENGINE_X) || defined(SYMENGINE_INCLUDE_ALL)` blocks evaluated.  basic.h decides whether
   the enum is expanded with SYMENGINE_INCLUDE_ALL (then every entry gets a number whatever is configured);
   otherwise the optional entries are compiled out (no MPFR/MPC/Piranha/FLINT in this sandbox).
   The numbering is the seed of every __hash__ and the first key of Basic::__cmp__.
 * the *kind* of every class the Lean model treats generically (`Expr.app head args`):
     one    OneArgFunction subclasses (functions.h, ntheory_funcs.h) and Not
     two    TwoArgBasic<...> subclasses (two-argument functions, the four relationals)
     multi  MultiArgFunction subclasses other than FunctionSymbol (Max, Min, LeviCivita)
     set    classes whose arguments live in an RCPBasicKeyLess-ordered std::set (And, Or, FiniteSet, Union,
            Intersection) and Xor (a vector that the only constructor fills from such a set)
     lex n  fixed arity n, fields hashed in order and compared lexicographically (Contains, Complement,
            ConditionSet, ImageSet; the argument-less singleton sets with n = 0)
     interval  Interval
   Function kinds come from the inheritance chains in the headers.  For the logic/set classes the bodies of
   `X::__hash__`, `X::__eq__`, `X::compare` are compared (whitespace-normalised) with the shape the model
   mirrors; a class whose body no longer has that shape makes the translator raise.
 * whether RealDouble::__hash__ / ComplexDouble::__hash__ hash the raw bit pattern (code as it is, defect D1) or
   normalise -0.0 to 0.0 (the proposed fix): `dblHashZeroNorm`, `cdblHashZeroNorm`; the model follows the flag.
"""
import re
from pathlib import Path


class ShapeError(Exception):
    pass


def strip_comments(txt):
    txt = re.sub(r"/\*.*?\*/", lambda m: re.sub(r"[^\n]", " ", m.group(0)), txt, flags=re.S)
    txt = re.sub(r"//[^\n]*", "", txt)
    return txt


# ------------------------------------------------------------------ type codes

def enum_uses_include_all(basic_h):
    m = re.search(r"enum\s+TypeID\s*\{(.*?)\}\s*;", basic_h, flags=re.S)
    if not m:
        raise ShapeError("basic.h: enum TypeID not found")
    body = m.group(1)
    if "type_codes.inc" not in body:
        raise ShapeError("basic.h: enum TypeID no longer includes type_codes.inc")
    if not re.search(r"#define\s+SYMENGINE_ENUM\(\s*type\s*,\s*Class\s*\)\s*type\s*,", body):
        raise ShapeError("basic.h: SYMENGINE_ENUM inside enum TypeID has an unexpected expansion")
    pre = body.split("type_codes.inc")[0]
    return re.search(r"#define\s+SYMENGINE_INCLUDE_ALL\b", pre) is not None


def parse_type_codes(inc, defined):
    """Evaluate the tiny preprocessor language used by type_codes.inc."""
    out = []
    stack = [True]
    for ln, raw in enumerate(strip_comments(inc).splitlines(), 1):
        line = raw.strip()
        if not line:
            continue
        if line.startswith("#if"):
            toks = re.findall(r"defined\s*\(\s*(\w+)\s*\)", line)
            rest = re.sub(r"defined\s*\(\s*\w+\s*\)", "", line[3:]).replace("||", "").strip()
            if not toks or rest:
                raise ShapeError("type_codes.inc:%d: unsupported condition %r" % (ln, line))
            stack.append(stack[-1] and any(t in defined for t in toks))
        elif line.startswith("#endif"):
            if len(stack) == 1:
                raise ShapeError("type_codes.inc:%d: unbalanced #endif" % ln)
            stack.pop()
        elif line.startswith("#"):
            raise ShapeError("type_codes.inc:%d: unsupported directive %r" % (ln, line))
        else:
            m = re.fullmatch(r"SYMENGINE_ENUM\(\s*(\w+)\s*,\s*(\w+)\s*\)", line)
            if not m:
                raise ShapeError("type_codes.inc:%d: unexpected line %r" % (ln, line))
            if stack[-1]:
                out.append((m.group(1), m.group(2)))
    if len(stack) != 1:
        raise ShapeError("type_codes.inc: unbalanced #if")
    names = [c for _, c in out]
    if len(set(names)) != len(names):
        raise ShapeError("type_codes.inc: duplicate class names")
    return out


# ------------------------------------------------------------------ class kinds

def class_bases(hdr):
    """class X : public Y  (first base only; template arguments kept)"""
    res = {}
    for m in re.finditer(r"\bclass\s+(\w+)\s*:\s*public\s+([\w:<>]+)", strip_comments(hdr)):
        res[m.group(1)] = m.group(2)
    return res


def method_body(src, cls, meth):
    m = re.search(r"\b%s::%s\s*\([^)]*\)\s*const\s*\{" % (cls, meth), src)
    if not m:
        raise ShapeError("%s::%s not found" % (cls, meth))
    i = m.end()
    depth = 1
    while i < len(src) and depth:
        if src[i] == "{":
            depth += 1
        elif src[i] == "}":
            depth -= 1
        i += 1
    return re.sub(r"\s+", "", src[m.end():i - 1])


def norm(s):
    return re.sub(r"\s+", "", s)


# expected shapes (whitespace removed); {C} = class name, {T} = SYMENGINE_ type id
SHAPES = {
    "set": dict(
        hash=["hash_tseed={T};for(constauto&a:container_)hash_combine<Basic>(seed,*a);returnseed;"],
        eq=["returnis_a<{C}>(o)andunified_eq(container_,down_cast<const{C}&>(o).get_container());",
            "if(is_a<{C}>(o)){{const{C}&other=down_cast<const{C}&>(o);returnunified_eq(container_,other.container_);}}returnfalse;"],
        compare=["SYMENGINE_ASSERT(is_a<{C}>(o))returnunified_compare(container_,down_cast<const{C}&>(o).get_container());",
                 "SYMENGINE_ASSERT(is_a<{C}>(o))const{C}&other=down_cast<const{C}&>(o);returnunified_compare(container_,other.container_);"]),
    "atom": dict(
        hash=["hash_tseed={T};returnseed;"],
        eq=["if(is_a<{C}>(o))returntrue;returnfalse;", "return(is_a<{C}>(o));"],
        compare=["SYMENGINE_ASSERT(is_a<{C}>(o))return0;"]),
}

STATIC = {
    # class: (kind text, source file, shape key or explicit dict)
    "And": ("set", "logic.cpp", "set"), "Or": ("set", "logic.cpp", "set"), "Xor": ("set", "logic.cpp", "set"),
    "FiniteSet": ("set", "sets.cpp", "set"), "Union": ("set", "sets.cpp", "set"),
    "Intersection": ("set", "sets.cpp", "set"),
    "EmptySet": ("lex 0", "sets.cpp", "atom"), "UniversalSet": ("lex 0", "sets.cpp", "atom"),
    "Complexes": ("lex 0", "sets.cpp", "atom"), "Reals": ("lex 0", "sets.cpp", "atom"),
    "Rationals": ("lex 0", "sets.cpp", "atom"), "Integers": ("lex 0", "sets.cpp", "atom"),
    "Naturals": ("lex 0", "sets.cpp", "atom"), "Naturals0": ("lex 0", "sets.cpp", "atom"),
    "Not": ("one", "logic.cpp", dict(
        hash=["hash_tseed={T};hash_combine<Basic>(seed,*arg_);returnseed;"],
        eq=["returnis_a<Not>(o)andeq(*arg_,*down_cast<constNot&>(o).get_arg());"],
        compare=["SYMENGINE_ASSERT(is_a<Not>(o))returnarg_->__cmp__(*down_cast<constNot&>(o).get_arg());"])),
    "Contains": ("lex 2", "logic.cpp", dict(
        hash=["hash_tseed={T};hash_combine<Basic>(seed,*expr_);hash_combine<Basic>(seed,*set_);returnseed;"],
        eq=["returnis_a<Contains>(o)andunified_eq(get_expr(),down_cast<constContains&>(o).get_expr())"
            "andunified_eq(get_set(),down_cast<constContains&>(o).get_set());"],
        compare=["SYMENGINE_ASSERT(is_a<Contains>(o))constContains&c=down_cast<constContains&>(o);"
                 "intcmp=unified_compare(get_expr(),c.get_expr());if(cmp!=0)returncmp;"
                 "returnunified_compare(get_set(),c.get_set());"])),
    "Complement": ("lex 2", "sets.cpp", dict(
        hash=["hash_tseed={T};hash_combine<Basic>(seed,*universe_);hash_combine<Basic>(seed,*container_);returnseed;"],
        eq=["if(is_a<Complement>(o)){{constComplement&other=down_cast<constComplement&>(o);"
            "returnunified_eq(universe_,other.universe_)andunified_eq(container_,other.container_);}}returnfalse;"],
        compare=["SYMENGINE_ASSERT(is_a<Complement>(o))constComplement&other=down_cast<constComplement&>(o);"
                 "intc1=unified_compare(universe_,other.universe_);if(c1!=0){{returnc1;}}else{{"
                 "returnunified_compare(container_,other.container_);}}"])),
    "Interval": ("interval", "sets.cpp", dict(
        hash=["hash_tseed={T};hash_combine<Basic>(seed,*start_);hash_combine<Basic>(seed,*end_);"
              "hash_combine<bool>(seed,left_open_);hash_combine<bool>(seed,right_open_);returnseed;"],
        eq=["if(is_a<Interval>(o)){{constInterval&s=down_cast<constInterval&>(o);"
            "return((this->left_open_==s.left_open_)and(this->right_open_==s.right_open_)"
            "andeq(*this->start_,*s.start_)andeq(*this->end_,*s.end_));}}returnfalse;"],
        compare=["SYMENGINE_ASSERT(is_a<Interval>(s))constInterval&o=down_cast<constInterval&>(s);"
                 "if(left_open_andnoto.left_open_){{return-1;}}elseif(notleft_open_ando.left_open_){{return1;}}"
                 "elseif(right_open_andnoto.right_open_){{return1;}}elseif(notright_open_ando.right_open_){{return-1;}}"
                 "else{{autotemp=start_->__cmp__(*(o.start_));if(temp!=0){{returntemp;}}else{{"
                 "returnend_->__cmp__(*(o.end_));}}}}"])),
}

CONTAINER_DECL = {  # class -> (header, expected member declaration)
    "And": ("logic.h", "set_boolean container_;"), "Or": ("logic.h", "set_boolean container_;"),
    "Xor": ("logic.h", "vec_boolean container_;"),
    "FiniteSet": ("sets.h", "set_basic container_;"), "Union": ("sets.h", "set_set container_;"),
    "Intersection": ("sets.h", "set_set container_;"),
}

# constructors of Expr that have their own case in the Lean model
BUILTIN = ["Integer", "Rational", "Complex", "ComplexDouble", "RealDouble", "Infty", "NaN", "Symbol", "Dummy",
           "Constant", "Mul", "Add", "Pow", "FunctionSymbol", "BooleanAtom"]


def class_section(hdr, cls):
    m = re.search(r"\bclass\s+%s\b[^;{]*\{" % cls, hdr)
    if not m:
        raise ShapeError("class %s not found" % cls)
    n = re.search(r"\n\};", hdr[m.end():])
    return hdr[m.end(): m.end() + (n.start() if n else 2000)]


def fn(repo, gen_dir):
    repo = Path(repo)
    se = repo / "symengine"
    basic_h = strip_comments((se / "basic.h").read_text())
    inc = (se / "type_codes.inc").read_text()
    include_all = enum_uses_include_all(basic_h)
    defined = {"SYMENGINE_INCLUDE_ALL"} if include_all else set()
    entries = parse_type_codes(inc, defined)
    ids = {c: t for t, c in entries}
    code = {c: i for i, (_, c) in enumerate(entries)}
    for b in BUILTIN:
        if b not in code:
            raise ShapeError("type_codes.inc: class %s missing" % b)

    # Basic::__cmp__ and RCPBasicKeyLess must still have the modelled shape
    basic_cpp = strip_comments((se / "basic.cpp").read_text())
    if norm("auto a = this->get_type_code(); auto b = o.get_type_code(); if (a == b) { return this->compare(o); }"
            " else { return a < b ? -1 : 1; }") not in norm(basic_cpp):
        raise ShapeError("basic.cpp: Basic::__cmp__ no longer has the modelled shape")
    if norm("hash_t xh = x->hash(), yh = y->hash(); if (xh != yh) return xh < yh; if (eq(*x, *y)) return false;"
            " return x->__cmp__(*y) == -1;") not in norm(basic_h):
        raise ShapeError("basic.h: RCPBasicKeyLess no longer has the modelled shape")
    inl = norm(strip_comments((se / "basic-inl.h").read_text()))
    if "seed^=hash_t(v)+hash_t(0x9e3779b9)+(seed<<6)+(seed>>2);" not in inl:
        raise ShapeError("basic-inl.h: hash_combine_impl (integral) no longer has the modelled shape")
    if "for(constchar&c:s){hash_combine<hash_t>(seed,static_cast<hash_t>(c));}" not in inl:
        raise ShapeError("basic-inl.h: hash_combine_impl (string) no longer has the modelled shape")

    # kinds from inheritance
    bases = {}
    for h in ["functions.h", "ntheory_funcs.h", "logic.h"]:
        bases.update(class_bases((se / h).read_text()))
    bases["TwoArgFunction"] = "TwoArgBasic<Function>"

    def root(c, depth=0):
        b = bases.get(c)
        if b is None or depth > 8:
            return None
        if b == "OneArgFunction":
            return "one"
        if b.startswith("TwoArgBasic<"):
            return "two"
        if b == "MultiArgFunction":
            return "multi"
        return root(b, depth + 1)

    kinds = {}
    abstract = {"OneArgFunction", "TwoArgFunction", "MultiArgFunction", "TrigBase", "TrigFunction",
                "InverseTrigFunction", "HyperbolicBase", "HyperbolicFunction", "InverseHyperbolicFunction",
                "Relational", "FunctionSymbol", "FunctionWrapper"}
    for c in code:
        if c in abstract or c in BUILTIN:
            continue
        k = root(c)
        if k:
            kinds[c] = k
    # the generic base-class bodies the `one`/`two`/`multi` kinds mirror
    fh = norm(strip_comments((se / "functions.h").read_text()))
    for frag, what in [
        ("hash_tseed=this->get_type_code();hash_combine<Basic>(seed,*arg_);returnseed;", "OneArgFunction::__hash__"),
        ("returnget_arg()->__cmp__(*(down_cast<constOneArgFunction&>(o).get_arg()));", "OneArgFunction::compare"),
        ("hash_tseed=this->get_type_code();hash_combine<Basic>(seed,*a_);hash_combine<Basic>(seed,*b_);returnseed;",
         "TwoArgBasic::__hash__"),
        ("if(neq(*get_arg1(),*(t.get_arg1()))){returnget_arg1()->__cmp__(*(down_cast<constTwoArgBasic&>(o).get_arg1()));}"
         "else{returnget_arg2()->__cmp__(*(down_cast<constTwoArgBasic&>(o).get_arg2()));}", "TwoArgBasic::compare"),
        ("hash_tseed=this->get_type_code();for(constauto&a:arg_)hash_combine<Basic>(seed,*a);returnseed;",
         "MultiArgFunction::__hash__"),
        ("returnunified_compare(get_vec(),down_cast<constMultiArgFunction&>(o).get_vec());",
         "MultiArgFunction::compare"),
    ]:
        if frag not in fh:
            raise ShapeError("functions.h: %s no longer has the modelled shape" % what)

    srcs = {f: strip_comments((se / f).read_text()) for f in ["logic.cpp", "sets.cpp"]}
    hdrs = {f: strip_comments((se / f).read_text()) for f in ["logic.h", "sets.h"]}
    for c, (kind, f, shape) in STATIC.items():
        if c not in code:
            raise ShapeError("type_codes.inc: class %s missing" % c)
        sh = SHAPES[shape] if isinstance(shape, str) else shape
        for meth, key in [("__hash__", "hash"), ("__eq__", "eq"), ("compare", "compare")]:
            body = method_body(srcs[f], c, meth)
            want = [w.format(C=c, T=ids[c]) for w in sh[key]]
            if body not in want:
                raise ShapeError("%s: %s::%s no longer has the modelled shape: %s" % (f, c, meth, body[:200]))
        if c in CONTAINER_DECL:
            h, decl = CONTAINER_DECL[c]
            if norm(decl) not in norm(class_section(hdrs[h], c)):
                raise ShapeError("%s: class %s no longer declares `%s`" % (h, c, decl))
        kinds[c] = kind
    for td, h in [("typedef std::set<RCP<const Boolean>, RCPBasicKeyLess> set_boolean;", "logic.h"),
                  ("typedef std::set<RCP<const Set>, RCPBasicKeyLess> set_set;", "sets.h")]:
        if norm(td) not in norm(hdrs[h]):
            raise ShapeError("%s: %s changed" % (h, td.split()[-1]))
    if norm("typedef std::set<RCP<const Basic>, RCPBasicKeyLess> set_basic;") not in norm(
            strip_comments((se / "dict.h").read_text())):
        raise ShapeError("dict.h: set_basic changed")

    # RealDouble/ComplexDouble::__hash__: the code as it is hashes the bit pattern (defect D1: 0.0 == -0.0 hash
    # differently); the proposed fix (docs/patches/C01_D1_hash_signed_zero.diff) hashes 0.0 for both zeros.  The
    # model follows whichever form is present; anything else is a shape error.
    def zero_norm(fname, cls, tid, plain, fixed):
        body = method_body(strip_comments((se / fname).read_text()), cls, "__hash__")
        if body == "hash_tseed=%s;%sreturnseed;" % (tid, plain):
            return False
        if body == "hash_tseed=%s;%sreturnseed;" % (tid, fixed):
            return True
        raise ShapeError("%s: %s::__hash__ no longer has a modelled shape: %s" % (fname, cls, body[:200]))

    dbl_norm = zero_norm("real_double.cpp", "RealDouble", "SYMENGINE_REAL_DOUBLE",
                         "hash_combine<double>(seed,i);", "hash_combine<double>(seed,i==0.0?0.0:i);")
    cdbl_norm = zero_norm("complex_double.cpp", "ComplexDouble", "SYMENGINE_COMPLEX_DOUBLE",
                          "hash_combine<double>(seed,i.real());hash_combine<double>(seed,i.imag());",
                          "hash_combine<double>(seed,i.real()==0.0?0.0:i.real());"
                          "hash_combine<double>(seed,i.imag()==0.0?0.0:i.imag());")

    # ------------------------------------------------------------------ emit
    L = []
    L.append("-- GENERATED by tools/extract/c01_typecodes.py from /repo/symengine/type_codes.inc (and the class")
    L.append("-- declarations in functions.h, ntheory_funcs.h, logic.h, sets.h).  Do not edit; regenerated on every check.")
    L.append("namespace SymVerif.TC")
    L.append("")
    L.append("/-- how a generically modelled class hashes / compares its arguments -/")
    L.append("inductive Kind where")
    L.append("  | one | two | multi | set | lex (n : Nat) | interval")
    L.append("  deriving DecidableEq, Repr, Inhabited")
    L.append("")
    L.append("/-- SYMENGINE_INCLUDE_ALL is %sdefined around `enum TypeID` in basic.h -/" % ("" if include_all else "not "))
    L.append("def includeAll : Bool := %s" % ("true" if include_all else "false"))
    L.append("")
    L.append("/-- RealDouble::__hash__ / ComplexDouble::__hash__ hash 0.0 for both zeros (the D1 fix is applied) -/")
    L.append("def dblHashZeroNorm : Bool := %s" % ("true" if dbl_norm else "false"))
    L.append("def cdblHashZeroNorm : Bool := %s" % ("true" if cdbl_norm else "false"))
    L.append("")
    L.append("/-- number of TypeID values (TypeID_Count) -/")
    L.append("def count : Nat := %d" % len(entries))
    L.append("")
    for c in BUILTIN:
        L.append("def c%s : Nat := %d" % (c, code[c]))
    L.append("")
    L.append("/-- class name (type_code_name) -> TypeID value, in enum order -/")
    L.append("def table : List (String × Nat) := [")
    rows = ['  ("%s", %d)' % (c, i) for i, (_, c) in enumerate(entries)]
    L.append(",\n".join(rows))
    L.append("]")
    L.append("")
    L.append("/-- TypeID value -> kind, for the classes modelled as `Expr.app` -/")
    L.append("def kinds : List (Nat × Kind) := [")
    krows = []
    for c in sorted(kinds, key=lambda c: code[c]):
        k = kinds[c]
        lk = ".%s" % k if " " not in k else "(.%s)" % k
        krows.append("  (%d, %s)  -- %s" % (code[c], lk, c))
    # commas must precede the comments
    fixed = []
    for i, r in enumerate(krows):
        body, com = r.split("  -- ")
        fixed.append(body + ("," if i + 1 < len(krows) else "") + "  -- " + com)
    L.extend(fixed)
    L.append("]")
    L.append("")
    L.append("end SymVerif.TC")
    out = Path(gen_dir) / "TypeCodes.lean"
    txt = "\n".join(L) + "\n"
    if not out.exists() or out.read_text() != txt:
        out.write_text(txt)
    return dict(translator="c01_typecodes", type_codes=len(entries), include_all=include_all,
                dbl_hash_zero_normalised=dbl_norm, cdbl_hash_zero_normalised=cdbl_norm,
                modelled_app_classes=len(kinds), kinds={c: kinds[c] for c in sorted(kinds)})


if __name__ == "__main__":
    import sys
    print(fn(Path(sys.argv[1] if len(sys.argv) > 1 else "/repo"), Path(sys.argv[2] if len(sys.argv) > 2 else "/tmp")))
