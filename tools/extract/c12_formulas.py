#!/usr/bin/env python3
"""Translator for the numeric-evaluation family (C12, C13, C15).

Reads
  symengine/eval_double.cpp   EvalDoubleVisitor / EvalRealDoubleVisitor / EvalComplexDoubleVisitor
                              bvisit bodies and the init_eval_double() single-dispatch table
  symengine/lambda_double.h   LambdaDoubleVisitor / LambdaRealDoubleVisitor bvisit bodies
and writes lean/SymVerif/Gen/EvalFormulas.lean: one `Defs` table per evaluator whose entries are
`NodeDef`s (Model/EvalG.lean) built from the *parsed* C++ right-hand sides.

Every body must match one of the expected shapes; anything else raises TranslatorError
(=> tie broken, kind T).  Run on every check.
"""
import re
from fractions import Fraction
from pathlib import Path


class TranslatorError(Exception):
    pass


FLAGS = {}


# ----------------------------------------------------------------------------- source helpers

def strip_comments(src):
    src = re.sub(r"/\*.*?\*/", " ", src, flags=re.S)
    src = re.sub(r"//[^\n]*", " ", src)
    return src


def strip_ifdef(src, macro):
    """remove `#ifdef macro ... #endif` blocks (features absent from the verified build)"""
    out, i = [], 0
    pat = re.compile(r"^[ \t]*#\s*ifdef\s+" + macro + r"\b.*?^[ \t]*#\s*endif[^\n]*$", re.S | re.M)
    return pat.sub(" ", src)


def norm(s):
    s = re.sub(r"\s+", " ", s).strip()
    s = re.sub(r"\s*([(){}\[\];,*&|<>=!+\-/?:])\s*", r"\1", s)
    return s


def match_brace(src, i, open_ch="{", close_ch="}"):
    """src[i] == open_ch; returns index just after the matching close"""
    assert src[i] == open_ch, (src[i - 20:i + 20])
    depth = 0
    k = i
    while k < len(src):
        c = src[k]
        if c == open_ch:
            depth += 1
        elif c == close_ch:
            depth -= 1
            if depth == 0:
                return k + 1
        k += 1
    raise TranslatorError("unbalanced braces")


def class_body(src, name):
    m = re.search(r"\bclass\s+" + name + r"\b[^;{]*\{", src)
    if not m:
        raise TranslatorError("class %s not found" % name)
    start = m.end() - 1
    end = match_brace(src, start)
    return src[start + 1:end - 1]


def bvisits(body):
    """{ClassName: (param name, normalised body)} for every `void bvisit(const X &p) {…}`"""
    out = {}
    for m in re.finditer(r"void\s+bvisit\s*\(\s*const\s+(\w+)\s*&\s*(\w*)\s*(?:/\*.*?\*/)?\s*\)\s*\{", body):
        st = m.end() - 1
        en = match_brace(body, st)
        cls = m.group(1)
        if cls in out:
            raise TranslatorError("duplicate bvisit(%s)" % cls)
        out[cls] = (m.group(2), norm(body[st + 1:en - 1]))
    return out


# ----------------------------------------------------------------------------- C expression parser

FN_MAP = {
    "sin": "sin", "cos": "cos", "tan": "tan", "asin": "asin", "acos": "acos", "atan": "atan",
    "atan2": "atan2", "sinh": "sinh", "cosh": "cosh", "tanh": "tanh", "asinh": "asinh",
    "acosh": "acosh", "atanh": "atanh", "exp": "exp", "log": "log", "pow": "pow", "abs": "abs",
    "fabs": "abs", "floor": "floor", "ceil": "ceil", "trunc": "trunc", "tgamma": "tgamma",
    "lgamma": "lgamma", "erf": "erf", "erfc": "erfc", "max": "max", "min": "min", "sqrt": "sqrt",
    "cbrt": "cbrt", "isnan": "isnan",
}
ARITY = {"atan2": 2, "pow": 2, "max": 2, "min": 2}

TOK = re.compile(r"\s*(?:(\d+\.\d*(?:[eE][-+]?\d+)?|\.\d+|\d+)|((?:std)?::\w+|\w+)|(==|!=|<=|>=|&&|\|\||[-+*/()<>?:,!]))")


def tokenize(s):
    toks, i = [], 0
    s = s.strip()
    while i < len(s):
        m = TOK.match(s, i)
        if not m or m.end() == i:
            raise TranslatorError("cannot tokenize %r at %r" % (s, s[i:i + 20]))
        if m.group(1) is not None:
            toks.append(("num", m.group(1)))
        elif m.group(2) is not None:
            toks.append(("id", m.group(2)))
        else:
            toks.append(("op", m.group(3)))
        i = m.end()
    return toks


class Parser:
    """variables: name -> arg index; `calls` = True when variables are closures `tmp(x)`"""

    def __init__(self, toks, var, closure_param=None):
        self.t, self.i, self.var, self.cp = toks, 0, var, closure_param

    def peek(self):
        return self.t[self.i] if self.i < len(self.t) else (None, None)

    def eat(self, kind=None, val=None):
        k, v = self.peek()
        if k is None or (kind and k != kind) or (val is not None and v != val):
            raise TranslatorError("parse error: expected %s %s, got %s %s in %s" % (kind, val, k, v, self.t))
        self.i += 1
        return v

    def parse(self):
        e = self.ternary()
        if self.i != len(self.t):
            raise TranslatorError("trailing tokens %s" % (self.t[self.i:],))
        return e

    def ternary(self):
        c = self.lor()
        if self.peek() == ("op", "?"):
            self.eat()
            a = self.ternary()
            self.eat("op", ":")
            b = self.ternary()
            return ("ite", c, a, b)
        return c

    def lor(self):
        a = self.land()
        while self.peek() == ("op", "||"):
            self.eat()
            a = ("lor", a, self.land())
        return a

    def land(self):
        a = self.equality()
        while self.peek() == ("op", "&&"):
            self.eat()
            a = ("land", a, self.equality())
        return a

    def equality(self):
        a = self.relational()
        while self.peek() in (("op", "=="), ("op", "!=")):
            op = self.eat()
            a = ("cmp", "eq" if op == "==" else "ne", a, self.relational())
        return a

    def relational(self):
        a = self.additive()
        while self.peek() in (("op", "<"), ("op", "<="), ("op", ">"), ("op", ">=")):
            op = self.eat()
            b = self.additive()
            if op == "<":
                a = ("cmp", "lt", a, b)
            elif op == "<=":
                a = ("cmp", "le", a, b)
            elif op == ">":
                a = ("cmp", "lt", b, a)
            else:
                a = ("cmp", "le", b, a)
        return a

    def additive(self):
        a = self.mult()
        while self.peek() in (("op", "+"), ("op", "-")):
            op = self.eat()
            a = ("add" if op == "+" else "sub", a, self.mult())
        return a

    def mult(self):
        a = self.unary()
        while self.peek() in (("op", "*"), ("op", "/")):
            op = self.eat()
            a = ("mul" if op == "*" else "div", a, self.unary())
        return a

    def unary(self):
        if self.peek() == ("op", "-"):
            self.eat()
            a = self.unary()
            if a[0] == "lit":
                return ("lit", -a[1])
            return ("neg", a)
        if self.peek() == ("op", "!"):
            self.eat()
            return ("lnot", self.unary())
        if self.peek() == ("id", "not"):
            self.eat()
            return ("lnot", self.unary())
        return self.primary()

    def primary(self):
        k, v = self.peek()
        if k == "num":
            self.eat()
            return ("lit", Fraction(v))
        if k == "op" and v == "(":
            self.eat()
            e = self.ternary()
            self.eat("op", ")")
            return e
        if k == "id":
            self.eat()
            name = v
            if name in self.var:
                if self.cp is not None:
                    # closure call tmp(x)
                    self.eat("op", "(")
                    self.eat("id", self.cp)
                    self.eat("op", ")")
                return ("arg", self.var[name])
            base = name.split("::")[-1]
            if base in ("double", "bool") and self.peek() == ("op", "("):
                # value-preserving casts on 0/1 values: double(b), bool(x) handled by the templates
                raise TranslatorError("cast %s( in generic expression" % base)
            if self.peek() == ("op", "("):
                if base not in FN_MAP:
                    raise TranslatorError("unknown function %s" % name)
                self.eat()
                args = [self.ternary()]
                while self.peek() == ("op", ","):
                    self.eat()
                    args.append(self.ternary())
                self.eat("op", ")")
                f = FN_MAP[base]
                if len(args) != ARITY.get(f, 1):
                    raise TranslatorError("arity of %s" % name)
                return ("call", f) + tuple(args)
            raise TranslatorError("unknown identifier %s (vars %s)" % (name, self.var))
        raise TranslatorError("unexpected token %s %s" % (k, v))


def parse_expr(s, var, closure_param=None):
    return Parser(tokenize(s), var, closure_param).parse()


def lean_formula(e):
    k = e[0]
    if k == "arg":
        return "(.arg %d)" % e[1]
    if k == "lit":
        q = e[1]
        n = str(q.numerator) if q.numerator >= 0 else "(%d)" % q.numerator
        return "(.lit %s %d)" % (n, q.denominator)
    if k == "call":
        if len(e) == 3:
            return "(.call1 .%s %s)" % (e[1], lean_formula(e[2]))
        return "(.call2 .%s %s %s)" % (e[1], lean_formula(e[2]), lean_formula(e[3]))
    if k in ("add", "sub", "mul", "div", "land", "lor", "lxor"):
        return "(.%s %s %s)" % (k, lean_formula(e[1]), lean_formula(e[2]))
    if k in ("neg", "lnot"):
        return "(.%s %s)" % (k, lean_formula(e[1]))
    if k == "cmp":
        return "(.cmp .%s %s %s)" % (e[1], lean_formula(e[2]), lean_formula(e[3]))
    if k == "ite":
        return "(.ite %s %s %s)" % (lean_formula(e[1]), lean_formula(e[2]), lean_formula(e[3]))
    if k == "inf":
        return "(.inf %s)" % ("true" if e[1] else "false")
    if k == "nan":
        return ".nan"
    raise TranslatorError("lean_formula: %r" % (e,))


# accessor -> operand index in get_args() order
ACCESSOR = {"get_arg()": 0, "get_args()[0]": 0, "get_arg1()": 0, "get_arg2()": 1,
            "get_num()": 0, "get_den()": 1}
CONST_NAMES = {"pi": "pi", "E": "E", "EulerGamma": "EulerGamma", "Catalan": "Catalan",
               "GoldenRatio": "GoldenRatio"}


def check_accessors(repo):
    """get_num()/get_den() must be get_arg1()/get_arg2() for the ACCESSOR map to be right"""
    h = norm(strip_comments((repo / "symengine/functions.h").read_text()))
    for acc, tgt in (("get_num", "get_arg1"), ("get_den", "get_arg2")):
        if not re.search(r"inline RCP<const Basic>%s\(\)const\{return %s\(\);\}" % (acc, tgt), h):
            raise TranslatorError("ATan2::%s is no longer %s" % (acc, tgt))
    c = norm(strip_comments((repo / "symengine/constants.cpp").read_text()))
    for nm in CONST_NAMES:
        if 'DEFINE_CONSTANT(Constant,%s,constant("%s"))' % (nm, CONST_NAMES[nm]) not in c:
            raise TranslatorError("constant %s not defined as expected" % nm)


# ----------------------------------------------------------------------------- visitor bodies

def tr_visitor_body(cls, param, b, T, notes):
    """b: normalised body.  Returns Lean NodeDef text or None (entry means NotImplemented)."""
    p = re.escape(param) if param else r"\w*"
    Ts = r"(?:T|double)"
    # operand declarations:  T v = apply(*(x.acc));
    decl = re.compile(r"^" + Ts + r" (\w+)=apply\(\*\(" + p + r"\.(get_\w+\(\)(?:\[0\])?)\)\);")
    var, rest = {}, b
    while cls != "Pow":
        m = decl.match(rest)
        if not m:
            break
        if m.group(2) not in ACCESSOR:
            raise TranslatorError("%s: unknown accessor %s" % (cls, m.group(2)))
        var[m.group(1)] = ACCESSOR[m.group(2)]
        rest = rest[m.end():]
    m = re.match(r"^result_=(.*);$", rest)
    if var and m and ";" not in m.group(1) and cls not in ("Pow",):
        idx = sorted(var.values())
        if idx != list(range(len(idx))):
            raise TranslatorError("%s: operands %s" % (cls, var))
        return ".fn " + lean_formula(parse_expr(m.group(1), var))
    # ---- special shapes
    if cls == "Integer" and b == "%s tmp=mp_get_d(%s.as_integer_class());result_=tmp;" % ("T", param):
        return ".leafInt"
    if cls == "Rational" and b == "T tmp=mp_get_d(%s.as_rational_class());result_=tmp;" % param:
        return ".leafRat"
    if cls == "RealDouble" and b == "T tmp=%s.i;result_=tmp;" % param:
        return ".leafDouble"
    if cls in ("Add", "Mul"):
        m = re.match(r"^T tmp=(\d+);for\(const auto&p:%s\.get_args\(\)\)tmp([+*])=apply\(\*p\);result_=tmp;$" % p, b)
        if m and ((cls == "Add") == (m.group(2) == "+")):
            op = "add" if m.group(2) == "+" else "mul"
            return ".foldArgs (.lit %s 1) (.%s (.arg 0) (.arg 1))" % (m.group(1), op)
    if cls == "Pow":
        m = re.match(r"^T exp_=apply\(\*\(%s\.get_exp\(\)\)\);if\(eq\(\*\(%s\.get_base\(\)\),\*E\)\)\{result_=(.*?);\}"
                     r"else\{T base_=apply\(\*\(%s\.get_base\(\)\)\);result_=(.*?);\}$" % (p, p, p), b)
        if m:
            return ".powE %s %s" % (lean_formula(parse_expr(m.group(1), {"exp_": 0})),
                                    lean_formula(parse_expr(m.group(2), {"base_": 0, "exp_": 1})))
    if cls == "Symbol" and re.match(r'^throw SymEngineException\("[^"]*"\);$', b):
        return ".throwRuntime"
    if cls == "Basic" and re.match(r'^throw NotImplementedError\("[^"]*"\);$', b):
        return None
    if cls == "Constant":
        return tr_const_chain(b, r"eq\(%s,\*(\w+)\)" % p, r"result_=(.*?);", p)
    if cls in ("NumberWrapper", "FunctionWrapper") and b == "apply(*(%s.eval(53)));" % param:
        notes.append("%s: delegates to eval(53) of the wrapped object (not modelled)" % cls)
        return "SKIP"
    if cls == "UnevaluatedExpr" and b == "apply(*%s.get_arg());" % param:
        return ".fn (.arg 0)"
    if cls in ("Max", "Min"):
        f = "max" if cls == "Max" else "min"
        exp = ("auto d=%s.get_args();auto p=d.begin();double result=apply(*(*p));p++;"
               "for(;p!=d.end();p++){double tmp=apply(*(*p));result=std::%s(result,tmp);}result_=result;" % (param, f))
        if b == exp:
            return ".foldFirst 1 (.call2 .%s (.arg 0) (.arg 1))" % f
    if cls == "BooleanAtom" and b == "result_=%s.get_val();" % param:
        return ".leafBool"
    if cls == "Piecewise":
        m = re.match(r'^SYMENGINE_ASSERT_MSG\(eq\(\*%s\.get_vec\(\)\.back\(\)\.second,\*boolTrue\),"[^"]*"\);'
                     r'for\(const auto&expr_pred:%s\.get_vec\(\)\)\{if\(apply\(\*expr_pred\.second\)(.*?)\)'
                     r'\{result_=apply\(\*expr_pred\.first\);return;\}\}'
                     r'throw SymEngineException\("[^"]*"\);$' % (p, p), b)
        if m:
            return ".piecewise " + lean_formula(parse_expr("c" + m.group(1), {"c": 0}))
    if cls == "Complex" and T == "complex":
        return "COMPLEX"
    if cls == "ComplexDouble" and T == "complex":
        return "COMPLEX"
    raise TranslatorError("bvisit(const %s&): body has an unexpected shape: %s" % (cls, b))


def tr_const_chain(b, test_re, assign_re, p):
    """if (eq(x,*pi)) {A} else if (eq(x,*E)) {B} … else { throw NotImplementedError(...); }"""
    entries, rest = [], b
    first = True
    while True:
        m = re.match((r"^" if first else r"^else ") + r"if\(" + test_re + r"\)\{" + assign_re + r"\}", rest)
        if not m:
            break
        nm = m.group(1)
        if nm not in CONST_NAMES:
            raise TranslatorError("Constant: unknown constant %s" % nm)
        entries.append((CONST_NAMES[nm], parse_expr(m.group(2), {})))
        rest = rest[m.end():]
        first = False
    if not entries or not re.match(r'^else\{throw NotImplementedError\(.*\);\}$', rest):
        raise TranslatorError("Constant: unexpected chain tail %r" % rest)
    return ".const [" + ", ".join('("%s", %s)' % (n, lean_formula(f)) for n, f in entries) + "]"


# ----------------------------------------------------------------------------- single-dispatch table

def tr_table(src, type_codes, notes):
    m = re.search(r"static inline std::vector<fn>\s+init_eval_double\s*\(\s*\)\s*\{", src)
    if not m:
        raise TranslatorError("init_eval_double not found")
    st = m.end() - 1
    body = src[st + 1:match_brace(src, st) - 1]
    nb = norm(body)
    if not nb.startswith('std::vector<fn>table;table.assign(TypeID_Count,[](const Basic&x)->double{throw NotImplementedError("Not Implemented");});'):
        raise TranslatorError("init_eval_double: default entry is not `throw NotImplementedError`")
    out = {}
    for m in re.finditer(r"table\s*\[\s*(SYMENGINE_\w+)\s*\]\s*=\s*\[\s*\]\s*\(\s*const\s+Basic\s*&\s*x\s*\)\s*\{", body):
        st = m.end() - 1
        en = match_brace(body, st)
        code = m.group(1)
        if code not in type_codes:
            raise TranslatorError("unknown type code %s" % code)
        cls = type_codes[code]
        if cls in out:
            raise TranslatorError("table entry %s assigned twice" % code)
        out[cls] = tr_table_body(cls, norm(body[st + 1:en - 1]))
    n_assign = len(re.findall(r"table\s*\[", body))
    if n_assign != len(out):
        raise TranslatorError("init_eval_double: %d assignments, %d parsed" % (n_assign, len(out)))
    return out


def tr_table_body(cls, b):
    ev = r"eval_double_single_dispatch"
    decl = re.compile(r"^double (\w+)=" + ev + r"\(\*\(?down_cast<const (\w+)&>\(x\)\)?\.(get_\w+\(\)(?:\[0\])?)\);")
    var, rest = {}, b
    while True:
        m = decl.match(rest)
        if not m:
            break
        if m.group(2) != cls:
            raise TranslatorError("table[%s] down_casts to %s" % (cls, m.group(2)))
        if m.group(3) not in ACCESSOR and m.group(3) not in ("get_base()", "get_exp()"):
            raise TranslatorError("table[%s]: accessor %s" % (cls, m.group(3)))
        var[m.group(1)] = m.group(3)
        rest = rest[m.end():]
    m = re.match(r"^return ?(.*);$", rest)
    if var and m and ";" not in m.group(1) and cls != "Pow":
        v2 = {k: ACCESSOR[a] for k, a in var.items()}
        idx = sorted(v2.values())
        if idx != list(range(len(idx))):
            raise TranslatorError("table[%s]: operands %s" % (cls, var))
        return ".fn " + lean_formula(parse_expr(m.group(1), v2))
    if cls == "Pow":
        if var == {"a": "get_base()", "b": "get_exp()"} and m and ";" not in m.group(1) and list(var) == ["a", "b"]:
            # unpatched shape: always pow(base, exp)
            return ".powPlain " + lean_formula(parse_expr(m.group(1), {"a": 0, "b": 1}))
        m2 = re.match(r"^double b=" + ev + r"\(\*\(?down_cast<const Pow&>\(x\)\)?\.get_exp\(\)\);"
                      r"if\(eq\(\*\(?down_cast<const Pow&>\(x\)\)?\.get_base\(\),\*E\)\)\{?return ?(.*?);\}?"
                      r"double a=" + ev + r"\(\*\(?down_cast<const Pow&>\(x\)\)?\.get_base\(\)\);return ?(.*?);$", b)
        if m2:
            return ".powE %s %s" % (lean_formula(parse_expr(m2.group(1), {"b": 0})),
                                    lean_formula(parse_expr(m2.group(2), {"a": 0, "b": 1})))
    if cls == "Integer" and b == "double tmp=mp_get_d((down_cast<const Integer&>(x)).as_integer_class());return tmp;":
        return ".leafInt"
    if cls == "Rational" and b == "double tmp=mp_get_d((down_cast<const Rational&>(x)).as_rational_class());return tmp;":
        return ".leafRat"
    if cls == "RealDouble" and b == "double tmp=(down_cast<const RealDouble&>(x)).i;return tmp;":
        return ".leafDouble"
    if cls in ("Add", "Mul"):
        m = re.match(r"^double tmp=(\d+);for\(const auto&p:x\.get_args\(\)\)tmp([+*])=" + ev + r"\(\*p\);return tmp;$", b)
        if m and ((cls == "Add") == (m.group(2) == "+")):
            op = "add" if m.group(2) == "+" else "mul"
            return ".foldArgs (.lit %s 1) (.%s (.arg 0) (.arg 1))" % (m.group(1), op)
    if cls == "Constant":
        return tr_const_chain(b, r"eq\(x,\*(\w+)\)", r"return ?(.*?);", "x")
    if cls in ("Max", "Min"):
        f = "max" if cls == "Max" else "min"
        exp = ("double result;result=" + "eval_double_single_dispatch(*(down_cast<const %s&>(x).get_args()[0]));"
               "for(const auto&p:down_cast<const %s&>(x).get_args()){double tmp=eval_double_single_dispatch(*p);"
               "result=std::%s(result,tmp);}return result;") % (cls, cls, f)
        if b == exp:
            return ".foldFirst 0 (.call2 .%s (.arg 0) (.arg 1))" % f
    raise TranslatorError("table[%s]: body has an unexpected shape: %s" % (cls, b))


# ----------------------------------------------------------------------------- lambda bodies

def tr_lambda_body(cls, param, b, notes):
    p = re.escape(param) if param else r"\w*"
    decl = re.compile(r"^fn (\w+)=apply\(\*\(" + p + r"\.(get_\w+\(\)(?:\[0\])?)\)\);")
    var, rest = {}, b
    while cls != "Pow":
        m = decl.match(rest)
        if not m:
            break
        if m.group(2) not in ACCESSOR:
            raise TranslatorError("lambda %s: unknown accessor %s" % (cls, m.group(2)))
        var[m.group(1)] = ACCESSOR[m.group(2)]
        rest = rest[m.end():]
    m = re.match(r"^result_=\[=\]\(const (?:T|double)\*(\w+)\)\{return ?(.*);\};$", rest)
    if var and m and ";" not in m.group(2):
        idx = sorted(var.values())
        if idx != list(range(len(idx))):
            raise TranslatorError("lambda %s: operands %s" % (cls, var))
        e = m.group(2)
        # double(not bool(tmp(x)))  -> lnot
        mm = re.match(r"^double\(not bool\((\w+)\(%s\)\)\)$" % m.group(1), e)
        if mm and mm.group(1) in var:
            return ".fn (.lnot (.arg %d))" % var[mm.group(1)]
        return ".fn " + lean_formula(parse_expr(e, var, closure_param=m.group(1)))
    if cls == "Symbol":
        loop = "for(unsigned i=0;i<symbols.size();++i){if(eq(%s,*symbols[i])){result_=[=](const T*x){return x[i];};return;}}" % param
        cse = ("auto it=cse_intermediate_fns_map.find(%s.rcp_from_this());if(it!=cse_intermediate_fns_map.end()){"
               "auto index=it->second;T*cse_intermediate_result=&(cse_intermediate_results[index]);"
               "result_=[=](const T*x){return*cse_intermediate_result;};return;}") % param
        tail = 'throw SymEngineException("Symbol not in the symbols vector.");'
        if b == loop + cse + tail:
            notes.append("lambda Symbol: inputs are searched before the CSE slots")
            FLAGS["lambdaSymbolCseFirst"] = False
            return ".symbolLookup"
        if b == cse + loop + tail:
            FLAGS["lambdaSymbolCseFirst"] = True
            return ".symbolLookup"
    if cls == "Integer" and b == "T tmp=mp_get_d(%s.as_integer_class());result_=[=](const T*x_){return tmp;};" % param:
        return ".leafInt"
    if cls == "Rational" and b == "T tmp=mp_get_d(%s.as_rational_class());result_=[=](const T*x){return tmp;};" % param:
        return ".leafRat"
    if cls == "RealDouble" and b == "T tmp=%s.i;result_=[=](const T*x){return tmp;};" % param:
        return ".leafDouble"
    if cls in ("Add", "Mul"):
        m = re.match(r"^fn tmp=apply\(\*%s\.get_coef\(\)\);fn tmp1,tmp2;for\(const auto&p:%s\.get_dict\(\)\)\{"
                     r"tmp1=apply\(\*\(p\.first\)\);tmp2=apply\(\*\(p\.second\)\);"
                     r"tmp=\[=\]\(const T\*x\)\{return ?(.*?);\};\}result_=tmp;$" % (p, p), b)
        if m:
            return ".foldDict " + lean_formula(parse_expr(m.group(1), {"tmp": 0, "tmp1": 1, "tmp2": 2}, "x"))
        # patched Mul (D18): base E handled with std::exp inside the loop
        m = re.match(r"^fn tmp=apply\(\*%s\.get_coef\(\)\);fn tmp1,tmp2;for\(const auto&p:%s\.get_dict\(\)\)\{"
                     r"if\(eq\(\*\(?p\.first\)?,\*E\)\)\{tmp2=apply\(\*\(p\.second\)\);"
                     r"tmp=\[=\]\(const T\*x\)\{return ?(.*?);\};continue;\}"
                     r"tmp1=apply\(\*\(p\.first\)\);tmp2=apply\(\*\(p\.second\)\);"
                     r"tmp=\[=\]\(const T\*x\)\{return ?(.*?);\};\}result_=tmp;$" % (p, p), b)
        if m and cls == "Mul":
            return ".foldDictE %s %s" % (
                lean_formula(parse_expr(m.group(1), {"tmp": 0, "tmp2": 1}, "x")),
                lean_formula(parse_expr(m.group(2), {"tmp": 0, "tmp1": 1, "tmp2": 2}, "x")))
    if cls == "Pow":
        m = re.match(r"^fn exp_=apply\(\*\(%s\.get_exp\(\)\)\);if\(eq\(\*\(%s\.get_base\(\)\),\*E\)\)\{"
                     r"result_=\[=\]\(const T\*x\)\{return ?(.*?);\};\}else\{fn base_=apply\(\*\(%s\.get_base\(\)\)\);"
                     r"result_=\[=\]\(const T\*x\)\{return ?(.*?);\};\}$" % (p, p, p), b)
        if m:
            return ".powE %s %s" % (lean_formula(parse_expr(m.group(1), {"exp_": 0}, "x")),
                                    lean_formula(parse_expr(m.group(2), {"base_": 0, "exp_": 1}, "x")))
    if cls == "Constant" and b == "T tmp=eval_double(%s);result_=[=](const T*x){return tmp;};" % param:
        return "CONST_FROM_VISITOR"
    if cls == "Basic" and re.match(r'^throw NotImplementedError\("[^"]*"\);$', b):
        return None
    if cls == "UnevaluatedExpr" and b == "apply(*%s.get_arg());" % param:
        return ".fn (.arg 0)"
    if cls in ("And", "Or", "Xor", "Max", "Min"):
        m = re.match(r"^std::vector<fn>applys;for\(const auto&p:%s\.get_args\(\)\)\{applys\.push_back\(apply\(\*p\)\);\}"
                     r"result_=\[=\]\(const double\*x\)\{(bool|double) result=(bool\()?applys\[0\]\(x\)\)?;"
                     r"for\(unsigned int i=(\d);i<applys\.size\(\);i\+\+\)\{result=(.*?);\}"
                     r"return (double\(result\)|result);\};$" % p, b)
        if m:
            start = int(m.group(3))
            step = m.group(4)
            if cls in ("And", "Or", "Xor"):
                if m.group(1) != "bool" or m.group(2) is None or m.group(5) != "double(result)":
                    raise TranslatorError("lambda %s: not a bool fold" % cls)
                mm = re.match(r"^result(&&|\|\||!=)bool\(applys\[i\]\(x\)\)$", step)
                if not mm:
                    raise TranslatorError("lambda %s: step %s" % (cls, step))
                op = {"&&": "land", "||": "lor", "!=": "lxor"}[mm.group(1)]
                if (cls, op) not in (("And", "land"), ("Or", "lor"), ("Xor", "lxor")):
                    raise TranslatorError("lambda %s uses %s" % (cls, op))
                return ".boolFold %d (.%s (.arg 0) (.arg 1))" % (start, op)
            else:
                if m.group(1) != "double" or m.group(2) is not None or m.group(5) != "result":
                    raise TranslatorError("lambda %s: not a double fold" % cls)
                f = "max" if cls == "Max" else "min"
                if step != "std::%s(result,applys[i](x))" % f:
                    raise TranslatorError("lambda %s: step %s" % (cls, step))
                return ".foldFirst %d (.call2 .%s (.arg 0) (.arg 1))" % (start, f)
    if cls == "Infty":
        exp = ("if(%s.is_negative_infinity()){result_=[=](const double*){return-std::numeric_limits<double>::infinity();};}"
               "else if(%s.is_positive_infinity()){result_=[=](const double*){return std::numeric_limits<double>::infinity();};}"
               'else{throw SymEngineException("LambdaDouble can only represent real valued infinity");}') % (param, param)
        if b == exp:
            return ".leafInfty"
    if cls == "NaN":
        if re.match(r"^assert\(&%s==&\(\*Nan\)\);result_=\[\]\(const double\*\)\{return std::numeric_limits<double>::signaling_NaN\(\);\};$" % p, b):
            return ".leafNaN"
    if cls == "BooleanAtom" and b == "const bool val=%s.get_val();result_=[=](const double*){return(val)?1.0:0.0;};" % param:
        return ".leafBool"
    if cls == "Contains":
        exp = ("const auto fn_expr=apply(*%s.get_expr());const auto set=%s.get_set();if(is_a<Interval>(*set)){"
               "const auto&interv=down_cast<const Interval&>(*set);const auto fn_start=apply(*interv.get_start());"
               "const auto fn_end=apply(*interv.get_end());const bool left_open=interv.get_left_open();"
               "const bool right_open=interv.get_right_open();result_=[=](const double*x){const auto val_expr=fn_expr(x);"
               "const auto val_start=fn_start(x);const auto val_end=fn_end(x);bool left_ok,right_ok;"
               "if(val_start==-std::numeric_limits<double>::infinity()){left_ok=!std::isnan(val_expr);}"
               "else{left_ok=(left_open)?(val_start<val_expr):(val_start<=val_expr);}"
               "if(val_end==std::numeric_limits<double>::infinity()){right_ok=!std::isnan(val_expr);}"
               "else{right_ok=(right_open)?(val_expr<val_end):(val_expr<=val_end);}"
               "return(left_ok&&right_ok)?1.0:0.0;};}"
               "else{throw SymEngineException("
               ) % (param, param)
        if b.startswith(exp) and re.match(r'^"[^;{}]*"\);\}$', b[len(exp):]):
            return ".containsInterval"
    if cls == "Piecewise":
        m = re.match(r'^SYMENGINE_ASSERT_MSG\(eq\(\*%s\.get_vec\(\)\.back\(\)\.second,\*boolTrue\),"[^"]*"\);'
                     r"std::vector<fn>applys;std::vector<fn>preds;for\(const auto&expr_pred:%s\.get_vec\(\)\)\{"
                     r"applys\.push_back\(apply\(\*expr_pred\.first\)\);preds\.push_back\(apply\(\*expr_pred\.second\)\);\}"
                     r"result_=\[=\]\(const double\*x\)\{for\(size_t i=0;;\+\+i\)\{if\(preds\[i\]\(x\)(.*?)\)\{return applys\[i\]\(x\);\}\}"
                     r'throw SymEngineException\("[^"]*"\);\};$' % (p, p), b)
        if m:
            return ".piecewise " + lean_formula(parse_expr("c" + m.group(1), {"c": 0}))
    raise TranslatorError("lambda bvisit(const %s&): body has an unexpected shape: %s" % (cls, b))


# ----------------------------------------------------------------------------- driver

def lean_defs(name, doc, entries):
    s = "/-- %s -/\ndef %s : Defs := [\n" % (doc, name)
    s += ",\n".join('  ("%s", %s)' % (k, v) for k, v in entries)
    s += "]\n\n"
    return s


def fn(repo: Path, gen_dir: Path) -> dict:
    repo = Path(repo)
    check_accessors(repo)
    tc = {}
    for m in re.finditer(r"SYMENGINE_ENUM\((SYMENGINE_\w+),\s*(\w+)\)", (repo / "symengine/type_codes.inc").read_text()):
        tc[m.group(1)] = m.group(2)
    notes = []
    src = (repo / "symengine/eval_double.cpp").read_text()
    src = strip_ifdef(strip_ifdef(strip_comments(src), "HAVE_SYMENGINE_MPFR"), "HAVE_SYMENGINE_MPC")

    generic = {}
    for cls, (param, b) in bvisits(class_body(src, "EvalDoubleVisitor")).items():
        generic[cls] = tr_visitor_body(cls, param, b, "T", notes)
    real = {}
    for cls, (param, b) in bvisits(class_body(src, "EvalRealDoubleVisitor")).items():
        real[cls] = tr_visitor_body(cls, param, b, "double", notes)
    cplx = {}
    for cls, (param, b) in bvisits(class_body(src, "EvalComplexDoubleVisitor")).items():
        cplx[cls] = tr_visitor_body(cls, param, b, "complex", notes)
    if set(cplx) != {"Complex", "ComplexDouble"}:
        raise TranslatorError("EvalComplexDoubleVisitor overrides %s (expected Complex, ComplexDouble)" % sorted(cplx))
    # the two concrete real visitors must add nothing
    for c in ("EvalRealDoubleVisitorPattern", "EvalRealDoubleVisitorFinal"):
        if norm(class_body(src, c)) != "":
            raise TranslatorError("%s is no longer empty" % c)
    nsrc = norm(src)
    for sig, body in (("double eval_double(const Basic&b)", "EvalRealDoubleVisitorFinal v;return v.apply(b);"),
                      ("std::complex<double>eval_complex_double(const Basic&b)", "EvalComplexDoubleVisitor v;return v.apply(b);"),
                      ("double eval_double_single_dispatch(const Basic&b)",
                       "static const std::vector<fn>table_eval_double=init_eval_double();return table_eval_double[b.get_type_code()](b);"),
                      ("double eval_double_visitor_pattern(const Basic&b)", "EvalRealDoubleVisitorPattern v;return v.apply(b);")):
        if sig + "{" + body + "}" not in nsrc:
            raise TranslatorError("entry point changed: %s" % sig)
    if "T apply(const Basic&b){b.accept(*down_cast<C*>(this));return result_;}" not in nsrc:
        raise TranslatorError("EvalDoubleVisitor::apply changed")

    vis = dict(generic)
    for k, v in real.items():
        if k in vis and k != "Basic":
            raise TranslatorError("EvalRealDoubleVisitor re-defines %s" % k)
        vis[k] = v
    visitor_entries = [(k, v) for k, v in vis.items() if v not in (None, "SKIP", "COMPLEX")]
    generic_entries = [(k, v) for k, v in generic.items() if v not in (None, "SKIP", "COMPLEX")]

    table = tr_table(src, tc, notes)
    table_entries = list(table.items())

    # evalf (<= 53 bits) dispatch
    ev = norm(strip_comments((repo / "symengine/eval.cpp").read_text()))
    if ("if(bits<=53&&real){double d=eval_double(b);return real_double(d);}"
            "else if(bits<=53&&!real){std::complex<double>d=eval_complex_double(b);return complex_double(d);}") not in ev:
        raise TranslatorError("evalf_numeric: <= 53 bit dispatch changed")

    lsrc = (repo / "symengine/lambda_double.h").read_text()
    lsrc = re.sub(r"/\*[^*]*\*/", lambda m: " " if "\n" in m.group(0) or "x" in m.group(0) or "singleton" in m.group(0) else m.group(0), lsrc)
    lsrc = strip_ifdef(strip_ifdef(strip_comments(lsrc), "HAVE_SYMENGINE_MPFR"), "HAVE_SYMENGINE_MPC")
    lam = {}
    for cls, (param, b) in bvisits(class_body(lsrc, "LambdaDoubleVisitor")).items():
        lam[cls] = tr_lambda_body(cls, param, b, notes)
    lreal = {}
    for cls, (param, b) in bvisits(class_body(lsrc, "LambdaRealDoubleVisitor")).items():
        lreal[cls] = tr_lambda_body(cls, param, b, notes)
    for k, v in lreal.items():
        if k in lam:
            raise TranslatorError("LambdaRealDoubleVisitor re-defines %s" % k)
        lam[k] = v
    if lam.get("Constant") != "CONST_FROM_VISITOR":
        raise TranslatorError("lambda Constant no longer delegates to eval_double")
    lam["Constant"] = vis["Constant"]
    lambda_entries = [(k, v) for k, v in lam.items() if v not in (None, "SKIP")]
    # init / call (C13): exact text, modelled by hand in Model/LambdaD.lean
    nl = norm(lsrc)
    init_head = "void init(const vec_basic&inputs,const vec_basic&outputs,bool cse=false){results.clear();cse_intermediate_fns.clear();"
    init_rest = ("symbols=inputs;if(not cse){for(auto&p:outputs){results.push_back(apply(*p));}}"
                 "else{vec_basic reduced_exprs;vec_pair replacements;SymEngine::cse(replacements,reduced_exprs,outputs);"
                 "cse_intermediate_results.resize(replacements.size());for(auto&rep:replacements){auto res=apply(*(rep.second));"
                 "cse_intermediate_fns_map[rep.first]=cse_intermediate_fns.size();cse_intermediate_fns.push_back(res);}"
                 "for(unsigned i=0;i<outputs.size();i++){results.push_back(apply(*reduced_exprs[i]));}"
                 "cse_intermediate_fns_map.clear();symbols.clear();}}")
    call_txt = ("void call(T*outs,const T*inps){if(cse_intermediate_fns.size()>0){for(unsigned i=0;i<cse_intermediate_fns.size();++i){"
                "cse_intermediate_results[i]=cse_intermediate_fns[i](inps);}}for(unsigned i=0;i<results.size();++i){"
                "outs[i]=results[i](inps);}return;}")
    if init_head + "cse_intermediate_fns_map.clear();" + init_rest in nl:
        FLAGS["lambdaInitClearsMap"] = True
    elif init_head + init_rest in nl:
        FLAGS["lambdaInitClearsMap"] = False
        notes.append("lambda init: cse_intermediate_fns_map is not cleared on entry")
    else:
        raise TranslatorError("LambdaDoubleVisitor::init changed (model Model/LambdaD.lean must be revisited)")
    call_ok = call_txt in nl
    if not call_ok:
        raise TranslatorError("LambdaDoubleVisitor::call changed (model Model/LambdaD.lean must be revisited)")

    out = "/- GENERATED by tools/extract/c12_formulas.py from symengine/eval_double.cpp and symengine/lambda_double.h.\n"
    out += "   Do not edit: regenerated on every check run. -/\n"
    out += "import SymVerif.Model.EvalG\nnamespace SymVerif.EvalG.Gen\nopen SymVerif.EvalG\n\n"
    out += lean_defs("visitorGeneric", "EvalDoubleVisitor<T, C>: the bvisit methods shared by the real and the complex visitor", generic_entries)
    out += lean_defs("visitorReal", "EvalRealDoubleVisitor (eval_double, eval_double_visitor_pattern)", visitor_entries)
    out += lean_defs("tableSD", "init_eval_double(): the single-dispatch table behind eval_double_single_dispatch", table_entries)
    out += lean_defs("lambdaReal", "LambdaRealDoubleVisitor (lambda_double.h)", lambda_entries)
    out += "/-- node kinds EvalComplexDoubleVisitor adds to the generic ones -/\n"
    out += "def visitorComplexExtra : List String := [%s]\n\n" % ", ".join('"%s"' % k for k in sorted(cplx))
    for k in ("lambdaSymbolCseFirst", "lambdaInitClearsMap"):
        if k not in FLAGS:
            raise TranslatorError("flag %s not determined" % k)
    out += "/-- LambdaDoubleVisitor::bvisit(const Symbol&) searches the CSE replacement map before the input vector -/\n"
    out += "def lambdaSymbolCseFirst : Bool := %s\n\n" % ("true" if FLAGS["lambdaSymbolCseFirst"] else "false")
    out += "/-- LambdaDoubleVisitor::init clears cse_intermediate_fns_map on entry -/\n"
    out += "def lambdaInitClearsMap : Bool := %s\n\n" % ("true" if FLAGS["lambdaInitClearsMap"] else "false")
    out += "end SymVerif.EvalG.Gen\n"
    gen_dir = Path(gen_dir)
    gen_dir.mkdir(parents=True, exist_ok=True)
    f = gen_dir / "EvalFormulas.lean"
    if not f.exists() or f.read_text() != out:
        f.write_text(out)
    return dict(translator="c12_formulas", visitor_kinds=len(visitor_entries), table_kinds=len(table_entries),
                lambda_kinds=len(lambda_entries), complex_extra=sorted(cplx), notes=notes,
                table_pow=table.get("Pow", "")[:9], lambda_mul=lam.get("Mul", "")[:10], flags=dict(FLAGS))


if __name__ == "__main__":
    import sys
    print(fn(Path(sys.argv[1] if len(sys.argv) > 1 else "/repo"), Path(sys.argv[2] if len(sys.argv) > 2 else "/tmp/gen")))
