"""C16/C44 translator: symengine/printers/strprinter.{cpp,h}, parser/parser.{cpp,yy}, type_codes.inc
  ->  lean/SymVerif/Gen/PrintNames.lean

Regenerated on every run of the C16 / C44 checks:

  printNames      `init_str_printer_names()`: (class name, printed function name) for every
                  `names[SYMENGINE_X] = "y";` line, class names through type_codes.inc, empty names dropped
  precEnum        the enumerators of `enum class PrecedenceEnum` in declaration order (lowest first)
  precTable       the `%left/%right/%nonassoc` lines of parser.yy in file order (later = binds tighter)
  parserSingle / parserDouble / parserMulti
                  the function-name maps of parser.cpp (`init_parser_single_arg_functions`, `double_arg_functions`,
                  `multi_arg_functions`) as (parser name, class the C++ builder constructs).  The class is resolved
                  by the naming convention `lower(Class) == builder name without '_'`; builders that do not build a
                  class of their own (sqrt, exp, pow, ln, two-argument log) are listed as "fn:<builder>".
  parserBool      every boolean function name of `Parser::functionify` with its builder ("Eq" -> "fn:Eq", ...)
  parserConstants `parse_identifier`'s table (name, C++ constant)
  printMul, powOp, imagSym, doubleDigits
                  `StrPrinter::print_mul()`, the operator string of `_print_pow`, `get_imag_symbol()` and whether
                  print_double uses `std::numeric_limits<double>::digits10`

The translator raises when a source no longer has the expected shape.
"""
import re
from pathlib import Path


class ShapeError(Exception):
    pass


def strip_comments(s):
    s = re.sub(r"/\*.*?\*/", " ", s, flags=re.S)
    s = re.sub(r"//[^\n]*", " ", s)
    return s


def lean_str(s):
    out = []
    for ch in s:
        if ch == "\\":
            out.append("\\\\")
        elif ch == '"':
            out.append('\\"')
        elif 32 <= ord(ch) < 127:
            out.append(ch)
        else:
            raise ShapeError("unexpected character %r in a translated string" % ch)
    return '"' + "".join(out) + '"'


def lean_pairs(name, pairs, doc):
    s = "/-- %s -/\ndef %s : List (String × String) := [\n" % (doc, name)
    s += ",\n".join("  (%s, %s)" % (lean_str(a), lean_str(b)) for a, b in pairs)
    s += "]\n\n"
    return s


def type_code_classes(inc):
    d = {}
    for m in re.finditer(r"SYMENGINE_ENUM\(\s*(SYMENGINE_\w+)\s*,\s*(\w+)\s*\)", strip_comments(inc)):
        d[m.group(1)] = m.group(2)
    if len(d) < 100:
        raise ShapeError("type_codes.inc: only %d SYMENGINE_ENUM entries" % len(d))
    return d


def func_body(txt, header_re, what):
    m = re.search(header_re, txt)
    if not m:
        raise ShapeError("%s not found" % what)
    i = txt.index("{", m.end() - 1)
    depth, j = 0, i
    while j < len(txt):
        if txt[j] == "{":
            depth += 1
        elif txt[j] == "}":
            depth -= 1
            if depth == 0:
                return txt[i + 1:j]
        j += 1
    raise ShapeError("%s: unbalanced braces" % what)


def init_list(txt, var, what):
    """the `{ {"name", fn}, ... }` initialiser that follows `var =`"""
    m = re.search(re.escape(var) + r"\s*=\s*\{", txt)
    if not m:
        raise ShapeError("%s: initialiser of %s not found" % (what, var))
    i = m.end() - 1
    depth, j = 0, i
    while j < len(txt):
        if txt[j] == "{":
            depth += 1
        elif txt[j] == "}":
            depth -= 1
            if depth == 0:
                break
        j += 1
    body = txt[i + 1:j]
    pairs = []
    rest = body
    for mm in re.finditer(r"\{\s*\"([^\"]*)\"\s*,\s*([^{}]*?)\s*\}", body):
        fn = re.sub(r"\([^()]*\)\s*", "", mm.group(2)).strip()   # drop casts such as (single_arg_func)
        if not re.match(r"^[A-Za-z_]\w*$", fn):
            raise ShapeError("%s: unexpected builder %r for %r" % (what, mm.group(2), mm.group(1)))
        pairs.append((mm.group(1), fn))
        rest = rest.replace(mm.group(0), "", 1)
    if re.sub(r"[\s,]", "", rest):
        raise ShapeError("%s: %s is not a plain list of {\"name\", fn} pairs: %r" % (what, var, rest.strip()[:80]))
    if not pairs:
        raise ShapeError("%s: %s is empty" % (what, var))
    return pairs


NO_CLASS = {"sqrt", "exp", "pow", "cbrt"}


def resolve(pairs, classes, two_arg=False):
    low = {}
    for c in classes.values():
        low.setdefault(c.lower(), c)
    out = []
    for name, fn in pairs:
        key = fn.replace("_", "").lower()
        if fn in NO_CLASS or (two_arg and fn == "log"):
            out.append((name, "fn:" + fn))
        elif key in low:
            out.append((name, low[key]))
        elif fn.replace("_", "") == "dirichleteta":
            out.append((name, "Dirichlet_eta"))
        else:
            raise ShapeError("parser.cpp: cannot resolve the class built by %r (name %r)" % (fn, name))
    return out


def fn(repo: Path, gen_dir: Path) -> dict:
    repo = Path(repo)
    sp = strip_comments((repo / "symengine/printers/strprinter.cpp").read_text())
    sh = strip_comments((repo / "symengine/printers/strprinter.h").read_text())
    pc = strip_comments((repo / "symengine/parser/parser.cpp").read_text())
    yy = (repo / "symengine/parser/parser.yy").read_text()
    classes = type_code_classes((repo / "symengine/type_codes.inc").read_text())

    # --- printer name table
    body = func_body(sp, r"std::vector<std::string>\s+init_str_printer_names\s*\(\s*\)\s*\{", "init_str_printer_names")
    names = []
    seen = {}
    leftover = body
    for m in re.finditer(r"names\[\s*(SYMENGINE_\w+)\s*\]\s*=\s*\"([^\"]*)\"\s*;", body):
        code, nm = m.group(1), m.group(2)
        leftover = leftover.replace(m.group(0), "", 1)
        if code not in classes:
            raise ShapeError("init_str_printer_names: unknown type code %s" % code)
        cls = classes[code]
        if cls in seen:
            if seen[cls] != nm:
                raise ShapeError("init_str_printer_names: %s assigned twice with different names" % cls)
            continue
        seen[cls] = nm
        if nm:
            names.append((cls, nm))
    leftover = re.sub(r"std::vector<std::string>\s+names\s*;|names\.assign\(\s*TypeID_Count\s*,\s*\"\"\s*\)\s*;|return\s+names\s*;", "", leftover)
    if leftover.strip():
        raise ShapeError("init_str_printer_names: unexpected statements %r" % leftover.strip()[:100])
    if len(names) < 40:
        raise ShapeError("init_str_printer_names: only %d names" % len(names))

    # --- PrecedenceEnum
    m = re.search(r"enum\s+class\s+PrecedenceEnum\s*\{([^}]*)\}", sh)
    if not m:
        raise ShapeError("strprinter.h: enum class PrecedenceEnum not found")
    prec_enum = [t.strip() for t in m.group(1).split(",") if t.strip()]
    if not all(re.match(r"^\w+$", t) for t in prec_enum):
        raise ShapeError("PrecedenceEnum: explicit values are not supported: %r" % prec_enum)

    # --- small string constants of the printer
    def ret_string(fname):
        b = func_body(sp, r"std::string\s+StrPrinter::" + fname + r"\s*\(\s*\)\s*\{", "StrPrinter::" + fname)
        mm = re.match(r"\s*return\s+\"([^\"]*)\"\s*;\s*$", b)
        if not mm:
            raise ShapeError("StrPrinter::%s is no longer `return \"...\";`" % fname)
        return mm.group(1)
    print_mul = ret_string("print_mul")
    imag = ret_string("get_imag_symbol")
    b = func_body(sp, r"void\s+StrPrinter::_print_pow\s*\([^)]*\)\s*\{", "StrPrinter::_print_pow")
    mm = re.search(r"parenthesizeLE\(a,\s*PrecedenceEnum::Pow\);\s*o\s*<<\s*\"([^\"]*)\"\s*;\s*o\s*<<\s*parenthesizeLE\(b,\s*PrecedenceEnum::Pow\)", b)
    if not mm:
        raise ShapeError("StrPrinter::_print_pow: the a OP b branch has an unexpected shape")
    pow_op = mm.group(1)
    if 'o << "exp(" << apply(b) << ")"' not in b or 'o << "sqrt(" << apply(a) << ")"' not in b:
        raise ShapeError("StrPrinter::_print_pow: exp( / sqrt( branches changed")
    b = func_body(sp, r"std::string\s+print_double\s*\(\s*double\s+d\s*\)\s*\{", "print_double")
    if "s.precision(std::numeric_limits<double>::digits10)" not in b:
        raise ShapeError("print_double no longer uses digits10 significant digits")
    digits = 15

    # --- parser.yy precedence lines
    decl = yy.split("\n%%")[0]
    prec = []
    for line in decl.splitlines():
        m = re.match(r"\s*%(left|right|nonassoc|precedence)\s+(.*)$", line)
        if m:
            toks = m.group(2).split()
            for t in toks:
                if not re.match(r"^('.'|[A-Z_]+)$", t):
                    raise ShapeError("parser.yy: unexpected token %r in a precedence line" % t)
            prec.append((m.group(1), toks))
    if len(prec) < 10:
        raise ShapeError("parser.yy: only %d precedence lines" % len(prec))

    # --- parser.cpp tables
    single = init_list(func_body(pc, r"init_parser_single_arg_functions\s*\(\s*\)\s*\{", "init_parser_single_arg_functions"),
                       "functions", "parser.cpp")
    fy = func_body(pc, r"Parser::functionify\s*\([^)]*\)\s*\{", "Parser::functionify")
    double = init_list(fy, "double_arg_functions", "parser.cpp")
    multi = init_list(fy, "multi_arg_functions", "parser.cpp")
    boolean = []
    for var in ["single_arg_boolean_functions", "single_arg_boolean_boolean_functions", "double_arg_boolean_functions",
                "multi_arg_vec_boolean_functions", "multi_arg_set_boolean_functions"]:
        for n, f in init_list(fy, var, "parser.cpp"):
            if (n, "fn:" + f) not in boolean:
                boolean.append((n, "fn:" + f))
    pi_ = func_body(pc, r"Parser::parse_identifier\s*\([^)]*\)\s*\{", "Parser::parse_identifier")
    consts = init_list(pi_, "parser_constants", "parser.cpp")

    single_r = resolve(single, classes)
    double_r = resolve(double, classes, two_arg=True)
    multi_r = resolve(multi, classes)

    s = "-- GENERATED by tools/extract/c16_names.py from /repo/symengine/printers/strprinter.{cpp,h},\n"
    s += "-- parser/parser.{cpp,yy} and type_codes.inc.  Do not edit; regenerated on every check.\n"
    s += "namespace SymVerif.Gen.PrintNames\n\n"
    s += lean_pairs("printNames", names, "init_str_printer_names(): (class, printed name), empty names dropped")
    s += "/-- enum class PrecedenceEnum, lowest first -/\ndef precEnum : List String := [%s]\n\n" % ", ".join(lean_str(t) for t in prec_enum)
    s += "/-- %left/%right/%nonassoc lines of parser.yy in file order: (associativity, tokens) -/\n"
    s += "def precTable : List (String × List String) := [\n"
    s += ",\n".join("  (%s, [%s])" % (lean_str(a), ", ".join(lean_str(t) for t in ts)) for a, ts in prec)
    s += "]\n\n"
    s += lean_pairs("parserSingle", single_r, "init_parser_single_arg_functions(): (name, class built)")
    s += lean_pairs("parserDouble", double_r, "double_arg_functions: (name, class built)")
    s += lean_pairs("parserMulti", multi_r, "multi_arg_functions: (name, class built)")
    s += lean_pairs("parserBool", boolean, "boolean function names of Parser::functionify")
    s += lean_pairs("parserConstants", consts, "parse_identifier: (name, C++ constant)")
    s += "def printMul : String := %s\ndef powOp : String := %s\ndef imagSym : String := %s\n" % (
        lean_str(print_mul), lean_str(pow_op), lean_str(imag))
    s += "def doubleDigits : Nat := %d\n\n" % digits
    s += "end SymVerif.Gen.PrintNames\n"
    out = Path(gen_dir) / "PrintNames.lean"
    if not out.exists() or out.read_text() != s:
        out.write_text(s)
    return dict(translator="c16_names", printed_names=len(names), parser_names=len(single) + len(double) + len(multi),
                prec_lines=len(prec), sources=["symengine/printers/strprinter.cpp", "symengine/printers/strprinter.h",
                                               "symengine/parser/parser.cpp", "symengine/parser/parser.yy",
                                               "symengine/type_codes.inc"])


if __name__ == "__main__":
    import sys
    print(fn(Path(sys.argv[1] if len(sys.argv) > 1 else "/repo"), Path(sys.argv[2] if len(sys.argv) > 2 else "/tmp")))
