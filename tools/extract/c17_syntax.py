"""C17/C18 translator: symengine/parser/{parser.yy, parser.cpp, tokenizer.re}  ->  lean/SymVerif/Gen/Syntax.lean

Regenerated on every run of the C17 / C18 checks:

  precTable      the `%left / %right / %nonassoc / %precedence` lines of parser.yy, in file order
                 (bison: later line = binds tighter).  The model parser (Model/Parser.lean) takes every
                 binding power from this table; `Props/C17.lean` proves by `decide` that the table orders the
                 arithmetic operators conventionally.
  grammarRules   every alternative of the nonterminals of parser.yy as (lhs, rhs symbols incl. %prec, action),
                 whitespace-normalised.  The model was written against exactly this list; Props/C17 re-checks
                 `grammarRules = expectedRules` by `decide`, so an added / removed / re-ordered alternative or an
                 edited semantic action makes the proof step fail (tie kind P) instead of passing silently.
  singleArgFuncs, doubleArgFuncs, multiArgFuncs, singleArgBoolFuncs, singleArgBoolBoolFuncs,
  doubleArgBoolFuncs, multiArgVecBoolFuncs, multiArgSetBoolFuncs
                 the name tables of parser.cpp as (parser name, C++ function) pairs (casts removed)
  constants      parse_identifier's table (name, C++ constant)
  tokDefs, tokRules
                 the named regular expressions and the rule list (in rule order) of tokenizer.re
  numericBase    the base argument of std::strtol in Parser::parse_numeric (10 = decimal; 0 = C-style
                 auto-detect, which reads a leading 0 as octal: defect D6)

The translator raises (tie kind T) when a source no longer has the expected *shape* (missing function, a map that
is no longer an initialiser list of `{"name", fn}` pairs, no `%%` sections, ...).
"""
import re
from pathlib import Path


class ShapeError(Exception):
    pass


def strip_comments(s):
    s = re.sub(r"/\*.*?\*/", " ", s, flags=re.S)
    s = re.sub(r"//[^\n]*", " ", s)
    return s


def lean_str(s):
    out = []
    for ch in s:
        if ch == "\\":
            out.append("\\\\")
        elif ch == '"':
            out.append('\\"')
        elif ch == "\n":
            out.append("\\n")
        elif ch == "\t":
            out.append("\\t")
        elif 32 <= ord(ch) < 127:
            out.append(ch)
        else:
            raise ShapeError("non-ASCII character %r in a translated string" % ch)
    return '"' + "".join(out) + '"'


def lean_pairs(name, pairs, doc):
    s = "/-- %s -/\ndef %s : List (String × String) := [\n" % (doc, name)
    s += ",\n".join("  (%s, %s)" % (lean_str(a), lean_str(b)) for a, b in pairs)
    s += "]\n\n"
    return s


# ------------------------------------------------------------------ parser.yy

def parse_yy(txt):
    parts = txt.split("\n%%")
    if len(parts) < 2:
        raise ShapeError("parser.yy: no %% section separator")
    decl, rules = parts[0], parts[1]
    prec = []
    for line in decl.splitlines():
        m = re.match(r"\s*%(left|right|nonassoc|precedence)\s+(.*)$", line)
        if m:
            toks = m.group(2).split()
            if not toks:
                raise ShapeError("parser.yy: empty precedence line %r" % line)
            for t in toks:
                if not re.match(r"^('.'|[A-Z_]+)$", t):
                    raise ShapeError("parser.yy: unexpected token %r in precedence line" % t)
            prec.append((m.group(1), toks))
    if not prec:
        raise ShapeError("parser.yy: no precedence declarations")
    tokens = re.findall(r"^%token\s+(?:<[^>]*>\s*)?([A-Z_]+)", decl, flags=re.M)
    start = re.findall(r"^%start\s+(\w+)", decl, flags=re.M)
    if len(start) != 1:
        raise ShapeError("parser.yy: expected exactly one %start")
    # ---- rules: split into  lhs : alt | alt ... ;   respecting braces and quoted chars
    body = strip_comments(rules)
    i, n = 0, len(body)
    out = []

    def skip_ws(i):
        while i < n and body[i].isspace():
            i += 1
        return i

    while True:
        i = skip_ws(i)
        if i >= n:
            break
        m = re.match(r"([A-Za-z_]\w*)\s*:", body[i:])
        if not m:
            raise ShapeError("parser.yy: cannot read rule header at %r" % body[i:i + 40])
        lhs = m.group(1)
        i += m.end()
        syms, action = [], ""
        while True:
            i = skip_ws(i)
            if i >= n:
                raise ShapeError("parser.yy: unterminated rule %s" % lhs)
            c = body[i]
            if c == "{":
                depth, j = 0, i
                while j < n:
                    if body[j] == "{":
                        depth += 1
                    elif body[j] == "}":
                        depth -= 1
                        if depth == 0:
                            break
                    j += 1
                if j >= n:
                    raise ShapeError("parser.yy: unbalanced action in rule %s" % lhs)
                action += re.sub(r"\s+", " ", body[i + 1:j]).strip()
                i = j + 1
            elif c == "|" or c == ";":
                out.append((lhs, " ".join(syms), action))
                syms, action = [], ""
                i += 1
                if c == ";":
                    break
            elif c == "'":
                if i + 2 >= n or body[i + 2] != "'":
                    raise ShapeError("parser.yy: bad character literal in rule %s" % lhs)
                syms.append(body[i:i + 3])
                i += 3
            else:
                m = re.match(r"%?[A-Za-z_]\w*", body[i:])
                if not m:
                    raise ShapeError("parser.yy: unexpected text %r in rule %s" % (body[i:i + 20], lhs))
                syms.append(m.group(0))
                i += m.end()
    if not out:
        raise ShapeError("parser.yy: no grammar rules")
    return prec, tokens, start[0], out


# ------------------------------------------------------------------ parser.cpp

def map_entries(txt, var, where):
    """Entries `{"name", value}` of the initialiser list assigned to `var`."""
    m = re.search(r"\b%s\s*=\s*\{" % re.escape(var), txt)
    if not m:
        raise ShapeError("%s: table %s not found" % (where, var))
    j = m.end() - 1
    depth, k = 0, j
    while k < len(txt):
        if txt[k] == "{":
            depth += 1
        elif txt[k] == "}":
            depth -= 1
            if depth == 0:
                break
        k += 1
    if k >= len(txt):
        raise ShapeError("%s: unbalanced initialiser of %s" % (where, var))
    inner = txt[j + 1:k]
    entries = re.findall(r"\{\s*\"([^\"]*)\"\s*,\s*([^{}]*?)\s*\}", inner)
    rest = re.sub(r"\{\s*\"[^\"]*\"\s*,\s*[^{}]*?\s*\}", "", inner)
    if re.sub(r"[\s,]", "", rest):
        raise ShapeError("%s: table %s has entries of an unexpected shape: %r" % (where, var, rest.strip()[:80]))
    if not entries:
        raise ShapeError("%s: table %s is empty" % (where, var))
    out = []
    for name, val in entries:
        val = re.sub(r"^\(\s*\w+\s*\)\s*", "", val.strip())  # drop C casts: (single_arg_func)log
        if not re.match(r"^[A-Za-z_]\w*$", val):
            raise ShapeError("%s: table %s: value %r of %r is not a plain function name" % (where, var, val, name))
        out.append((name, val))
    names = [a for a, _ in out]
    if len(set(names)) != len(names):
        raise ShapeError("%s: table %s has duplicate keys" % (where, var))
    return out


def fn_body(txt, signature, where):
    i = txt.find(signature)
    if i < 0:
        raise ShapeError("%s: function %r not found" % (where, signature))
    j = txt.find("{", i)
    depth, k = 0, j
    while k < len(txt):
        if txt[k] == "{":
            depth += 1
        elif txt[k] == "}":
            depth -= 1
            if depth == 0:
                return txt[j + 1:k]
        k += 1
    raise ShapeError("%s: unbalanced braces after %r" % (where, signature))


def nows(s):
    return re.sub(r"\s+", "", s)


# the dispatch order of Parser::functionify after the table definitions, whitespace-free; the model's
# `resolveCall` mirrors exactly this text
FUNCTIONIFY_DISPATCH = nows("""
    if (params.size() == 1) {
        const auto &single_arg_functions_ = init_parser_single_arg_functions();
        auto it1 = single_arg_functions_.find(name);
        if (it1 != single_arg_functions_.end()) { return it1->second(params[0]); }
        auto it2 = single_arg_boolean_functions.find(name);
        if (it2 != single_arg_boolean_functions.end()) { return it2->second(params[0]); }
        auto it3 = single_arg_boolean_boolean_functions.find(name);
        if (it3 != single_arg_boolean_boolean_functions.end()) {
            if (!is_a_Boolean(*params[0])) { throw ParseError("Boolean function received non-boolean arguments"); }
            return it3->second(rcp_static_cast<const Boolean>(params[0]));
        }
    }
    if (params.size() == 2) {
        auto it1 = double_arg_functions.find(name);
        if (it1 != double_arg_functions.end()) { return it1->second(params[0], params[1]); }
        auto it2 = double_arg_boolean_functions.find(name);
        if (it2 != double_arg_boolean_functions.end()) { return it2->second(params[0], params[1]); }
    }
    auto it1 = multi_arg_functions.find(name);
    if (it1 != multi_arg_functions.end()) { return it1->second(params); }
    auto it2 = multi_arg_vec_boolean_functions.find(name);
    if (it2 != multi_arg_vec_boolean_functions.end()) {
        vec_boolean p;
        for (auto &v : params) {
            if (!is_a_Boolean(*v)) { throw ParseError("Boolean function received non-boolean arguments"); }
            p.push_back(rcp_static_cast<const Boolean>(v));
        }
        return it2->second(p);
    }
    auto it3 = multi_arg_set_boolean_functions.find(name);
    if (it3 != multi_arg_set_boolean_functions.end()) {
        set_boolean s;
        for (auto &v : params) {
            if (!is_a_Boolean(*v)) { throw ParseError("Boolean function received non-boolean arguments"); }
            s.insert(rcp_static_cast<const Boolean>(v));
        }
        return it3->second(s);
    }
    return function_symbol(name, params);
""")


def parse_cpp(txt):
    where = "parser.cpp"
    t = strip_comments(txt)
    tables = dict(
        singleArgFuncs=map_entries(t, "functions", where),
        doubleArgFuncs=map_entries(t, "double_arg_functions", where),
        multiArgFuncs=map_entries(t, "multi_arg_functions", where),
        singleArgBoolFuncs=map_entries(t, "single_arg_boolean_functions", where),
        singleArgBoolBoolFuncs=map_entries(t, "single_arg_boolean_boolean_functions", where),
        doubleArgBoolFuncs=map_entries(t, "double_arg_boolean_functions", where),
        multiArgVecBoolFuncs=map_entries(t, "multi_arg_vec_boolean_functions", where),
        multiArgSetBoolFuncs=map_entries(t, "multi_arg_set_boolean_functions", where),
        constants=map_entries(t, "parser_constants", where),
    )
    # dispatch order of functionify (everything after the last table)
    fb = fn_body(t, "Parser::functionify(const std::string &name, vec_basic &params)", where)
    k = fb.find("if (params.size() == 1)")
    if k < 0:
        raise ShapeError("parser.cpp: functionify no longer starts its dispatch with params.size() == 1")
    if nows(fb[k:]) != FUNCTIONIFY_DISPATCH:
        raise ShapeError("parser.cpp: the dispatch part of Parser::functionify changed; the model's resolveCall "
                         "mirrors the old text - re-read it and update tools/extract/c17_syntax.py + Model/Parser.lean")
    # parse_identifier: local constants first, then the table, then symbol()
    ib = nows(fn_body(t, "Parser::parse_identifier(const std::string &expr)", where))
    tail = nows("""auto l = local_parser_constants.find(expr);
        if (l != local_parser_constants.end()) { return l->second; }
        auto c = parser_constants.find(expr);
        if (c != parser_constants.end()) { return c->second; } else { return symbol(expr); }""")
    if not ib.endswith(tail):
        raise ShapeError("parser.cpp: the lookup part of Parser::parse_identifier changed")
    # parse_numeric: the base handed to strtol, and the integer / float split
    nb = fn_body(t, "Parser::parse_numeric(const std::string &expr)", where)
    m = re.search(r"std::strtol\(\s*startptr\s*,\s*&lendptr\s*,\s*(\d+)\s*\)", nb)
    if not m:
        raise ShapeError("parser.cpp: parse_numeric no longer calls std::strtol(startptr, &lendptr, <base>)")
    base = int(m.group(1))
    if "expr.find_first_of('.')==std::string::npos&&lendptr==startptr+expr.length()" not in nows(nb):
        raise ShapeError("parser.cpp: parse_numeric: the integer/float decision changed")
    if "fast_float::from_chars(startptr,startptr+expr.size(),d)" not in nows(nb):
        raise ShapeError("parser.cpp: parse_numeric no longer converts floats with fast_float::from_chars")
    # parse_implicit_mul: numeric prefix found by fast_float, remainder is the identifier
    mb = nows(fn_body(t, "Parser::parse_implicit_mul(const std::string &expr)", where))
    for need in ["fast_float::from_chars(startptr,startptr+expr.size(),result).ptr", "num=parse_numeric(lexpr);",
                 "sym=parse_identifier(lexpr);", "returnstd::make_tuple(num,sym);"]:
        if need not in mb:
            raise ShapeError("parser.cpp: parse_implicit_mul changed (missing %s)" % need)
    # Parser::parse
    pb = nows(fn_body(t, "Parser::parse(const std::string &input, bool convert_xor)", where))
    want = nows("""inp = input;
        if (convert_xor) { std::replace(inp.begin(), inp.end(), '^', '@'); }
        m_tokenizer->set_string(inp);
        yy::parser p(*this);
        if (p() == 0) return this->res;
        throw ParseError("Parsing Unsuccessful");""")
    if pb != want:
        raise ShapeError("parser.cpp: Parser::parse changed; Model/ParserState.lean mirrors the old body")
    return tables, base


# ------------------------------------------------------------------ tokenizer.re

def parse_re(txt, where):
    m = re.search(r"/\*!re2c(.*?)\*/", txt, flags=re.S)
    if not m:
        raise ShapeError("%s: no /*!re2c block" % where)
    blk = m.group(1)
    defs, rules = [], []
    for raw in blk.splitlines():
        line = raw.strip()
        if not line or line.startswith("//") or line.startswith("re2c:"):
            continue
        m1 = re.match(r"^([A-Za-z_]\w*)\s*=\s*(.*?);\s*$", line)
        m2 = re.match(r"^(\*|[A-Za-z_]\w*)\s*\{(.*)\}\s*$", line)
        if m1:
            defs.append((m1.group(1), re.sub(r"\s+", " ", m1.group(2)).strip()))
        elif m2:
            rules.append((m2.group(1), re.sub(r"\s+", " ", m2.group(2)).strip()))
        else:
            raise ShapeError("%s: cannot classify re2c line %r" % (where, line))
    if not defs or not rules:
        raise ShapeError("%s: no definitions / rules" % where)
    return defs, rules


def fn(repo: Path, gen_dir: Path) -> dict:
    pdir = repo / "symengine" / "parser"
    prec, tokens, start, rules = parse_yy((pdir / "parser.yy").read_text())
    tables, base = parse_cpp((pdir / "parser.cpp").read_text())
    tdefs, trules = parse_re((pdir / "tokenizer.re").read_text(), "tokenizer.re")
    sdefs, srules = parse_re((pdir / "sbml" / "sbml_tokenizer.re").read_text(), "sbml_tokenizer.re")
    sprec, stokens, sstart, srls = parse_yy((pdir / "sbml" / "sbml_parser.yy").read_text())

    s = "/- GENERATED by tools/extract/c17_syntax.py from symengine/parser/{parser.yy,parser.cpp,tokenizer.re}" \
        " (+ sbml).  Do not edit. -/\n"
    s += "namespace SymVerif\nnamespace Gen\nnamespace Syntax\n\n"
    s += "inductive Assoc where\n  | left | right | nonassoc\n  deriving Repr, DecidableEq, Inhabited\n\n"

    def prec_table(name, prec, doc):
        t = "/-- %s -/\ndef %s : List (Assoc × List String) := [\n" % (doc, name)
        t += ",\n".join("  (.%s, [%s])" % ("nonassoc" if a in ("nonassoc", "precedence") else a,
                                            ", ".join(lean_str(x) for x in toks)) for a, toks in prec)
        return t + "]\n\n"

    s += prec_table("precTable", prec, "precedence declarations of parser.yy in file order (later = tighter)")
    s += "/-- declared %%token names of parser.yy -/\ndef tokens : List String := [%s]\n\n" % ", ".join(
        lean_str(x) for x in tokens)
    s += "def startSymbol : String := %s\n\n" % lean_str(start)
    s += "/-- every alternative of parser.yy: (lhs, rhs symbols, action), whitespace-normalised -/\n"
    s += "def grammarRules : List (String × String × String) := [\n"
    s += ",\n".join("  (%s, %s, %s)" % (lean_str(a), lean_str(b), lean_str(c)) for a, b, c in rules)
    s += "]\n\n"
    docs = dict(
        singleArgFuncs="init_parser_single_arg_functions(): parser name -> C++ function",
        doubleArgFuncs="functionify: double_arg_functions",
        multiArgFuncs="functionify: multi_arg_functions",
        singleArgBoolFuncs="functionify: single_arg_boolean_functions",
        singleArgBoolBoolFuncs="functionify: single_arg_boolean_boolean_functions",
        doubleArgBoolFuncs="functionify: double_arg_boolean_functions",
        multiArgVecBoolFuncs="functionify: multi_arg_vec_boolean_functions",
        multiArgSetBoolFuncs="functionify: multi_arg_set_boolean_functions",
        constants="parse_identifier: parser_constants",
    )
    for k in ["singleArgFuncs", "doubleArgFuncs", "multiArgFuncs", "singleArgBoolFuncs", "singleArgBoolBoolFuncs",
              "doubleArgBoolFuncs", "multiArgVecBoolFuncs", "multiArgSetBoolFuncs", "constants"]:
        s += lean_pairs(k, tables[k], docs[k])
    s += "/-- base argument of std::strtol in Parser::parse_numeric (0 = auto-detect: leading 0 is octal) -/\n"
    s += "def numericBase : Nat := %d\n\n" % base
    s += lean_pairs("tokDefs", tdefs, "named regular expressions of tokenizer.re")
    s += lean_pairs("tokRules", trules, "rules of tokenizer.re in rule order (rule, action)")
    s += prec_table("sbmlPrecTable", sprec, "precedence declarations of sbml/sbml_parser.yy")
    s += "def sbmlGrammarRules : List (String × String × String) := [\n"
    s += ",\n".join("  (%s, %s, %s)" % (lean_str(a), lean_str(b), lean_str(c)) for a, b, c in srls)
    s += "]\n\n"
    s += lean_pairs("sbmlTokDefs", sdefs, "named regular expressions of sbml_tokenizer.re")
    s += lean_pairs("sbmlTokRules", srules, "rules of sbml_tokenizer.re in rule order")
    s += "end Syntax\nend Gen\nend SymVerif\n"
    out = gen_dir / "Syntax.lean"
    if not out.exists() or out.read_text() != s:
        out.write_text(s)
    return dict(translator="c17_syntax", prec_levels=len(prec), grammar_rules=len(rules),
                single_arg_funcs=len(tables["singleArgFuncs"]), double_arg_funcs=len(tables["doubleArgFuncs"]),
                constants=len(tables["constants"]), tokenizer_rules=len(trules), numeric_base=base,
                sbml_rules=len(srls), output=str(out))


if __name__ == "__main__":
    import sys
    print(fn(Path(sys.argv[1] if len(sys.argv) > 1 else "/repo"), Path(sys.argv[2] if len(sys.argv) > 2 else "/tmp")))
