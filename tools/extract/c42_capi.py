"""C42 translator: symengine/cwrapper.cpp, symengine_exception.h, expression.h  ->  lean/SymVerif/Gen/CApi.lean

What is translated (all re-read from the working tree on every run):

 * every function *defined* inside an `extern "C"` block of cwrapper.cpp (macro-generated ones included:
   IMPLEMENT_ONE_ARG_FUNC / IMPLEMENT_TWO_ARG_FUNC / IMPLEMENT_STR_CONVERSION[_SETTINGS] are expanded textually):
   name, return-type class, preprocessor condition, whether the body is CWRAPPER_BEGIN ... CWRAPPER_END,
   whether it has its own `try { } catch (...)`, the identifiers it calls *outside* every catch-all region
   (`unguarded`), and all identifiers it calls (`callees`), the number of SYMENGINE_ASSERTs;
 * the catch clauses of the CWRAPPER_END macro (exception type -> returned expression);
 * the enum symengine_exceptions_t and the exception classes of symengine_exception.h (class, base, code);
 * the operators / methods / free functions of expression.h that forward to a core function
   (operator, operand kinds, core function, argument order).

The translator raises if the source no longer has the shape the Lean model assumes.
"""
import re
from pathlib import Path

KEYWORDS = {"if", "for", "while", "switch", "return", "catch", "not", "and", "or", "defined", "else", "do",
            "case", "throw", "typedef", "using", "try"}
NON_DECL_PREV = {"return", "new", "not", "or", "and", "else", "delete", "throw", "case", "do"}


class ShapeError(Exception):
    pass


def strip_comments(txt):
    out = []
    i, n = 0, len(txt)
    while i < n:
        c = txt[i]
        if txt.startswith("//", i):
            while i < n and txt[i] != "\n":
                i += 1
        elif txt.startswith("/*", i):
            j = txt.find("*/", i + 2)
            j = n if j < 0 else j + 2
            out.append("".join(ch if ch == "\n" else " " for ch in txt[i:j]))
            i = j
        elif c == '"' or c == "'":
            j = i + 1
            while j < n and txt[j] != c:
                if txt[j] == "\\":
                    j += 1
                j += 1
            out.append(txt[i:j + 1])
            i = j + 1
        else:
            out.append(c)
            i += 1
    return "".join(out)


def join_continuations(txt):
    return re.sub(r"\\\n", " ", txt)


def preprocess(txt):
    """Returns (code_text without directive lines, cond per line, macros{name:(params|None, body)})."""
    lines = join_continuations(strip_comments(txt)).split("\n")
    macros = {}
    stack = []
    out, conds = [], []
    for ln in lines:
        s = ln.strip()
        if s.startswith("#"):
            d = s[1:].strip()
            m = re.match(r"(ifdef|ifndef|if|elif|else|endif|define|undef|include)\b\s*(.*)", d)
            if not m:
                out.append("")
                conds.append(" && ".join(stack))
                continue
            k, rest = m.group(1), m.group(2).strip()
            if k == "ifdef":
                stack.append("defined(%s)" % rest)
            elif k == "ifndef":
                stack.append("!defined(%s)" % rest)
            elif k == "if":
                stack.append("(%s)" % rest)
            elif k == "elif":
                if not stack:
                    raise ShapeError("#elif without #if")
                stack[-1] = "!%s && (%s)" % (stack[-1], rest)
            elif k == "else":
                if not stack:
                    raise ShapeError("#else without #if")
                stack[-1] = "!" + stack[-1]
            elif k == "endif":
                if not stack:
                    raise ShapeError("#endif without #if")
                stack.pop()
            elif k == "define":
                mm = re.match(r"(\w+)\(([^)]*)\)\s*(.*)", rest)
                if mm and rest[len(mm.group(1))] == "(":
                    macros[mm.group(1)] = ([p.strip() for p in mm.group(2).split(",") if p.strip()], mm.group(3))
                else:
                    mm = re.match(r"(\w+)\s*(.*)", rest)
                    if mm:
                        macros[mm.group(1)] = (None, mm.group(2))
            out.append("")
        else:
            out.append(ln)
        conds.append(" && ".join(stack))
    if stack:
        raise ShapeError("unterminated #if")
    return out, conds, macros


def expand_function_macros(lines, macros):
    """Top-level invocations `NAME(args)` alone on a line, for macros whose body defines a function."""
    res = []
    n_expanded = {}
    for ln in lines:
        m = re.match(r"^\s*([A-Z][A-Z0-9_]+)\(([^()]*)\)\s*;?\s*$", ln)
        if m and m.group(1) in macros and macros[m.group(1)][0] is not None and "{" in macros[m.group(1)][1]:
            params, body = macros[m.group(1)]
            args = [a.strip() for a in m.group(2).split(",")]
            if len(args) != len(params):
                raise ShapeError("macro %s arity" % m.group(1))
            for p, a in zip(params, args):
                body = re.sub(r"\s*##\s*%s\b" % re.escape(p), a, body)
                body = re.sub(r"\b%s\s*##\s*" % re.escape(p), a, body)
                body = re.sub(r"\b%s\b" % re.escape(p), a, body)
            res.append(body)   # stays on ONE line, so line -> cond mapping is preserved
            n_expanded[m.group(1)] = n_expanded.get(m.group(1), 0) + 1
        else:
            res.append(ln)
    return res, n_expanded


def match_brace(txt, i, open_c="{", close_c="}"):
    """txt[i] == open_c; returns index of the matching close. Skips string/char literals."""
    depth, n = 0, len(txt)
    j = i
    while j < n:
        c = txt[j]
        if c == '"' or c == "'":
            k = j + 1
            while k < n and txt[k] != c:
                if txt[k] == "\\":
                    k += 1
                k += 1
            j = k + 1
            continue
        if c == open_c:
            depth += 1
        elif c == close_c:
            depth -= 1
            if depth == 0:
                return j
        j += 1
    raise ShapeError("unbalanced %s at %d" % (open_c, i))


def extern_c_regions(txt):
    regs = []
    for m in re.finditer(r'extern\s+"C"\s*\{', txt):
        if any(a <= m.start() < b for a, b in regs):
            continue
        a = m.end() - 1
        b = match_brace(txt, a)
        regs.append((a + 1, b))
    return regs


def top_level_items(txt, a, b):
    """Yield (header, body, header_start) for brace blocks at depth 0 of txt[a:b]; `extern "C++" {}` skipped."""
    i = a
    start = a
    while i < b:
        c = txt[i]
        if c == '"' or c == "'":
            k = i + 1
            while k < b and txt[k] != c:
                if txt[k] == "\\":
                    k += 1
                k += 1
            i = k + 1
            continue
        if c == ";":
            start = i + 1
        elif c == "{":
            j = match_brace(txt, i)
            yield txt[start:i], txt[i + 1:j], start
            i = j
            start = j + 1
        i += 1


def ret_class(ret):
    r = ret.strip()
    if r == "CWRAPPER_OUTPUT_TYPE":
        return "code"
    if r == "void":
        return "void"
    if "*" in r:
        return "ptr"
    if r == "int":
        return "int"
    return "other"


def strip_asserts(body):
    n = 0
    while True:
        m = re.search(r"\bSYMENGINE_ASSERT\s*\(", body)
        if not m:
            return body, n
        j = match_brace(body, m.end() - 1, "(", ")")
        k = j + 1
        while k < len(body) and body[k] in " \t\n":
            k += 1
        if k < len(body) and body[k] == ";":
            k += 1
        body = body[:m.start()] + " " + body[k:]
        n += 1


CALL_RE = re.compile(r"(?P<prev>[A-Za-z_][\w:]*(?:<[^;(){}]*?>)?[\s&*]+)?(?P<name>~?[A-Za-z_]\w*(?:::~?[A-Za-z_]\w*)*)\s*"
                     r"(?P<targs><[^;(){}]*?>)?\s*\(")


def callees_of(text):
    """Identifiers applied to an argument list, plus new/delete and comparison pseudo-callees."""
    found = []

    def add(x):
        x = x.split("::")[-1]
        if x and x not in KEYWORDS and x not in found:
            found.append(x)
    # string literals cannot contain calls; the wrapper macros are statement boundaries, not types
    text = re.sub(r'"(?:\\.|[^"\\])*"', '""', text)
    text = re.sub(r"\bCWRAPPER_(BEGIN|END)\b", ";", text)
    for m in re.finditer(r"\bnew\b\s*(\([^)]*\)\s*)?((?:\w+::)*\w+)\s*(\[)?", text):
        add("new[]" if m.group(3) else ("placement_new" if m.group(1) else "new"))
        if not m.group(3):
            add("ctor:" + m.group(2).split("::")[-1])
    for m in re.finditer(r"\bdelete\b\s*(\[\s*\])?", text):
        add("delete[]" if m.group(1) else "delete")
    pos = 0
    while True:
        m = CALL_RE.search(text, pos)
        if not m:
            break
        name = m.group("name")
        prev = (m.group("prev") or "").strip().rstrip("&*").strip()
        pos = m.end() - 1 if m.group("prev") is None else m.start("name") + len(name)
        last = name.split("::")[-1]
        if last in KEYWORDS or last in ("new", "delete", "sizeof", "alignof"):
            continue
        if re.search(r"\bnew\s*(\([^)]*\)\s*)?(\w+::)*$", text[:m.start("name")]):
            continue        # constructor after `new`: already recorded as ctor:<Type>
        prevword = re.sub(r"<.*", "", prev).split("::")[-1] if prev else ""
        if prev and prevword not in NON_DECL_PREV and prevword not in KEYWORDS and re.match(r"^[A-Za-z_]", prev):
            # `Type var(args)` : a declaration with constructor arguments
            add("ctor:" + prevword)
            continue
        add(last)
    if re.search(r"[^=!<>]==[^=]", text):
        add("op==")
    if "!=" in text:
        add("op!=")
    if re.search(r"\[[^\]]+\]", text):
        add("op[]")
    return found


def qualify_members(body, params, struct_members):
    """`self->m.init(` with `CLambdaRealDoubleVisitor *self`  ->  `LambdaRealDoubleVisitor__init(`;
    `(lhs->m) == (rhs->m)` -> a call of `<T>__op_eq(`."""
    var_type = {}
    for p in params.split(","):
        toks = re.findall(r"\w+", p)
        if len(toks) >= 2:
            for t in toks[:-1]:
                if t in struct_members:
                    var_type[toks[-1]] = struct_members[t]

    def rep(m):
        t = var_type.get(m.group(1))
        return "%s__%s(" % (t, m.group(2)) if t else m.group(0)
    body = re.sub(r"\b(\w+)->m\.(~?\w+)\s*(?:<[^;(){}]*?>)?\s*\(", rep, body)

    def rep_eq(m):
        t = var_type.get(m.group(1))
        return "%s__op_eq(%s, %s)" % (t, m.group(1), m.group(2)) if t else m.group(0)
    body = re.sub(r"\(\s*(\w+)->m\s*\)\s*==\s*\(\s*(\w+)->m\s*\)", rep_eq, body)
    return body


def parse_structs(txt):
    """struct CName { <type> m; };  ->  {CName: last component of <type>}"""
    out = {}
    for m in re.finditer(r"\bstruct\s+(\w+)\s*\{\s*([\w:<>\s,]+?)\s+(\w+)\s*;\s*\}\s*;", txt):
        if m.group(3) == "m":
            out[m.group(1)] = re.sub(r"<.*", "", m.group(2)).split("::")[-1].strip()
    return out


def refs_of(text):
    """`SymEngine::name` used as a value (constants such as SymEngine::zero), not called."""
    out = []
    for m in re.finditer(r"\bSymEngine::([A-Za-z_]\w*)\b(?!\s*(?:\(|<|::))", text):
        if m.group(1) not in out:
            out.append(m.group(1))
    return out


def analyse_body(body, params="", struct_members=None):
    body, n_assert = strip_asserts(body)
    body = qualify_members(body, params, struct_members or {})
    nb = len(re.findall(r"\bCWRAPPER_BEGIN\b", body))
    ne = len(re.findall(r"\bCWRAPPER_END\b", body))
    wrapped = False
    catch_all = False
    unguarded = body
    if nb or ne:
        if nb != 1 or ne != 1:
            raise ShapeError("CWRAPPER_BEGIN/END not paired 1:1")
        ib = body.index("CWRAPPER_BEGIN")
        ie = body.index("CWRAPPER_END")
        if ie < ib or body[ie + len("CWRAPPER_END"):].strip() != "":
            raise ShapeError("code after CWRAPPER_END or END before BEGIN")
        wrapped = True
        unguarded = body[:ib]
    else:
        # explicit try { ... } catch (...) { ... } regions
        pieces = []
        pos = 0
        for m in re.finditer(r"\btry\s*\{", body):
            if m.start() < pos:
                continue
            j = match_brace(body, m.end() - 1)
            k = j + 1
            handlers = []
            while True:
                mm = re.match(r"\s*catch\s*\(([^)]*)\)\s*\{", body[k:])
                if not mm:
                    break
                hb = k + mm.end() - 1
                he = match_brace(body, hb)
                handlers.append((mm.group(1).strip(), body[hb + 1:he]))
                k = he + 1
            if any(h[0] == "..." for h in handlers):
                catch_all = True
                pieces.append(body[pos:m.start()])
                pieces.extend(h[1] for h in handlers)     # handler bodies run unguarded
                pos = k
        pieces.append(body[pos:])
        unguarded = " ; ".join(pieces)
    return dict(wrapped=wrapped, catch_all=catch_all, asserts=n_assert,
                unguarded=callees_of(unguarded), callees=callees_of(body), refs=refs_of(body))


def parse_functions(cpp_text):
    lines, conds, macros = preprocess(cpp_text)
    lines, n_exp = expand_function_macros(lines, macros)
    txt = "\n".join(lines)
    line_of = [0]
    for i, c in enumerate(txt):
        line_of.append(line_of[-1] + (1 if c == "\n" else 0))
    funs = []
    struct_members = parse_structs(txt)
    regs = extern_c_regions(txt)
    if len(regs) < 1:
        raise ShapeError('no extern "C" block in cwrapper.cpp')
    for a, b in regs:
        for header, body, hs in top_level_items(txt, a, b):
            h = header.strip()
            if re.match(r'^(struct|extern|namespace|class|enum|union)\b', h) or "(" not in h:
                continue
            m = re.match(r"^(?P<ret>[\w\s\*:&<>,]+?)\s*\**\s*\b(?P<name>\w+)\s*\((?P<params>[^{}]*)\)\s*$", h, re.S)
            if not m:
                raise ShapeError("cannot parse function header: %r" % h[:120])
            ret = h[:h.index(m.group("name"))].strip()
            name = m.group("name")
            # line of the name -> preprocessor condition
            pos = hs + header.index(name)
            cond = conds[line_of[pos]]
            info = analyse_body(body, m.group("params"), struct_members)
            info.update(name=name, ret=ret, ret_class=ret_class(ret), cond=cond,
                        nparams=0 if m.group("params").strip() in ("", "void") else m.group("params").count(",") + 1)
            funs.append(info)
    return funs, macros, n_exp


def parse_catch_clauses(macros):
    if "CWRAPPER_BEGIN" not in macros or "CWRAPPER_END" not in macros:
        raise ShapeError("CWRAPPER_BEGIN/CWRAPPER_END macros not found")
    if re.sub(r"\s+", "", macros["CWRAPPER_BEGIN"][1]) != "try{":
        raise ShapeError("CWRAPPER_BEGIN is not `try {`: %r" % macros["CWRAPPER_BEGIN"][1])
    end = macros["CWRAPPER_END"][1]
    m = re.match(r"\s*return\s+(\w+)\s*;\s*\}(.*)$", end, re.S)
    if not m:
        raise ShapeError("CWRAPPER_END does not start with `return <code>; }`")
    ok_code = m.group(1)
    rest = m.group(2)
    clauses = []
    for mm in re.finditer(r"catch\s*\(\s*([^)]*?)\s*\)\s*\{\s*return\s+([^;]+);\s*\}", rest):
        ty = re.sub(r"\s*&\s*\w*$", "", mm.group(1)).strip()
        ty = ty.split("::")[-1]
        clauses.append((ty, re.sub(r"\s+", "", mm.group(2))))
    leftover = re.sub(r"catch\s*\(\s*([^)]*?)\s*\)\s*\{\s*return\s+([^;]+);\s*\}", "", rest).strip()
    if leftover or not clauses:
        raise ShapeError("CWRAPPER_END has unexpected shape: %r" % leftover[:80])
    return ok_code, clauses


def parse_exceptions(h_text):
    t = strip_comments(h_text)
    m = re.search(r"typedef\s+enum\s*\{(.*?)\}\s*symengine_exceptions_t\s*;", t, re.S)
    if not m:
        raise ShapeError("enum symengine_exceptions_t not found")
    enum = []
    nxt = 0
    for item in m.group(1).split(","):
        item = item.strip()
        if not item:
            continue
        mm = re.match(r"(\w+)\s*(?:=\s*(\d+))?$", item)
        if not mm:
            raise ShapeError("enum item %r" % item)
        v = int(mm.group(2)) if mm.group(2) is not None else nxt
        enum.append((mm.group(1), v))
        nxt = v + 1
    classes = []
    for mm in re.finditer(r"class\s+(\w+)\s*:\s*public\s+((?:\w+::)*\w+)\s*\{", t):
        name, base = mm.group(1), mm.group(2).split("::")[-1]
        a = mm.end() - 1
        b = match_brace(t, a)
        body = t[a:b]
        codes = []
        # constructors: Name(args) : Base(msg, CODE)   or   Name(args) : Name(msg, CODE) (delegating)
        for c in re.finditer(r"\b%s\s*\(([^)]*)\)\s*:\s*(\w+)\s*\(([^)]*)\)" % re.escape(name), body):
            init_args = [x.strip() for x in c.group(3).split(",")]
            params = c.group(1)
            if c.group(2) in (base, name) and len(init_args) == 2 and re.match(r"^[A-Z_]+$", init_args[1]):
                codes.append(init_args[1])
            elif "symengine_exceptions_t" in params:
                codes.append("*")     # code chosen by the caller
        if not codes:
            raise ShapeError("exception class %s: no constructor code found" % name)
        classes.append((name, base, codes))
    if not any(c[0] == "SymEngineException" for c in classes):
        raise ShapeError("SymEngineException class not found")
    return enum, classes


def parse_expression_ops(h_text):
    """Members / friends / free functions of expression.h that forward to one core function."""
    t = join_continuations(strip_comments(h_text))
    t = "\n".join("" if l.strip().startswith("#") else l for l in t.split("\n"))
    m = re.search(r"\bclass\s+Expression\s*\{", t)
    if not m:
        raise ShapeError("class Expression not found")
    a = m.end() - 1
    b = match_brace(t, a)
    cls = t[a + 1:b]
    ops = []

    def kind(p):
        p = p.strip()
        if re.search(r"\bExpression\b", p):
            return "E"
        if "RCP<const Symbol>" in p.replace(" ", "").replace("RCP<constSymbol>", "RCP<const Symbol>") or "Symbol" in p:
            return "S"
        if "RCP" in p and "Basic" in p:
            return "B"
        if "map_basic_basic" in p:
            return "M"
        if re.match(r"^bool\b", p):
            return "b"
        return "?"

    def param_names(params):
        names = []
        for p in params.split(","):
            p = p.strip()
            if not p:
                continue
            p = re.sub(r"=.*$", "", p).strip()
            names.append(re.findall(r"\w+", p)[-1])
        return names

    def split_args(a):
        out, depth, cur = [], 0, ""
        for ch in a:
            if ch in "(<{":
                depth += 1
            elif ch in ")>}":
                depth -= 1
            if ch == "," and depth == 0:
                out.append(cur.strip())
                cur = ""
            else:
                cur += ch
        if cur.strip():
            out.append(cur.strip())
        return out

    def norm_arg(arg):
        arg = arg.replace("*", "").strip()
        if arg in ("m_basic", "this", "get_basic()"):
            return "self"
        mm = re.match(r"^(\w+)\.(?:m_basic|get_basic\(\))$", arg)
        if mm:
            return mm.group(1)
        return arg

    def analyse(name, params, body, member):
        ps = [p for p in params.split(",") if p.strip()]
        kinds = "".join(kind(p) for p in ps)
        pn = param_names(params)
        body1 = re.sub(r"\s+", " ", body).strip()
        core, order = None, []
        # special shapes first
        if re.fullmatch(r"Expression retval\(\*this\); retval \*= -1; return retval;", body1):
            core, order = "mul", ["self", "-1"]          # via operator*=(Expression(-1))
        elif re.fullmatch(r"return not ?\(\*this == other\);", body1):
            core, order = "not operator==", ["self", "other"]
        else:
            mm = re.search(r"(?:return\s+(?:Expression\s*\()?|m_basic\s*=\s*)\s*((?:SymEngine::)?[a-z_]\w*|m_basic->\w+)\s*\(", body1)
            if mm:
                j = match_brace(body1, mm.end() - 1, "(", ")")
                tail = body1[j + 1:].strip()
                if tail not in (";", ");", "; return *this;"):
                    raise ShapeError("Expression %s: unexpected code after the core call: %r" % (name, tail))
                core = mm.group(1).replace("SymEngine::", "")
                order = [norm_arg(a) for a in split_args(body1[mm.end():j])]
                if core.startswith("m_basic->"):
                    core = core[len("m_basic->"):]
                    order = ["self"] + order
        return dict(op=name, member=member, kinds=kinds, params=pn, core=core, args=order, body=body1)

    for header, body, hs in top_level_items(cls, 0, len(cls)):
        h = re.sub(r"\s+", " ", header).strip()
        h = re.sub(r"^(public|private|protected)\s*:\s*", "", h)
        mm = re.search(r"(operator\s*(?:\+=|-=|\*=|/=|==|!=|\+|-|\*|/)|\b(?:diff|subs)\b)\s*\(([^)]*)\)\s*(const)?\s*$", h)
        if not mm or h.startswith("template"):
            continue
        name = re.sub(r"\s+", "", mm.group(1))
        member = not h.startswith("friend")
        ops.append(analyse(name, mm.group(2), body, member))
    rest = t[b:]
    for mm in re.finditer(r"inline\s+Expression\s+(\w+)\s*\(([^)]*)\)\s*\{", rest):
        hb = mm.end() - 1
        he = match_brace(rest, hb)
        ops.append(analyse(mm.group(1), mm.group(2), rest[hb + 1:he], False))
    return ops


def name_hash(s):
    """Must agree with `SymVerif.CApi.nameHash` (Model/CApi.lean); a disagreement makes lookups fail (safe)."""
    h = 7
    for ch in s:
        h = (h * 131 + ord(ch)) % 2305843009213693951
    return h


def lean_str(s):
    return '"' + s.replace("\\", "\\\\").replace('"', '\\"') + '"'


def lean_list(items):
    return "[" + ", ".join(items) + "]"


def fn(repo: Path, gen_dir: Path) -> dict:
    repo = Path(repo)
    cpp = (repo / "symengine" / "cwrapper.cpp").read_text()
    hdr = (repo / "symengine" / "cwrapper.h").read_text()
    exc = (repo / "symengine" / "symengine_exception.h").read_text()
    exh = (repo / "symengine" / "expression.h").read_text()

    funs, macros, n_exp = parse_functions(cpp)
    if len(funs) < 150:
        raise ShapeError("only %d C API functions found (expected > 150)" % len(funs))
    names = [f["name"] for f in funs]
    if len(set(names)) != len(names):
        raise ShapeError("duplicate function definitions: %s" % sorted(n for n in set(names) if names.count(n) > 1))
    ok_code, clauses = parse_catch_clauses(macros)
    enum, classes = parse_exceptions(exc)
    ops = parse_expression_ops(exh)
    if len(ops) < 20:
        raise ShapeError("only %d Expression operators found" % len(ops))
    for o in ops:
        if o["core"] is None or "?" in o["kinds"]:
            raise ShapeError("Expression %s(%s): no forwarded core call recognised in %r" % (o["op"], o["kinds"], o["body"]))
    # header cross-check: every definition is declared in cwrapper.h
    hdr_clean = strip_comments(hdr)
    declared = {n: bool(re.search(r"\b%s\s*\(" % re.escape(n), hdr_clean)) for n in names}
    if "typedef symengine_exceptions_t CWRAPPER_OUTPUT_TYPE;" not in re.sub(r"\s+", " ", hdr_clean):
        raise ShapeError("CWRAPPER_OUTPUT_TYPE is no longer a typedef of symengine_exceptions_t")

    L = []
    L.append("/- GENERATED by tools/extract/c42_capi.py from symengine/cwrapper.cpp, symengine_exception.h,")
    L.append("   expression.h.  Do not edit; regenerated on every check run. -/")
    L.append("namespace SymVerif.Gen.CApi")
    L.append("")
    L.append("inductive RetClass where")
    L.append("  | code | void | int | ptr | other")
    L.append("  deriving DecidableEq, Repr")
    L.append("")
    L.append("structure CFun where")
    L.append("  name : String")
    L.append("  /-- polynomial hash of `name` (fast lookups inside the kernel; always confirmed by a string comparison) -/")
    L.append("  nameH : Nat")
    L.append("  ret : RetClass")
    L.append("  /-- whole body (after unguarded pre-statements) is CWRAPPER_BEGIN … CWRAPPER_END -/")
    L.append("  wrapped : Bool")
    L.append("  /-- has its own `try { } catch (...)` -/")
    L.append("  catchAll : Bool")
    L.append("  declared : Bool")
    L.append("  asserts : Nat")
    L.append("  cond : String")
    L.append("  /-- identifiers applied outside every catch-all region -/")
    L.append("  unguarded : List String")
    L.append("  /-- the same list as indices into `unguardedIdents` -/")
    L.append("  unguardedIx : List Nat")
    L.append("  callees : List String")
    L.append("  /-- `SymEngine::name` values referenced without a call (constants) -/")
    L.append("  refs : List String")
    L.append("")
    idents = []
    for f in funs:
        for c in f["unguarded"]:
            if c not in idents:
                idents.append(c)
    L.append("/-- every identifier applied outside a catch-all region somewhere in the file -/")
    L.append("def unguardedIdents : List String := %s" % lean_list(lean_str(c) for c in idents))
    L.append("")
    for i, f in enumerate(funs):
        L.append("def f%d : CFun := ⟨%s, %d, .%s, %s, %s, %s, %d, %s,\n  %s, %s,\n  %s, %s⟩" % (
            i, lean_str(f["name"]), name_hash(f["name"]), f["ret_class"], str(f["wrapped"]).lower(), str(f["catch_all"]).lower(),
            str(declared[f["name"]]).lower(), f["asserts"], lean_str(f["cond"]),
            lean_list(lean_str(c) for c in f["unguarded"]), lean_list(str(idents.index(c)) for c in f["unguarded"]),
            lean_list(lean_str(c) for c in f["callees"]),
            lean_list(lean_str(c) for c in f["refs"])))
    L.append("")
    L.append("def cApi : List CFun := [")
    for i in range(0, len(funs), 12):
        L.append("  " + ", ".join("f%d" % j for j in range(i, min(i + 12, len(funs)))) + ("," if i + 12 < len(funs) else ""))
    L.append("]")
    L.append("")
    L.append("/-- `CWRAPPER_END`: value returned on normal completion -/")
    L.append("def okCode : String := %s" % lean_str(ok_code))
    L.append("/-- `CWRAPPER_END` catch clauses in order: (caught type, returned expression) -/")
    L.append("def catchClauses : List (String × String) := %s" % lean_list(
        "(%s, %s)" % (lean_str(a), lean_str(b)) for a, b in clauses))
    L.append("/-- enum symengine_exceptions_t -/")
    L.append("def excEnum : List (String × Nat) := %s" % lean_list("(%s, %d)" % (lean_str(a), b) for a, b in enum))
    L.append("/-- exception classes: (class, base, codes passed to the base constructor; \"*\" = caller supplied) -/")
    L.append("def excClasses : List (String × String × List String) := %s" % lean_list(
        "(%s, %s, %s)" % (lean_str(a), lean_str(b), lean_list(lean_str(c) for c in cs)) for a, b, cs in classes))
    L.append("")
    L.append("structure ExprOp where")
    L.append("  op : String")
    L.append("  /-- operand kinds: E Expression, B RCP<const Basic>, S RCP<const Symbol>, M map_basic_basic -/")
    L.append("  kinds : String")
    L.append("  member : Bool")
    L.append("  /-- core function the body forwards to (\"\" if none recognised) -/")
    L.append("  core : String")
    L.append("  /-- arguments of the core call, in order (`self` = m_basic of *this) -/")
    L.append("  args : List String")
    L.append("  params : List String")
    L.append("  deriving DecidableEq, Repr")
    L.append("")
    L.append("def exprOps : List ExprOp := [")
    for i, o in enumerate(ops):
        L.append("  ⟨%s, %s, %s, %s, %s, %s⟩%s" % (
            lean_str(o["op"]), lean_str(o["kinds"]), str(o["member"]).lower(), lean_str(o["core"] or ""),
            lean_list(lean_str(a) for a in o["args"]), lean_list(lean_str(a) for a in o["params"]),
            "," if i + 1 < len(ops) else ""))
    L.append("]")
    L.append("")
    L.append("end SymVerif.Gen.CApi")
    out = gen_dir / "CApi.lean"
    new = "\n".join(L) + "\n"
    if not out.exists() or out.read_text() != new:
        out.write_text(new)
    return dict(translator="c42_capi", functions=len(funs), wrapped=sum(f["wrapped"] for f in funs),
                own_catch_all=sum(f["catch_all"] for f in funs),
                unwrapped=[f["name"] for f in funs if not f["wrapped"] and not f["catch_all"]].__len__(),
                macro_expansions=n_exp, catch_clauses=clauses, exception_classes=len(classes),
                expression_ops=len(ops), undeclared=[n for n in names if not declared[n]])


if __name__ == "__main__":
    import json
    import sys
    r = fn(Path(sys.argv[1] if len(sys.argv) > 1 else "/repo"), Path(sys.argv[2] if len(sys.argv) > 2 else "/tmp"))
    print(json.dumps(r, indent=1))
