"""C41 translator: symengine/**/*.{h,cpp} (+ the thread-safe library's symbol table when it is built)
    ->  lean/SymVerif/Gen/Statics.lean

 (i)  `refcount_` (symengine_rcp.h) and `hash_` (basic.h) are `std::atomic<…>` under
      WITH_SYMENGINE_THREAD_SAFE; `Basic::hash()` (basic-inl.h) has the load / compute / store / load
      shape the model mirrors; every dictionary steal (see c40_rcp.steal_sites) is compiled only under
      `#if !defined(WITH_SYMENGINE_THREAD_SAFE)`.
 (ii) every object with static storage duration that is *not const* (namespace scope, class static,
      function-local static) in the library sources, as compiled in the thread-safe configuration
      (`#ifdef WITH_SYMENGINE_THREAD_SAFE` branches evaluated), is listed and compared with the
      justified allow-list below.  A mutable static that is not on the list makes the Lean theorem
      `C41.statics_ok` fail (tie broken, kind P); a source that no longer has the expected shape makes
      this translator raise (kind T).  When .build/impl-threadsafe/symengine/libsymengine.a exists,
      its data/bss symbols in namespace SymEngine are cross-checked against the names found by the
      source scan (a global the regular expressions cannot see would show up there).
"""
import re
import subprocess
from pathlib import Path

from c40_rcp import ShapeError, strip_comments, norm, cpp_conditionals, steal_sites

# (name, file) -> (status, justification).  status: safe | unsafeExcluded
ALLOW = {
    ("nifty_counter", "constants.cpp"): ("safe", "constants.cpp: std::atomic<int> in thread-safe builds; touched only by static "
                              "initialisers/destructors of translation units"),
    ("n##_buf", "constants.cpp"): ("safe", "constants.cpp DEFINE_CONSTANT: storage of the global constants (zero, one, pi, ...), written "
                        "exactly once by the first ConstantInitializer during static initialisation, before any user "
                        "thread exists; afterwards only the atomic count/hash fields of the pointees change"),
    ("constantInitializer", "basic-inl.h"): ("safe", "basic-inl.h: one empty object per translation unit (nifty counter idiom)"),
    ("count_", "symbol.h"): ("safe", "symbol.h Dummy::count_: std::atomic<size_t> in thread-safe builds, fetch_add"),
    ("evaluate_infty", "infinity.cpp"): ("safe", "stateless dispatcher object, C++11 thread-safe local static initialisation"),
    ("evaluate_NaN", "nan.cpp"): ("safe", "stateless dispatcher object, C++11 thread-safe local static initialisation"),
    ("evaluate_real_double", "real_double.cpp"): ("safe", "stateless dispatcher object, C++11 thread-safe local static initialisation"),
    ("evaluate_complex_double", "real_double.cpp"): ("safe", "stateless dispatcher object, C++11 thread-safe local static initialisation"),
    ("evaluate_mpfr", "real_mpfr.cpp"): ("safe", "stateless dispatcher object (MPFR builds only)"),
    ("evaluate_mpc", "complex_mpc.cpp"): ("safe", "stateless dispatcher object (MPC builds only)"),
    ("primes", "prime_sieve.cpp"): ("unsafeExcluded", "prime_sieve.cpp: the process-global prime table is extended and cleared without "
                                 "synchronisation; number-theory functions are NOT among C41's operations"),
    ("_sieve_size", "prime_sieve.h"): ("unsafeExcluded", "prime_sieve.h Sieve::_sieve_size: plain global, see `primes`"),
    ("_clear", "prime_sieve.h"): ("unsafeExcluded", "prime_sieve.h Sieve::_clear: plain global, see `primes`"),
    ("steps", "series.h"): ("unsafeExcluded", "series.h Series::step_list: function-local static std::list cleared and refilled "
                                "without synchronisation and returned by reference (a data race between two threads "
                                "expanding series, reported as a defect); series expansion is NOT among C41's operations"),
    ("names", "cwrapper.cpp"): ("unsafeExcluded", "cwrapper.cpp basic_get_class_id / basic_get_class_from_id: non-const static std::map "
                                "read with operator[] (inserts on an unknown key); C API helper, not among C41's operations"),
}

DECL = re.compile(r"^\s*(?:(?:const|constexpr|inline|thread_local|static|mutable)\s+)*"
                  r"(?:static|thread_local)\b(?!_)")


def source_files(repo):
    root = repo / "symengine"
    out = []
    for p in sorted(root.rglob("*")):
        if p.suffix not in (".h", ".hpp", ".cpp", ".inc"):
            continue
        rel = p.relative_to(root)
        if rel.parts[0] in ("utilities", "tests"):
            continue
        out.append(p)
    return out


def thread_safe_active(stack):
    """False if the line is compiled out when WITH_SYMENGINE_THREAD_SAFE is defined."""
    for c in stack:
        neg = c.startswith("ELSE-OF ")
        body = c[len("ELSE-OF "):] if neg else c
        m_def = re.search(r"#\s*ifdef\s+WITH_SYMENGINE_THREAD_SAFE|#\s*if\s+defined\s*\(\s*WITH_SYMENGINE_THREAD_SAFE\s*\)\s*$",
                          body)
        m_ndef = re.search(r"#\s*ifndef\s+WITH_SYMENGINE_THREAD_SAFE|#\s*if\s+!\s*defined\s*\(\s*WITH_SYMENGINE_THREAD_SAFE\s*\)",
                           body)
        if m_def and neg:
            return False
        if m_ndef and not neg:
            return False
    return True


def strip_templates(s):
    prev = None
    while prev != s:
        prev = s
        s = re.sub(r"<[^<>]*>", " ", s)
    return s


def constant_names(repo):
    """names defined through DEFINE_CONSTANT(type, name, init) in constants.cpp (global references to n##_buf)"""
    src = strip_comments((repo / "symengine" / "constants.cpp").read_text())
    names = re.findall(r"DEFINE_CONSTANT\(\s*\w+\s*,\s*(\w+)\s*,", src)
    names = [n for n in names if n != "n"]
    if len(names) < 20:
        raise ShapeError("constants.cpp: DEFINE_CONSTANTS list not found")
    if norm("RCP<const t> &n = reinterpret_cast<RCP<const t> &>(n##_buf);") not in norm(src):
        raise ShapeError("constants.cpp: DEFINE_CONSTANT no longer defines a reference to static storage")
    return names


def scan_statics(repo):
    found = []  # (name, file, line, mutable, text)
    for f in source_files(repo):
        src = strip_comments(f.read_text(errors="replace"))
        lines = src.splitlines()
        conds = cpp_conditionals(lines)
        for i, l in enumerate(lines):
            if not DECL.match(l) or "static_cast" in l.split("=")[0] or "static_assert" in l:
                continue
            if not thread_safe_active(conds[i]):
                continue
            # the declaration text up to the initialiser / end
            stmt = l
            j = i
            while not re.search(r"[;={]", strip_templates(stmt)) and j + 1 < len(lines) and j < i + 8:
                j += 1
                stmt += " " + lines[j]
            head = re.split(r"[;={]", strip_templates(stmt), 1)[0]
            if "(" in head:
                continue  # a function declaration / definition (no static object here is declared with `name(args)`)
            if re.search(r"\b(struct|class|union|enum)\b", head) and "{" in stmt and not head.strip().endswith("}"):
                # `static struct X { … } name;` : name follows the closing brace
                k = j
                depth = stmt.count("{") - stmt.count("}")
                while depth > 0 and k + 1 < len(lines):
                    k += 1
                    depth += lines[k].count("{") - lines[k].count("}")
                m = re.search(r"\}\s*(\w+)\s*;", lines[k])
                if not m:
                    continue
                name = m.group(1)
                found.append((name, str(f.relative_to(repo / "symengine")), i + 1, True, l.strip()))
                continue
            m = re.search(r"([\w#]+)\s*(?:\[[^\]]*\])?\s*$", head.strip())
            if not m:
                raise ShapeError("cannot parse static declaration %s:%d: %s" % (f, i + 1, l.strip()))
            name = m.group(1)
            words = re.findall(r"\b\w+\b", head)
            const = "const" in words or "constexpr" in words
            tl = "thread_local" in words
            if name in ("value",) and const:
                continue
            found.append((name, str(f.relative_to(repo / "symengine")), i + 1, not const and not tl, l.strip()))
    return found


def check_atomics(repo):
    rcp = norm(strip_comments((repo / "symengine" / "symengine_rcp.h").read_text()))
    basic = norm(strip_comments((repo / "symengine" / "basic.h").read_text()))
    inl = norm(strip_comments((repo / "symengine" / "basic-inl.h").read_text()))
    rc = norm("#if defined(WITH_SYMENGINE_THREAD_SAFE) mutable std::atomic<unsigned int> refcount_;") in rcp
    hs = norm("#if defined(WITH_SYMENGINE_THREAD_SAFE) mutable std::atomic<hash_t> hash_;") in basic
    shape = norm("inline hash_t Basic::hash() const { if (hash_ == 0) hash_ = __hash__(); return hash_; }") in inl
    if not shape:
        raise ShapeError("basic-inl.h: Basic::hash() no longer has the modelled load/compute/store/load shape")
    # no other writer of hash_
    writers = []
    for f in source_files(repo):
        for i, l in enumerate(strip_comments(f.read_text(errors="replace")).splitlines()):
            if re.search(r"\bhash_\s*(=[^=]|\+\+|--|\+=|\{)", l) and f.name not in ("basic-inl.h",):
                if re.search(r"hash_\{0\}|hash_\s*\{\s*0\s*\}", l) or "std::atomic<hash_t> hash_" in l or "hash_t hash_;" in l:
                    continue
                writers.append("%s:%d" % (f.name, i + 1))
    if writers:
        raise ShapeError("hash_ is written outside Basic::hash(): " + ", ".join(writers))
    return rc, hs


def nm_crosscheck(repo, names):
    import os
    root = Path(os.environ.get("VERIF_BUILD_ROOT", str(Path(__file__).resolve().parents[2] / ".build")))
    lib = root / "impl-threadsafe" / "symengine" / "libsymengine.a"
    if not lib.exists():
        return dict(done=False)
    p = subprocess.run(["nm", "-C", "--defined-only", str(lib)], stdout=subprocess.PIPE, stderr=subprocess.DEVNULL,
                       text=True, errors="replace")
    unknown = set()
    n = 0
    for line in p.stdout.splitlines():
        m = re.match(r"^[0-9a-f]+\s+([bBdDuVsSgG])\s+(.*)$", line)
        if not m:
            continue
        sym = m.group(2)
        if not re.search(r"SymEngine::|^basic_|^C\w+::", sym):
            continue
        if re.match(r"(guard variable|vtable|typeinfo|VTT|construction vtable|DW\.ref)", sym):
            continue
        n += 1
        base = re.split(r"::", re.sub(r"\[abi:\w+\]", "", re.sub(r"\([^()]*(\([^()]*\)[^()]*)*\)( const)?", "", sym)))[-1].strip()
        base = re.sub(r"<.*$", "", base)
        if base.endswith("_buf"):
            base = "n##_buf"
        if base not in names:
            unknown.add(sym)
    if unknown:
        raise ShapeError("data symbols of the thread-safe library not found by the source scan: "
                         + "; ".join(sorted(unknown))[:1500])
    return dict(done=True, data_symbols=n)


def lean_str(s):
    return '"' + s.replace("\\", "\\\\").replace('"', '\\"') + '"'


def fn(repo: Path, gen_dir: Path) -> dict:
    rc, hs = check_atomics(repo)
    sites = steal_sites(repo)
    steal_out = all(t for _, _, _, t, _ in sites) and len(sites) > 0
    found = scan_statics(repo)
    mutable = sorted({(n, f) for n, f, _, mut, _ in found if mut})
    allnames = {n for n, _, _, _, _ in found}
    nm = nm_crosscheck(repo, allnames | set(constant_names(repo)))
    txt = ["/- generated by tools/extract/c41_statics.py from the working tree; do not edit -/",
           "namespace SymVerif.Gen.Statics", "",
           "/-- `refcount_` is `std::atomic<unsigned int>` under WITH_SYMENGINE_THREAD_SAFE -/",
           "def refcountAtomic : Bool := %s" % ("true" if rc else "false"),
           "/-- `hash_` is `std::atomic<hash_t>` under WITH_SYMENGINE_THREAD_SAFE -/",
           "def hashAtomic : Bool := %s" % ("true" if hs else "false"),
           "/-- every dictionary-steal site is under `#if !defined(WITH_SYMENGINE_THREAD_SAFE)` -/",
           "def stealCompiledOut : Bool := %s" % ("true" if steal_out else "false"), "",
           "/-- non-const objects with static storage duration in the thread-safe configuration: (name, file) -/",
           "def mutableStatics : List (String × String) :=",
           "  [" + ",\n   ".join("(%s, %s)" % (lean_str(n), lean_str(f)) for n, f in mutable) + "]", "",
           "/-- allow-list: (name, file) pairs that were examined; justification in `why` -/",
           "def allowList : List (String × String) :=",
           "  [" + ",\n   ".join("(%s, %s)" % (lean_str(n), lean_str(f)) for n, f in mutable if (n, f) in ALLOW) + "]", "",
           "/-- (name, status, justification) -/",
           "def why : List (String × String × String) :=",
           "  [" + ",\n   ".join("(%s, %s, %s)" % (lean_str(n + " @ " + f), lean_str(st), lean_str(j))
                                  for (n, f), (st, j) in sorted(ALLOW.items())) + "]", "",
           "end SymVerif.Gen.Statics", ""]
    out = gen_dir / "Statics.lean"
    s = "\n".join(txt)
    if not out.exists() or out.read_text() != s:
        out.write_text(s)
    return dict(translator="c41_statics", refcount_atomic=rc, hash_atomic=hs, steal_sites=len(sites),
                steal_compiled_out=steal_out, static_declarations=len(found),
                mutable_statics=["%s (%s)" % m for m in mutable],
                not_allowed=["%s (%s)" % (n, f) for n, f in mutable if (n, f) not in ALLOW],
                unsafe_excluded=[n for n, f in mutable if (n, f) in ALLOW and ALLOW[(n, f)][0] == "unsafeExcluded"], nm=nm)
