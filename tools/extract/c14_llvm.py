#!/usr/bin/env python3
"""Translator for C14 (LLVM code generation).

Reads symengine/llvm_double.cpp, llvm_double.h and visitor.h (RewriteTrigVisitor) - source text
only, LLVM is not needed - and writes lean/SymVerif/Gen/LLVMFormulas.lean:

  llvmDefs            per node kind, what IR LLVMVisitor::bvisit emits (`LDef` of Model/LLVMD.lean):
                      intrinsic name / external libm function / fcmp predicate / i1 operator / structural kind
  symbolInputsFirst   bvisit(Symbol) searches the input vector before the CSE replacement map
  initClearsState     init() clears symbol_ptrs / replacement_symbol_ptrs on entry
  rewrites            the twelve RewriteTrigVisitor rewrites (node kind -> (outer, inner))

The bodies with control flow (Add, Mul, Pow, Piecewise, Sign, Contains, And/Or/Xor, Not, Min/Max,
init, the external-function macro) are modelled by hand in Model/LLVMD.lean; their normalised text is
pinned here, any other shape raises TranslatorError (=> tie broken, kind T).
"""
import re
import sys
from pathlib import Path

sys.path.insert(0, str(Path(__file__).resolve().parent))
from c12_formulas import TranslatorError, strip_comments, norm, match_brace  # noqa: E402

FT = "get_float_type(&mod->getContext())"


def bodies(src):
    out = {}
    for m in re.finditer(r"void\s+(\w+)::(b?visit)\s*\(\s*const\s+(\w+)\s*&\s*(\w*)\s*\)\s*\{", src):
        st = m.end() - 1
        en = match_brace(src, st)
        key = (m.group(1), m.group(3))
        if key in out:
            raise TranslatorError("duplicate %s::bvisit(%s)" % key)
        out[key] = (m.group(4), norm(src[st + 1:en - 1]))
    return out


def intrinsic_body(param, name):
    return ("std::vector<llvm::Value*>args;llvm::Function*fun;args.push_back(apply(*%s.get_arg()));"
            "fun=get_float_intrinsic(%s,llvm::Intrinsic::%s,1,mod);auto r=builder->CreateCall(fun,args);"
            "r->setTailCall(true);result_=r;") % (param, FT, name)


ADD = ("llvm::Value*tmp,*tmp1,*tmp2;auto it=x.get_dict().begin();if(eq(*x.get_coef(),*zero)){if(eq(*one,*(it->second))){"
       "tmp=apply(*(it->first));}else{tmp1=apply(*(it->first));tmp2=apply(*(it->second));tmp=builder->CreateFMul(tmp1,tmp2);}++it;}"
       "else{tmp=apply(*x.get_coef());}for(;it!=x.get_dict().end();++it){if(eq(*one,*(it->second))){tmp1=apply(*(it->first));"
       "tmp=builder->CreateFAdd(tmp,tmp1);}else{tmp1=apply(*(it->first));tmp2=apply(*(it->second));"
       "tmp=builder->CreateFAdd(tmp,builder->CreateFMul(tmp1,tmp2));}}result_=tmp;")
MUL = ("llvm::Value*tmp=nullptr;bool first=true;for(const auto&p:x.get_args()){if(first){tmp=apply(*p);}"
       "else{tmp=builder->CreateFMul(tmp,apply(*p));}first=false;}result_=tmp;")
POW = ("std::vector<llvm::Value*>args;llvm::Function*fun;if(eq(*(x.get_base()),*E)){args.push_back(apply(*x.get_exp()));"
       "fun=get_float_intrinsic(" + FT + ",llvm::Intrinsic::exp,1,mod);}else if(eq(*(x.get_base()),*integer(2))){"
       "args.push_back(apply(*x.get_exp()));fun=get_float_intrinsic(" + FT + ",llvm::Intrinsic::exp2,1,mod);}else{"
       "if(is_a<Integer>(*x.get_exp())){if(eq(*x.get_exp(),*integer(2))){llvm::Value*tmp=apply(*x.get_base());"
       "result_=builder->CreateFMul(tmp,tmp);return;}else{args.push_back(apply(*x.get_base()));"
       "int d=numeric_cast<int>(mp_get_si(static_cast<const Integer&>(*x.get_exp()).as_integer_class()));"
       "result_=llvm::ConstantInt::get(llvm::Type::getInt32Ty(mod->getContext()),d,true);args.push_back(result_);fun=get_powi();}}"
       "else{args.push_back(apply(*x.get_base()));args.push_back(apply(*x.get_exp()));"
       "fun=get_float_intrinsic(" + FT + ",llvm::Intrinsic::pow,1,mod);}}auto r=builder->CreateCall(fun,args);"
       "r->setTailCall(true);result_=r;")
PIECEWISE = ('std::vector<llvm::BasicBlock>blocks;RCP<const Piecewise>pw=x.rcp_from_this_cast<const Piecewise>();'
             'if(neq(*pw->get_vec().back().second,*boolTrue)){throw SymEngineException("LLVMDouble requires a(Expr,True)at the end of Piecewise");}'
             'if(pw->get_vec().size()>2){PiecewiseVec rest=pw->get_vec();rest.erase(rest.begin());auto rest_pw=piecewise(std::move(rest));'
             'PiecewiseVec new_pw;new_pw.push_back(*pw->get_vec().begin());new_pw.push_back({rest_pw,pw->get_vec().back().second});'
             'pw=piecewise(std::move(new_pw))->rcp_from_this_cast<const Piecewise>();}else if(pw->get_vec().size()<2){'
             'throw SymEngineException("Invalid Piecewise object");}auto cond_basic=pw->get_vec().front().second;'
             'llvm::Value*cond=apply(*cond_basic);cond=builder->CreateFCmpONE(cond,llvm::ConstantFP::get(' + FT + ',0.0),"ifcond");'
             'llvm::Function*function=builder->GetInsertBlock()->getParent();'
             'llvm::BasicBlock*then_bb=llvm::BasicBlock::Create(mod->getContext(),"then",function);'
             'llvm::BasicBlock*else_bb=llvm::BasicBlock::Create(mod->getContext(),"else");'
             'llvm::BasicBlock*merge_bb=llvm::BasicBlock::Create(mod->getContext(),"ifcont");builder->CreateCondBr(cond,then_bb,else_bb);'
             'builder->SetInsertPoint(then_bb);llvm::Value*then_value=apply(*pw->get_vec().front().first);builder->CreateBr(merge_bb);'
             'then_bb=builder->GetInsertBlock();#if(LLVM_VERSION_MAJOR<16)function->getBasicBlockList().push_back(else_bb);'
             '#else function->insert(function->end(),else_bb);#endif builder->SetInsertPoint(else_bb);'
             'llvm::Value*else_value=apply(*pw->get_vec().back().first);builder->CreateBr(merge_bb);else_bb=builder->GetInsertBlock();'
             '#if(LLVM_VERSION_MAJOR<16)function->getBasicBlockList().push_back(merge_bb);#else function->insert(function->end(),merge_bb);'
             '#endif builder->SetInsertPoint(merge_bb);llvm::PHINode*phi_node=builder->CreatePHI(' + FT + ',2);'
             'phi_node->addIncoming(then_value,then_bb);phi_node->addIncoming(else_value,else_bb);result_=phi_node;')
SIGN = ("const auto x2=x.get_arg();PiecewiseVec new_pw;new_pw.push_back({real_double(0.0),Eq(x2,real_double(0.0))});"
        "new_pw.push_back({real_double(-1.0),Lt(x2,real_double(0.0))});new_pw.push_back({real_double(1.0),boolTrue});"
        "auto pw=rcp_static_cast<const Piecewise>(piecewise(std::move(new_pw)));bvisit(*pw);")
CONTAINS = ("llvm::Value*expr=apply(*cts.get_expr());const auto set=cts.get_set();if(is_a<Interval>(*set)){"
            "const auto&interv=down_cast<const Interval&>(*set);llvm::Value*start=apply(*interv.get_start());"
            "llvm::Value*end=apply(*interv.get_end());const bool left_open=interv.get_left_open();"
            "const bool right_open=interv.get_right_open();llvm::Value*left_ok;llvm::Value*right_ok;"
            "left_ok=(left_open)?builder->CreateFCmpOLT(start,expr):builder->CreateFCmpOLE(start,expr);"
            "right_ok=(right_open)?builder->CreateFCmpOLT(expr,end):builder->CreateFCmpOLE(expr,end);"
            "result_=builder->CreateAnd(left_ok,right_ok);result_=builder->CreateUIToFP(result_," + FT + ");}"
            "else{throw SymEngineException(")
INFTY = ("if(x.is_negative_infinity()){result_=llvm::ConstantFP::getInfinity(" + FT + ",true);}"
         "else if(x.is_positive_infinity()){result_=llvm::ConstantFP::getInfinity(" + FT + ",false);}"
         'else{throw SymEngineException("LLVMDouble can only represent real valued infinity");}')
NOT = ("set_double(0.0);llvm::Value*zero_val=result_;llvm::Value*value=builder->CreateFCmpONE(apply(*x.get_arg()),zero_val);"
       "result_=builder->CreateUIToFP(builder->CreateNot(value)," + FT + ");")
SYM_LOOP = "unsigned i=0;for(auto&symb:symbols){if(eq(x,*symb)){result_=symbol_ptrs[i];return;}++i;}"
SYM_CSE = ("auto it=replacement_symbol_ptrs.find(x.rcp_from_this());if(it!=replacement_symbol_ptrs.end()){"
           "result_=it->second;return;}")
SYM_TAIL = 'throw SymEngineException("Symbol "+x.__str__()+" not in the symbols vector.");'

LOGIC_MACRO = ("#define SYMENGINE_LOGIC_FUNCTION(Class,method)void LLVMVisitor::bvisit(const Class&x){llvm::Value*value=nullptr;"
               "llvm::Value*tmp;set_double(0.0);llvm::Value*zero_val=result_;for(auto&p:x.get_container()){"
               "tmp=builder->CreateFCmpONE(apply(*p),zero_val);if(value==nullptr){value=tmp;}else{value=builder->method(value,tmp);}}"
               "result_=builder->CreateUIToFP(value," + FT + ");}")
REL_MACRO = ("#define SYMENGINE_RELATIONAL_FUNCTION(Class,method)void LLVMVisitor::bvisit(const Class&x){"
             "llvm::Value*left=apply(*x.get_arg1());llvm::Value*right=apply(*x.get_arg2());result_=builder->method(left,right);"
             "result_=builder->CreateUIToFP(result_," + FT + ");}")
EXT_BODY = ("{vec_basic basic_args=x.get_args();llvm::Function*func=get_external_function(%s,basic_args.size());"
            "std::vector<llvm::Value*>args;for(const auto&arg:basic_args){args.push_back(apply(*arg));}"
            "auto r=builder->CreateCall(func,args);r->setTailCall(true);result_=r;}")

REWRITES = {"Cot": ("div", "tan"), "Csc": ("div", "sin"), "Sec": ("div", "cos"),
            "ACot": ("atan", "div"), "ACsc": ("asin", "div"), "ASec": ("acos", "div"),
            "Coth": ("div", "tanh"), "Csch": ("div", "sinh"), "Sech": ("div", "cosh"),
            "ACoth": ("atanh", "div"), "ACsch": ("asinh", "div"), "ASech": ("acosh", "div")}


def no_space(s):
    """`norm` keeps blanks between identifiers; macro bodies are compared without any blank or continuation"""
    return re.sub(r"[\s\\]+", "", s)


def fn(repo: Path, gen_dir: Path) -> dict:
    repo = Path(repo)
    raw = (repo / "symengine/llvm_double.cpp").read_text()
    src = strip_comments(raw)
    B = bodies(src)
    notes = []
    defs = []

    def body(cls, owner="LLVMVisitor"):
        if (owner, cls) not in B:
            raise TranslatorError("%s::bvisit(const %s&) not found" % (owner, cls))
        return B[(owner, cls)]

    def pin(cls, text, ldef):
        p, b = body(cls)
        if b != text.replace("x.", (p + ".") if p != "x" and p else "x."):
            raise TranslatorError("LLVMVisitor::bvisit(const %s&) changed: %s" % (cls, b[:200]))
        defs.append((cls, ldef))

    # leaves
    p, b = body("Integer")
    if b != "result_=llvm::ConstantFP::get(%s,mp_get_d(%s.as_integer_class()));" % (FT, p):
        raise TranslatorError("bvisit(Integer) changed")
    defs.append(("Integer", ".leafInt"))
    p, b = body("Rational")
    if b != "set_double(mp_get_d(%s.as_rational_class()));" % p:
        raise TranslatorError("bvisit(Rational) changed")
    defs.append(("Rational", ".leafRat"))
    p, b = body("RealDouble")
    if b != "set_double(%s.i);" % p:
        raise TranslatorError("bvisit(RealDouble) changed")
    defs.append(("RealDouble", ".leafDouble"))
    if "void LLVMVisitor::set_double(double d){result_=llvm::ConstantFP::get(%s,d);}" % FT not in norm(src):
        raise TranslatorError("set_double changed")
    p, b = body("BooleanAtom")
    if b != "const bool val=%s.get_val();set_double(val?1.0:0.0);" % p:
        raise TranslatorError("bvisit(BooleanAtom) changed")
    defs.append(("BooleanAtom", ".leafBool"))
    pin("Infty", INFTY, ".leafInfty")
    p, b = body("NaN")
    if b != "result_=llvm::ConstantFP::getNaN(%s,false,0);" % FT:
        raise TranslatorError("bvisit(NaN) changed")
    defs.append(("NaN", ".leafNaN"))
    p, b = body("Constant")
    if b != "set_double(eval_double(%s));" % p:
        raise TranslatorError("bvisit(Constant) no longer delegates to eval_double")
    defs.append(("Constant", ".constant"))
    # symbol lookup
    p, b = body("Symbol")
    if b == SYM_LOOP + SYM_CSE + SYM_TAIL:
        inputs_first = True
        notes.append("bvisit(Symbol): inputs are searched before the CSE replacement symbols")
    elif b == SYM_CSE + SYM_LOOP + SYM_TAIL:
        inputs_first = False
    else:
        raise TranslatorError("bvisit(Symbol) changed: %s" % b)
    defs.append(("Symbol", ".symbol"))
    # structural bodies
    pin("Add", ADD, ".add")
    pin("Mul", MUL, ".mul")
    pin("Pow", POW, ".pow")
    pin("Piecewise", PIECEWISE, ".piecewise")
    pin("Sign", SIGN, ".sign")
    p, b = body("Contains")
    if not (b.startswith(CONTAINS) and re.match(r'^"[^;{}]*"\);\}$', b[len(CONTAINS):])):
        raise TranslatorError("bvisit(Contains) changed")
    defs.append(("Contains", ".contains"))
    pin("Not", NOT, ".lnot")
    p, b = body("UnevaluatedExpr")
    if b != "apply(*%s.get_arg());" % p:
        raise TranslatorError("bvisit(UnevaluatedExpr) changed")
    defs.append(("UnevaluatedExpr", ".unevaluated"))
    p, b = body("Basic")
    if not re.match(r"^throw NotImplementedError\(.*\);$", b):
        raise TranslatorError("bvisit(Basic) no longer throws NotImplementedError")
    # unary intrinsics: the name is read from the body
    for cls in ("Sin", "Cos", "Log", "Abs", "Floor", "Ceiling", "Truncate"):
        p, b = body(cls)
        m = re.search(r"llvm::Intrinsic::(\w+),1,mod", b)
        if not m or b != intrinsic_body(p, m.group(1)):
            raise TranslatorError("bvisit(%s) is not a unary intrinsic call: %s" % (cls, b[:160]))
        defs.append((cls, '.intrinsic "%s"' % m.group(1)))
    for cls in ("Max", "Min"):
        p, b = body(cls)
        m = re.search(r"llvm::Intrinsic::(\w+),1,mod", b)
        exp = ("llvm::Value*value=nullptr;llvm::Function*fun;fun=get_float_intrinsic(%s,llvm::Intrinsic::%s,1,mod);"
               "for(auto&arg:%s.get_vec()){if(value!=nullptr){std::vector<llvm::Value*>args;args.push_back(value);"
               "args.push_back(apply(*arg));auto r=builder->CreateCall(fun,args);r->setTailCall(true);value=r;}"
               "else{value=apply(*arg);}}result_=value;") % (FT, m.group(1) if m else "?", p)
        if not m or b != exp:
            raise TranslatorError("bvisit(%s) changed" % cls)
        defs.append((cls, '.foldIntr "%s"' % m.group(1)))
    # macros
    ns = no_space(src)
    if no_space(LOGIC_MACRO) not in ns:
        raise TranslatorError("SYMENGINE_LOGIC_FUNCTION changed")
    for cls, meth in re.findall(r"SYMENGINE_LOGIC_FUNCTION\((\w+),\s*(\w+)\);", src):
        op = {"CreateAnd": "and", "CreateOr": "or", "CreateXor": "xor"}.get(meth)
        if op is None:
            raise TranslatorError("logic function %s uses %s" % (cls, meth))
        defs.append((cls, ".logic .%s" % op))
    if no_space(REL_MACRO) not in ns:
        raise TranslatorError("SYMENGINE_RELATIONAL_FUNCTION changed")
    for cls, meth in re.findall(r"SYMENGINE_RELATIONAL_FUNCTION\((\w+),\s*(\w+)\);", src):
        pr = {"CreateFCmpOEQ": "oeq", "CreateFCmpONE": "one", "CreateFCmpOLE": "ole", "CreateFCmpOLT": "olt",
              "CreateFCmpUNE": "une", "CreateFCmpUEQ": "ueq", "CreateFCmpOGT": "ogt", "CreateFCmpOGE": "oge"}.get(meth)
        if pr is None:
            raise TranslatorError("relational %s uses %s" % (cls, meth))
        defs.append((cls, ".relational .%s" % pr))
    ext_d = "#define_SYMENGINE_MACRO_EXTERNAL_FUNCTION(Class,ext)voidLLVMDoubleVisitor::visit(constClass&x)" + no_space(EXT_BODY % "#ext")
    ext_f = "voidLLVMFloatVisitor::visit(constClass&x)" + no_space(EXT_BODY % '#ext+std::string("f")')
    ext_l = "voidLLVMLongDoubleVisitor::visit(constClass&x)" + no_space(EXT_BODY % '#ext+std::string("l")')
    ns2 = ns.replace("#define_SYMENGINE", "#define_SYMENGINE")
    if (no_space("#define _SYMENGINE_MACRO_EXTERNAL_FUNCTION(Class,ext)") + ext_d[len("#define_SYMENGINE_MACRO_EXTERNAL_FUNCTION(Class,ext)"):] + ext_f) not in ns2:
        raise TranslatorError("_SYMENGINE_MACRO_EXTERNAL_FUNCTION changed")
    if ext_l not in ns2:
        raise TranslatorError("long double external-function macro changed")
    externals = re.findall(r"^SYMENGINE_MACRO_EXTERNAL_FUNCTION\((\w+),\s*(\w+)\)", src, flags=re.M)
    if not externals:
        raise TranslatorError("no external functions found")
    for cls, ext in externals:
        defs.append((cls, '.external "%s"' % ext))
    seen = set()
    for k, _ in defs:
        if k in seen:
            raise TranslatorError("node kind %s defined twice" % k)
        seen.add(k)
    # every LLVMVisitor::bvisit must be accounted for
    for (owner, cls) in B:
        if owner == "LLVMVisitor" and cls not in seen and cls not in ("Basic", "RealMPFR"):
            raise TranslatorError("unmodelled LLVMVisitor::bvisit(const %s&)" % cls)
    # init
    n = norm(src)
    m = re.search(r"void LLVMVisitor::init\(const vec_basic&inputs,const vec_basic&outputs,const bool symbolic_cse,unsigned opt_level\)\{", n)
    if not m:
        raise TranslatorError("LLVMVisitor::init not found")
    ib = n[m.end():]
    head_a = ("executionengine.reset();llvm::InitializeNativeTarget();llvm::InitializeNativeTargetAsmPrinter();"
              "llvm::InitializeNativeTargetAsmParser();context=make_unique<llvm::LLVMContext>();symbols=inputs;")
    if not ib.startswith(head_a):
        raise TranslatorError("LLVMVisitor::init prologue changed")
    rest = ib[len(head_a):]
    clears = False
    for c in ("symbol_ptrs.clear();replacement_symbol_ptrs.clear();", "replacement_symbol_ptrs.clear();symbol_ptrs.clear();"):
        if rest.startswith(c):
            clears = True
            rest = rest[len(c):]
    if not clears:
        notes.append("init: symbol_ptrs / replacement_symbol_ptrs are not cleared on entry")
    loads = ("auto input_arg=&(*(F->args().begin()));for(unsigned i=0;i<inputs.size();i++){if(not is_a<Symbol>(*inputs[i])){"
             'throw SymEngineException("Input contains a non-symbol.");}auto index=llvm::ConstantInt::get(llvm::Type::getInt32Ty(*context),i);'
             "auto ptr=builder->CreateGEP(get_float_type(context.get()),input_arg,index);"
             "result_=builder->CreateLoad(get_float_type(context.get()),ptr);symbol_ptrs.push_back(result_);}")
    body_txt = ("auto it=F->args().begin();auto out=&(*(it+1));std::vector<llvm::Value*>output_vals;if(symbolic_cse){"
                "vec_basic reduced_exprs;vec_pair replacements;SymEngine::cse(replacements,reduced_exprs,outputs);"
                "for(auto&rep:replacements){replacement_symbol_ptrs[rep.first]=apply(*(rep.second));}"
                "for(unsigned i=0;i<outputs.size();i++){output_vals.push_back(apply(*reduced_exprs[i]));}}"
                "else{for(unsigned i=0;i<outputs.size();i++){output_vals.push_back(apply(*outputs[i]));}}"
                "for(unsigned i=0;i<outputs.size();i++){auto index=llvm::ConstantInt::get(llvm::Type::getInt32Ty(*context),i);"
                "auto ptr=builder->CreateGEP(get_float_type(context.get()),out,index);builder->CreateStore(output_vals[i],ptr);}"
                "builder->CreateRetVoid();")
    for piece, what in ((loads, "input loads"), (body_txt, "cse / outputs / stores")):
        if piece not in rest:
            raise TranslatorError("LLVMVisitor::init changed (%s)" % what)
    if "auto fmf=llvm::FastMathFlags();builder->setFastMathFlags(fmf);" not in rest:
        raise TranslatorError("LLVMVisitor::init: fast-math flags are no longer the default (none)")
    tail = "func=(intptr_t)executionengine->getPointerToFunction(F);symbol_ptrs.clear();replacement_symbol_ptrs.clear();symbols.clear();}"
    if tail not in rest:
        raise TranslatorError("LLVMVisitor::init epilogue changed")
    # opt level mapping
    opt = ("OptimizationLevel pb_opt_level{OptimizationLevel::O3};if(opt_level==0){pb_opt_level=OptimizationLevel::O0;}"
           "else if(opt_level==1){pb_opt_level=OptimizationLevel::O1;}else if(opt_level==2){pb_opt_level=OptimizationLevel::O2;}"
           "if(opt_level!=0){")
    if opt not in rest:
        raise TranslatorError("LLVMVisitor::init: optimisation level mapping changed")
    # float types
    for cls, ty in (("LLVMDoubleVisitor", "getDoubleTy"), ("LLVMFloatVisitor", "getFloatTy"), ("LLVMLongDoubleVisitor", "getX86_FP80Ty")):
        if "llvm::Type*%s::get_float_type(llvm::LLVMContext*context){return llvm::Type::%s(*context);}" % (cls, ty) not in n:
            raise TranslatorError("%s::get_float_type changed" % cls)
    # dumps / loads
    if "const std::string&LLVMVisitor::dumps()const{return membuffer;}" not in n:
        raise TranslatorError("LLVMVisitor::dumps changed")
    if "void LLVMVisitor::loads(const std::string&s){membuffer=s;" not in n:
        raise TranslatorError("LLVMVisitor::loads changed")
    # RewriteTrigVisitor
    vh = norm(strip_comments((repo / "symengine/visitor.h").read_text()))
    rw = []
    for cls, (outer, inner) in REWRITES.items():
        if outer == "div":
            txt = "void visit(const %s&x)override{div(one,%s(x.get_arg()))->accept(*this);};" % (cls, inner)
        else:
            txt = "void visit(const %s&x)override{%s(div(one,x.get_arg()))->accept(*this);};" % (cls, outer)
        if txt not in vh:
            raise TranslatorError("RewriteTrigVisitor::visit(const %s&) changed" % cls)
        fnname = inner if outer == "div" else outer
        rw.append('("%s", %s, "%s")' % (cls, "true" if outer == "div" else "false",
                                       {"tan": "Tan", "sin": "Sin", "cos": "Cos", "tanh": "Tanh", "sinh": "Sinh", "cosh": "Cosh",
                                        "atan": "ATan", "asin": "ASin", "acos": "ACos", "atanh": "ATanh", "asinh": "ASinh",
                                        "acosh": "ACosh"}[fnname]))
    hh = norm(strip_comments((repo / "symengine/llvm_double.h").read_text()))
    if "class LLVMVisitor:public RewriteTrigVisitor<LLVMVisitor>" not in hh:
        raise TranslatorError("LLVMVisitor no longer derives from RewriteTrigVisitor")

    out = "/- GENERATED by tools/extract/c14_llvm.py from symengine/llvm_double.cpp, llvm_double.h, visitor.h.\n"
    out += "   Do not edit: regenerated on every check run. -/\n"
    out += "import SymVerif.Model.LLVMD\nnamespace SymVerif.LLVMD.Gen\nopen SymVerif.LLVMD\n\n"
    out += "/-- LLVMVisitor / LLVMDoubleVisitor: what each node kind emits -/\ndef llvmDefs : LDefs := [\n"
    out += ",\n".join('  ("%s", %s)' % kv for kv in defs) + "]\n\n"
    out += "/-- LLVMVisitor::bvisit(const Symbol&) searches the input vector before the CSE replacement symbols -/\n"
    out += "def symbolInputsFirst : Bool := %s\n\n" % ("true" if inputs_first else "false")
    out += "/-- LLVMVisitor::init clears symbol_ptrs and replacement_symbol_ptrs on entry -/\n"
    out += "def initClearsState : Bool := %s\n\n" % ("true" if clears else "false")
    out += "/-- RewriteTrigVisitor: (kind, reciprocal-outside?, function): Cot ↦ 1/Tan(x) …, ACot ↦ ATan(1/x) … -/\n"
    out += "def rewrites : List (String × Bool × String) := [%s]\n\n" % ", ".join(rw)
    out += "end SymVerif.LLVMD.Gen\n"
    gen_dir = Path(gen_dir)
    gen_dir.mkdir(parents=True, exist_ok=True)
    f = gen_dir / "LLVMFormulas.lean"
    if not f.exists() or f.read_text() != out:
        f.write_text(out)
    return dict(translator="c14_llvm", kinds=len(defs), externals=len(externals), symbol_inputs_first=inputs_first,
                init_clears_state=clears, notes=notes)


if __name__ == "__main__":
    print(fn(Path(sys.argv[1] if len(sys.argv) > 1 else "/repo"), Path(sys.argv[2] if len(sys.argv) > 2 else "/tmp/gen")))
