#!/usr/bin/env python3
"""Apply a seeded change (seeded/<name>/patch.diff) to /repo, run the checks of the property it
breaks (meta.json: property), undo the change, and report whether the check caught it.

  tools/seeded_run.py <name> [--tier quick|thorough] [--props C01,C02]
"""
import argparse
import json
import subprocess
import sys
from pathlib import Path

ROOT = Path(__file__).resolve().parent.parent


def run_in_worktree(a, d, meta, props):
    import os, fcntl
    wt, bd, out = "/tmp/seed_wt", "/tmp/seed_build", "/tmp/seed_out"
    lockf = open("/tmp/seed_wt.lock", "w")
    fcntl.flock(lockf, fcntl.LOCK_EX)   # one seeded run at a time in the shared scratch worktree
    head = subprocess.run(["git", "-C", "/repo", "rev-parse", "HEAD"], capture_output=True, text=True).stdout.strip()
    if not Path(wt).exists():
        subprocess.run(["git", "-C", "/repo", "worktree", "add", "--detach", wt, head], capture_output=True)
    else:
        subprocess.run("git -C %s checkout -- . && git -C %s checkout --detach %s" % (wt, wt, head), shell=True, capture_output=True)
    r = subprocess.run(["git", "-C", wt, "apply", str(d / "patch.diff")])
    if r.returncode != 0:
        print("patch does not apply")
        sys.exit(2)
    env = dict(os.environ, VERIF_REPO=wt, VERIF_BUILD_ROOT=bd, VERIF_OUT_ROOT=out)
    results = {}
    try:
        for p in props:
            r = subprocess.run([sys.executable, str(ROOT / "check.py"), p, "--tier", a.tier], cwd=str(ROOT), capture_output=True, text=True, env=env)
            viol = [l for l in r.stdout.splitlines() if l.startswith("VIOLATION")]
            results[p] = dict(rc=r.returncode, violations=viol)
            print(p, "rc=%d" % r.returncode, *viol, sep="\n  ")
            if not viol and r.returncode:
                print(r.stdout[-1500:])
    finally:
        subprocess.run(["git", "-C", wt, "checkout", "--", "."])
    caught = any(v["violations"] for v in results.values())
    print("CAUGHT" if caught else "MISSED", a.name)
    (d / "last_run.json").write_text(json.dumps(results, indent=1))
    sys.exit(0 if caught else 1)


def main():
    ap = argparse.ArgumentParser()
    ap.add_argument("name")
    ap.add_argument("--tier", default="quick")
    ap.add_argument("--props", default=None)
    ap.add_argument("--worktree", action="store_true",
                    help="do not touch /repo: apply the change in a scratch worktree of /repo HEAD (/tmp/seed_wt) and point the check at it")
    a = ap.parse_args()
    d = ROOT / "seeded" / a.name
    meta = json.loads((d / "meta.json").read_text())
    props = a.props.split(",") if a.props else [meta["property"]]
    if a.worktree:
        return run_in_worktree(a, d, meta, props)
    st = subprocess.run(["git", "-C", "/repo", "status", "--porcelain", "--untracked-files=no"], capture_output=True, text=True)
    if st.stdout.strip():
        print("refusing: /repo has uncommitted changes to tracked files:\n" + st.stdout)
        sys.exit(2)
    r = subprocess.run(["git", "-C", "/repo", "apply", str(d / "patch.diff")])
    if r.returncode != 0:
        print("patch does not apply")
        sys.exit(2)
    results = {}
    try:
        for p in props:
            r = subprocess.run([sys.executable, str(ROOT / "check.py"), p, "--tier", a.tier], cwd=str(ROOT), capture_output=True, text=True)
            viol = [l for l in r.stdout.splitlines() if l.startswith("VIOLATION")]
            results[p] = dict(rc=r.returncode, violations=viol)
            print(p, "rc=%d" % r.returncode, *viol, sep="\n  ")
    finally:
        subprocess.run(["git", "-C", "/repo", "checkout", "--", "."])
    caught = any(v["rc"] != 0 for v in results.values())
    print("CAUGHT" if caught else "MISSED", a.name)
    # re-run on the restored tree so that evidence files on disk describe the unchanged tree again
    for p in props:
        subprocess.run([sys.executable, str(ROOT / "check.py"), p, "--tier", "quick"], cwd=str(ROOT), capture_output=True, text=True)
    sys.exit(0 if caught else 1)


if __name__ == "__main__":
    main()
