#!/usr/bin/env python3
"""Regenerate MANIFEST.json from props/*.py (one SPEC per claimed property)."""
import importlib
import json
import sys
from pathlib import Path

ROOT = Path(__file__).resolve().parent.parent
sys.path.insert(0, str(ROOT))

props = [json.loads(l) for l in (ROOT / "properties.jsonl").read_text().splitlines() if l.strip()]
ids = [p["id"] for p in props]
checks, na = [], []
pending = json.loads((ROOT / "tools" / "not_claimed.json").read_text()) if (ROOT / "tools" / "not_claimed.json").exists() else {}
claimed = set((ROOT / "tools" / "claimed.txt").read_text().split())
for pid in ids:
    f = ROOT / "props" / (pid.lower() + ".py")
    if pid not in claimed:
        na.append(dict(property_id=pid, reason=pending.get(pid, "check under construction: not yet integrated and validated on the unchanged tree, so nothing is claimed for it")))
        continue
    if not f.exists():
        na.append(dict(property_id=pid, reason=pending.get(pid, "no check registered yet: model/theorem/correspondence for this property are not built; nothing is claimed")))
        continue
    spec = importlib.import_module("props." + pid.lower()).SPEC
    if not spec.get("theorems"):
        spec["disabled"] = "model and correspondence exist but no theorem is registered yet; not claimed until one is"
    if spec.get("disabled"):
        na.append(dict(property_id=pid, reason=spec["disabled"]))
        continue
    if "level_text" not in spec:
        spec["level_text"] = ("Lean 4 theorems (%d registered, axioms audited every run) over an executable model of the anchored code, tied to /repo by "
                              "differential correspondence on generated inputs each run, plus an independent oracle evaluating the property on the real library."
                              % len(spec.get("theorems", [])))
    if "level_note" not in spec:
        spec["level_note"] = ("Trusted: Lean kernel, correspondence harness and its oracle. Not proved / partial: %s. Not covered: %s. Assumptions: %s"
                              % ("; ".join(map(str, spec.get("partial", []))) or "-", "; ".join(map(str, spec.get("not_covered", []))) or "-",
                                 "; ".join(map(str, spec.get("assumptions", []))) or "-"))[:1800]
    checks.append(dict(
        property_id=pid,
        quick_cmd="python3 check.py %s --tier quick" % pid,
        thorough_cmd="python3 check.py %s --tier thorough" % pid,
        evidence_file="evidence/%s.json" % pid,
        replay_cmd_template="python3 check.py %s --replay {path}" % pid,
        engine="lean4-proof+correspondence",
        level_claimed=dict(category=(spec.get("level", "proof") if spec.get("level", "proof") in ("exploration", "fault_enumeration", "model_checking", "proof", "translation_validation", "other") else "proof"), text=spec["level_text"], design_ref=spec.get("design_ref", "DESIGN.md §5 " + pid)),
        level_note=spec["level_note"],
        technique=spec.get("technique", "Lean 4 theorems over an executable model + differential correspondence with the C++ implementation"),
    ))
man = dict(
    version=1,
    setup_cmd="python3 tools/setup.py",
    hooks=dict(
        guard="SYMENGINE_VERIF_HOOKS",
        enable="no source change in /repo: the checks build /repo's working tree out-of-tree (.build/impl-<config>) with "
               "-DWITH_SYMENGINE_ASSERT=yes and g++ -include /verif/harness/verif_hooks.h -DSYMENGINE_VERIF_HOOKS, which uses the "
               "#if !defined(SYMENGINE_ASSERT) escape hatch of symengine_assert.h to make failed assertions throw instead of abort",
        baseline_off_cmd="cmake --build /repo/_build -j16 && ctest --test-dir /repo/_build -j8 --timeout 900",
        source_commits=[],
        add_only=True,
    ),
    engines=[dict(name="lean4-proof+correspondence", path="check.py",
                  serves_properties=[c["property_id"] for c in checks],
                  kind_free_text="Lean 4 model + theorems (lean/SymVerif), per-run axiom audit, C++ correspondence harness "
                                 "against a library built from /repo's working tree, independent property oracle")],
    checks=checks,
    notes="See DESIGN.md. known_findings.json lists recorded/fixed defects. seeded/ holds confirmed property-breaking changes used to test the checks.",
    not_applicable=na,
)
(ROOT / "MANIFEST.json").write_text(json.dumps(man, indent=1) + "\n")
print("claimed:", len(checks), "not claimed:", len(na))
