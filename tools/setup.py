#!/usr/bin/env python3
"""setup_cmd: build everything the quick checks need, from files on disk only (offline)."""
import importlib
import sys
from pathlib import Path

ROOT = Path(__file__).resolve().parent.parent
sys.path.insert(0, str(ROOT))
from vlib import core  # noqa: E402

log = core.Log()
specs = []
claimed = set((ROOT / "tools" / "claimed.txt").read_text().split())
for f in sorted((ROOT / "props").glob("c*.py")):
    if f.stem.upper() not in claimed:
        continue
    spec = importlib.import_module("props." + f.stem).SPEC
    if not spec.get("disabled"):
        specs.append(spec)
# translators first (Gen files must exist before lake elaborates anything importing them)
gen_dir = core.LEAN / "SymVerif" / "Gen"
gen_dir.mkdir(parents=True, exist_ok=True)
for s in specs:
    for tr in s.get("translators", []):
        try:
            tr(core.REPO, gen_dir)
        except Exception as e:
            log("translator failed for %s: %s" % (s["id"], e))
targets = []
for s in specs:
    targets.append(s["lean_props"])
    if s.get("driver"):
        targets.append("drv_" + s["driver"].lower())
rc, out = core.lake_build(targets, log)
if rc != 0:
    # build one by one so that a single failing module does not hide the others
    for t in targets:
        core.lake_build([t], log)
configs = set()
for s in specs:
    for c in s.get("configs", {"quick": ["assert"]})["quick"]:
        configs.add(c)
for c in sorted(configs):
    try:
        core.build_impl(c, log)
    except core.BuildError as e:
        log(str(e))
for s in specs:
    if s.get("harness"):
        for c in s.get("configs", {"quick": ["assert"]})["quick"]:
            try:
                core.build_harness(s["harness"], c, log, s.get("extra_libs", ()))
            except core.BuildError as e:
                log(str(e))
log("setup done")
