#!/usr/bin/env python3
"""split a unified diff into one patch per hunk: splitpatch.py in.diff outprefix"""
import re, sys
src = open(sys.argv[1]).read().splitlines(keepends=True)
files, cur = [], None
for l in src:
    if l.startswith("diff --git"):
        cur = dict(header=[l], hunks=[])
        files.append(cur)
    elif cur is not None and l.startswith("@@"):
        cur["hunks"].append([l])
    elif cur is not None and cur["hunks"]:
        cur["hunks"][-1].append(l)
    elif cur is not None:
        cur["header"].append(l)
n = 0
for f in files:
    for h in f["hunks"]:
        open("%s.%02d.diff" % (sys.argv[2], n), "w").write("".join(f["header"]) + "".join(h))
        print("%s.%02d.diff" % (sys.argv[2], n), f["header"][0].strip(), h[0].strip()[:60])
        n += 1
