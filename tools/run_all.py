#!/usr/bin/env python3
"""Run every claimed check (MANIFEST.json) and summarise.  tools/run_all.py [--tier quick] [--seed N] [-j 4]"""
import argparse
import json
import os
import subprocess
import sys
import time
from concurrent.futures import ThreadPoolExecutor
from pathlib import Path

ROOT = Path(__file__).resolve().parent.parent


def one(args):
    pid, tier, seed = args
    t0 = time.time()
    env = dict(os.environ, VERIF_SEED=str(seed))
    r = subprocess.run([sys.executable, str(ROOT / "check.py"), pid, "--tier", tier], cwd=str(ROOT), capture_output=True, text=True, env=env)
    lines = [l for l in r.stdout.splitlines() if l.startswith(("VIOLATION", "KNOWN-FINDING"))]
    return pid, r.returncode, time.time() - t0, lines, r.stdout[-1500:] if r.returncode else ""


def main():
    ap = argparse.ArgumentParser()
    ap.add_argument("--tier", default="quick")
    ap.add_argument("--seed", default=1, type=int)
    ap.add_argument("-j", default=4, type=int)
    ap.add_argument("--only", default=None)
    a = ap.parse_args()
    man = json.loads((ROOT / "MANIFEST.json").read_text())
    pids = [c["property_id"] for c in man["checks"]]
    if a.only:
        pids = [p for p in pids if p in a.only.split(",")]
    bad = 0
    with ThreadPoolExecutor(a.j) as ex:
        for pid, rc, dt, lines, tail in ex.map(one, [(p, a.tier, a.seed) for p in pids]):
            print("%s rc=%d %.0fs" % (pid, rc, dt))
            for l in lines:
                print("   " + l[:300])
            if rc:
                bad += 1
                print(tail)
    print("failed:", bad, "of", len(pids))
    sys.exit(1 if bad else 0)


if __name__ == "__main__":
    main()
