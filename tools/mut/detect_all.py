#!/usr/bin/env python3
"""Run tools/seeded_run.py --worktree for every confirmed seeded change that has no verdict yet; record caught_by in meta.json."""
import json, subprocess, sys, time
from pathlib import Path
ROOT = Path(__file__).resolve().parent.parent.parent
for d in sorted((ROOT / "seeded").iterdir()):
    m = d / "meta.json"
    if not m.exists():
        continue
    meta = json.loads(m.read_text())
    only = [a for a in sys.argv[1:] if not a.startswith("--")]
    if only and d.name not in only:
        continue
    if "detection" in meta and "--redo" not in sys.argv and not only:
        continue
    t0 = time.time()
    r = subprocess.run([sys.executable, str(ROOT / "tools" / "seeded_run.py"), d.name, "--worktree"], capture_output=True, text=True)
    out = r.stdout.strip().splitlines()
    viol = [l for l in out if l.strip().startswith("VIOLATION")]
    meta["detection"] = dict(tier="quick", caught=bool(viol), violation_lines=[v.strip()[:200] for v in viol][:4], wall_s=round(time.time() - t0),
                             how="tools/seeded_run.py %s --worktree (change applied in a scratch worktree of /repo HEAD, check pointed at it)" % d.name)
    meta["caught_by"] = ("check.py %s --tier quick" % meta["property"]) if viol else None
    m.write_text(json.dumps(meta, indent=1))
    print(time.strftime("%H:%M:%S"), d.name, "CAUGHT" if viol else "MISSED", viol[:1], flush=True)
    if not viol:
        print(r.stdout[-1200:], flush=True)
