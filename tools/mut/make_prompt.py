#!/usr/bin/env python3
"""Build the prompt for an independent 'seeded change' author: property texts only, nothing from /verif."""
import json, sys
ids = sys.argv[1].split(",")
tag = sys.argv[2]
props = {json.loads(l)["id"]: json.loads(l) for l in open("/verif/properties.jsonl")}
out = []
out.append(f"""You are a C++ engineer doing mutation-style robustness research on the open-source computer algebra library symengine.

Setup: create your own scratch git worktree of the repository and work ONLY there:
  git -C /repo worktree add /tmp/mut_{tag} HEAD
Never edit /repo itself, never read or write anything under /verif (it is off limits), never commit to /repo. Build out of tree, e.g.:
  cmake -G Ninja -S /tmp/mut_{tag} -B /tmp/mut_{tag}_build -DCMAKE_BUILD_TYPE=Release -DBUILD_BENCHMARKS=no -DCMAKE_CXX_COMPILER_LAUNCHER=ccache -DCMAKE_CXX_FLAGS_RELEASE=-O1
  ninja -C /tmp/mut_{tag}_build -j6        (the machine is shared and heavily loaded: builds are slow, use generous timeouts, -j6 at most)
  ctest --test-dir /tmp/mut_{tag}_build -j6 --timeout 900
The sandbox has no network. Always run your own programs under `timeout`.

Task: for EACH property below, produce ONE (if you have time, two) *semantic* change to the library source (symengine/*.cpp, *.h) that
  (a) still compiles,
  (b) passes the complete existing test suite (all ctest tests; you must run it and confirm 100% pass with your change applied),
  (c) BREAKS the property: write a small standalone demonstration program (C++, linking the built library: `g++ -std=c++11 -I/tmp/mut_{tag} -I/tmp/mut_{tag}_build demo.cpp /tmp/mut_{tag}_build/symengine/libsymengine.a -lgmp`) that prints PASS and exits 0 on the unmodified library and prints FAIL and exits 1 with your change applied — confirm both.
The change must be *realistic* (the kind of mistake or over-eager optimisation a maintainer could make: an off-by-one, a wrong branch condition, a dropped special case, a missing normalisation, a cache not invalidated, two cooperating sites that each look fine alone) and must need something *specific* to manifest — an unusual input, a boundary size, a multi-step sequence of operations, a particular history — NOT something ordinary use would expose at once (if the existing tests catch it, it is too crude: refine it). Do not add new files to the library, do not touch tests, no `#ifdef` tricks, no randomness/time/environment dependence. Keep each change small (typically 1–10 lines).

Deliver, for each property Pxx, a directory /tmp/mut_{tag}_out/<property id>_<short-name>/ containing:
  patch.diff   (output of `git -C /tmp/mut_{tag} diff` for that change alone, relative to HEAD; applies with `git apply` at the repo root)
  demo.cpp     (the demonstration)
  meta.json    {{"property": "<id>", "title": "<one line>", "what_breaks": "<how the property is violated>", "needs": "<what specific input/sequence/history is needed to manifest>", "files": [...], "ctest": "100% passed (N tests)", "demo_unpatched": "PASS", "demo_patched": "FAIL"}}
Reset the worktree (`git -C /tmp/mut_{tag} checkout -- .`) between changes so each patch is independent. When all are done, remove the build directory (`rm -rf /tmp/mut_{tag}_build`) and the worktree (`git -C /repo worktree remove --force /tmp/mut_{tag}`), keep /tmp/mut_{tag}_out. Final message: list of the delivered directories with one line each.

Properties (verbatim):
""")
for i in ids:
    p = props[i]
    out.append(f"--- {i}: {p['title']}\nStatement: {p['statement']}\nQuantifier: {p['quantifier']['text']}\nRelevant source files: {', '.join(p['anchors']['files'])}\nMechanisms: {'; '.join(m.get('name','') + ' @ ' + m.get('where','') for m in p['anchors']['mechanism'])}\n")
print("\n".join(out))
