#!/usr/bin/env python3
"""Confirm seeded changes delivered by the independent authors (/tmp/mut_*_out/<name>/):
in a scratch worktree of /repo HEAD: patch applies and compiles, the whole existing test suite passes with it,
the demonstration prints PASS/exit 0 without the change and FAIL/exit 1 with it.
Confirmed ones are copied to /verif/seeded/<name>/ with the confirmation recorded in meta.json.
usage: confirm.py <outdir> [<outdir> ...]"""
import json, os, shutil, subprocess, sys, time
from pathlib import Path
import os
WT = Path("/tmp/confirm_wt"); B = Path(os.environ.get("CONFIRM_BUILD", "/tmp/confirm_build"))
EXTRA_CMAKE = os.environ.get("CONFIRM_CMAKE", "")      # e.g. "-DWITH_LLVM=yes -DWITH_MPFR=yes"
EXTRA_LIBS = os.environ.get("CONFIRM_LIBS", "")        # e.g. "$(llvm-config-14 --libs --system-libs) -lmpfr"
ONLY = set(filter(None, os.environ.get("CONFIRM_ONLY", "").split(",")))
def sh(cmd, **kw):
    return subprocess.run(cmd, shell=True, capture_output=True, text=True, **kw)
def log(*a): print(time.strftime("%H:%M:%S"), *a, flush=True)
head = sh("git -C /repo rev-parse --short HEAD").stdout.strip()
if not WT.exists():
    sh("git -C /repo worktree add --detach %s HEAD" % WT)
else:
    sh("git -C %s checkout -- . && git -C %s checkout --detach %s" % (WT, WT, head))
if not (B / "build.ninja").exists():
    r = sh("cmake -G Ninja -S %s -B %s -DCMAKE_BUILD_TYPE=Release -DBUILD_BENCHMARKS=no -DCMAKE_CXX_COMPILER_LAUNCHER=ccache -DCMAKE_CXX_FLAGS_RELEASE=-O1 %s" % (WT, B, EXTRA_CMAKE))
    log("configure", r.returncode)
def build():
    r = sh("nice -n -5 ninja -C %s -j12" % B)
    return r.returncode, r.stdout[-1500:]
def ctest():
    r = sh("ctest --test-dir %s -j8 --timeout 1800" % B)
    ok = "100% tests passed" in r.stdout
    return ok, [l for l in r.stdout.splitlines() if "tests passed" in l or "Failed" in l][:5]
def demo(src):
    exe = "/tmp/confirm_demo"
    r = sh("g++ -std=c++11 -I%s -I%s %s %s/symengine/libsymengine.a -lgmp %s -o %s" % (WT, B, src, B, EXTRA_LIBS, exe))
    if r.returncode: return None, r.stderr[-500:]
    try:
        r = sh("timeout 300 %s" % exe)
    except Exception as e:
        return None, str(e)
    return r.returncode, (r.stdout + r.stderr)[-300:]
rc, out = build(); log("baseline build", rc)
if rc: sys.exit("baseline build failed: " + out)
okb, lb = ctest(); log("baseline ctest", okb, lb)
for outdir in sys.argv[1:]:
    for d in sorted(Path(outdir).iterdir()):
        if not (d / "patch.diff").exists(): continue
        name = d.name
        if ONLY and not any(name.startswith(o) for o in ONLY): continue
        res = dict(confirmed_at_repo=head)
        sh("git -C %s checkout -- ." % WT)
        rc0, o0 = build()
        res["demo_unpatched"] = demo(d / "demo.cpp")
        a = sh("git -C %s apply %s" % (WT, d / "patch.diff"))
        if a.returncode:
            res["apply"] = "FAILED: " + a.stderr[-300:]; log(name, res); continue
        rc, out = build()
        res["compiles"] = rc == 0
        if rc == 0:
            res["ctest_ok"], res["ctest"] = ctest()
            res["demo_patched"] = demo(d / "demo.cpp")
        ok = (res.get("compiles") and res.get("ctest_ok") and res["demo_unpatched"][0] == 0 and res["demo_patched"][0] not in (0, None))
        res["confirmed"] = bool(ok)
        log(name, json.dumps(res)[:600])
        if ok:
            dst = Path("/verif/seeded") / name
            dst.mkdir(parents=True, exist_ok=True)
            for f in ("patch.diff", "demo.cpp"):
                shutil.copy(d / f, dst / f)
            meta = json.loads((d / "meta.json").read_text())
            meta["confirmation"] = dict(by="coordinator, scratch worktree /tmp/confirm_wt at /repo " + head + (" configured with " + EXTRA_CMAKE if EXTRA_CMAKE else ""),
                                        ran="git apply; ninja; ctest (100%% passed); demo unpatched exit 0; demo patched exit %s" % res["demo_patched"][0])
            (dst / "meta.json").write_text(json.dumps(meta, indent=1))
        sh("git -C %s checkout -- ." % WT)
log("done")
