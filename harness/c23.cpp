// C23: GF(p)[x] arithmetic, gcd, square-free and full factorisation (symengine/fields.{h,cpp}).
// Op line:  gf <p> <op> <arg> [<arg> [<arg>]]     (see lean/Drv/C23.lean for the syntax)
//
// The oracle below is an independent schoolbook implementation on vector<long long>; it never
// looks at the Lean model.  It evaluates the property itself on the library's results:
// ring operations against schoolbook arithmetic, divmod by a = q*b + r and deg r < deg b,
// gcd/lcm by divisibility both ways, factorisations by multiplying back and testing every
// factor for irreducibility (brute force over all monic divisors of degree 1..d/2 when that
// is at most 60000 candidates, Rabin's test otherwise).
#include "common.h"
#include <symengine/fields.h>
#include <algorithm>
#include <set>

using SymEngine::GaloisFieldDict;
using SymEngine::integer_class;
typedef long long ll;
typedef std::vector<ll> V;

// ------------------------------------------------------------------ reference arithmetic
static ll P = 2;
static ll md(ll x)
{
    ll r = x % P;
    return r < 0 ? r + P : r;
}
static void r_strip(V &a)
{
    while (!a.empty() && a.back() == 0)
        a.pop_back();
}
static V r_norm(const V &a)
{
    V r(a.size());
    for (size_t i = 0; i < a.size(); i++)
        r[i] = md(a[i]);
    r_strip(r);
    return r;
}
static ll r_inv(ll a)
{ // extended Euclid
    ll g = P, x = 0, y = 1, b = md(a);
    while (b != 0) {
        ll q = g / b;
        ll t = g - q * b;
        g = b;
        b = t;
        t = x - q * y;
        x = y;
        y = t;
    }
    return md(x);
}
static V r_add(const V &a, const V &b)
{
    V r(std::max(a.size(), b.size()), 0);
    for (size_t i = 0; i < r.size(); i++)
        r[i] = md((i < a.size() ? a[i] : 0) + (i < b.size() ? b[i] : 0));
    r_strip(r);
    return r;
}
static V r_neg(const V &a)
{
    V r(a.size());
    for (size_t i = 0; i < a.size(); i++)
        r[i] = md(-a[i]);
    return r;
}
static V r_sub(const V &a, const V &b)
{
    return r_add(a, r_neg(b));
}
static V r_mul(const V &a, const V &b)
{
    if (a.empty() || b.empty())
        return V();
    V r(a.size() + b.size() - 1, 0);
    for (size_t i = 0; i < a.size(); i++)
        for (size_t j = 0; j < b.size(); j++)
            r[i + j] = md(r[i + j] + a[i] * b[j]);
    r_strip(r);
    return r;
}
static V r_scale(const V &a, ll c)
{
    V r(a.size());
    for (size_t i = 0; i < a.size(); i++)
        r[i] = md(a[i] * md(c));
    r_strip(r);
    return r;
}
// classical long division (subtracting multiples of b from the running remainder)
static void r_divmod(const V &a, const V &b, V &q, V &r)
{
    r = a;
    q.assign(a.size() >= b.size() ? a.size() - b.size() + 1 : 0, 0);
    ll inv = r_inv(b.back());
    while (r.size() >= b.size()) {
        size_t k = r.size() - b.size();
        ll c = md(r.back() * inv);
        q[k] = c;
        for (size_t j = 0; j < b.size(); j++)
            r[k + j] = md(r[k + j] - c * b[j]);
        r_strip(r); // the leading term cancels
    }
    r_strip(q);
}
static V r_rem(const V &a, const V &b)
{
    V q, r;
    r_divmod(a, b, q, r);
    return r;
}
static V r_quo(const V &a, const V &b)
{
    V q, r;
    r_divmod(a, b, q, r);
    return q;
}
static V r_monic(const V &a)
{
    if (a.empty())
        return a;
    return r_scale(a, r_inv(a.back()));
}
static V r_gcd(V a, V b)
{
    while (!b.empty()) {
        V r = r_rem(a, b);
        a = b;
        b = r;
    }
    return r_monic(a);
}
static V r_diff(const V &a)
{
    V r;
    for (size_t i = 1; i < a.size(); i++)
        r.push_back(md((ll)i % P * a[i]));
    r_strip(r);
    return r;
}
static V r_pow(const V &a, unsigned long n)
{
    V r(1, 1 % P);
    r_strip(r);
    for (unsigned long i = 0; i < n; i++)
        r = r_mul(r, a);
    return r;
}
static V r_powmod(const V &a, unsigned long n, const V &m)
{ // right-to-left on the bits, reducing every product
    V r(1, 1 % P), s = r_rem(a, m);
    r_strip(r);
    r = r_rem(r, m);
    while (n) {
        if (n & 1)
            r = r_rem(r_mul(r, s), m);
        s = r_rem(r_mul(s, s), m);
        n >>= 1;
    }
    return r;
}
static V r_compose_mod(const V &g, const V &h, const V &f)
{ // sum_i g_i h^i mod f, powers accumulated from the bottom
    V acc, hp(1, 1 % P);
    r_strip(hp);
    hp = r_rem(hp, f);
    for (size_t i = 0; i < g.size(); i++) {
        acc = r_add(acc, r_scale(hp, g[i]));
        hp = r_rem(r_mul(hp, h), f);
    }
    return r_rem(acc, f);
}
static ll r_eval(const V &a, ll x)
{
    ll r = 0, pw = 1 % P;
    x = md(x);
    for (size_t i = 0; i < a.size(); i++) {
        r = md(r + a[i] * pw);
        pw = md(pw * x);
    }
    return r;
}
static bool r_is_one(const V &a)
{
    return a.size() == 1 && a[0] == 1;
}
// x^(p^k) mod f
static V r_frob_pow(const V &f, unsigned k)
{
    V x;
    x.push_back(0);
    x.push_back(1);
    V r = r_rem(x, f);
    for (unsigned i = 0; i < k; i++)
        r = r_powmod(r, (unsigned long)P, f);
    return r;
}
// irreducibility of a monic g of degree d >= 1
static bool r_irreducible(const V &g, const char **how)
{
    size_t d = g.size() - 1;
    if (d == 1) {
        *how = "deg1";
        return true;
    }
    // number of monic candidates of degree 1..d/2
    double cand = 0, pw = 1;
    for (size_t k = 1; k <= d / 2; k++) {
        pw *= (double)P;
        cand += pw;
    }
    if (cand <= 60000) {
        *how = "brute";
        for (size_t k = 1; k <= d / 2; k++) {
            V c(k + 1, 0);
            c[k] = 1;
            while (true) {
                if (r_rem(g, c).empty())
                    return false;
                size_t i = 0;
                while (i < k && ++c[i] == P)
                    c[i++] = 0;
                if (i == k)
                    break;
            }
        }
        return true;
    }
    *how = "rabin";
    // Rabin: x^(p^d) = x mod g, and gcd(x^(p^(d/q)) - x, g) = 1 for the primes q | d
    V x;
    x.push_back(0);
    x.push_back(1);
    if (!r_sub(r_frob_pow(g, (unsigned)d), r_rem(x, g)).empty())
        return false;
    for (size_t q = 2; q <= d; q++) {
        if (d % q)
            continue;
        bool prime = true;
        for (size_t t = 2; t * t <= q; t++)
            if (q % t == 0)
                prime = false;
        if (!prime)
            continue;
        if (!r_is_one(r_gcd(g, r_sub(r_frob_pow(g, (unsigned)(d / q)), x))))
            return false;
    }
    return true;
}

// ------------------------------------------------------------------ conversions / printing
static V parse_poly(const std::string &s)
{
    V v;
    if (s == "z")
        return v;
    for (auto &t : split(s, ','))
        v.push_back(std::stoll(t));
    return v;
}
static GaloisFieldDict to_gf(const V &v)
{
    std::vector<integer_class> c;
    for (ll x : v)
        c.push_back(integer_class((long)x));
    return GaloisFieldDict::from_vec(c, integer_class((long)P));
}
static V from_gf(const GaloisFieldDict &g)
{
    V v;
    for (auto &c : g.dict_)
        v.push_back((ll)SymEngine::mp_get_si(c));
    return v;
}
static std::string show(const V &v)
{
    if (v.empty())
        return "z";
    std::string o;
    for (size_t i = 0; i < v.size(); i++) {
        if (i)
            o += ",";
        o += std::to_string(v[i]);
    }
    return o;
}
static std::string show(const GaloisFieldDict &g)
{
    return show(from_gf(g));
}

static std::string *g_oracle = nullptr;
static void fail(const std::string &key, const std::string &detail)
{
    if (*g_oracle == "ok")
        *g_oracle = "FAIL:" + key + ":" + detail;
}
// canonical form: all coefficients in [0,p), no trailing zero
static void check_canon(const std::string &key, const V &v)
{
    for (ll x : v)
        if (x < 0 || x >= P)
            fail(key, "coefficient outside [0,p): " + show(v));
    if (!v.empty() && v.back() == 0)
        fail(key, "trailing zero coefficient: " + show(v));
}
static void expect_eq(const std::string &key, const V &got, const V &want)
{
    check_canon(key, got);
    if (got != want)
        fail(key, "got " + show(got) + " expected " + show(want));
}

typedef std::vector<std::pair<GaloisFieldDict, unsigned>> TaggedVec;
static std::string show_tagged(const TaggedVec &l)
{
    if (l.empty())
        return "-";
    std::vector<std::string> o;
    for (auto &x : l)
        o.push_back(std::to_string(x.second) + ":" + show(x.first));
    return join(o, ";");
}
template <class S>
static std::string show_set(const S &l)
{
    if (l.empty())
        return "-";
    std::vector<std::string> o;
    for (auto &x : l)
        o.push_back(show(x));
    return join(o, ";");
}

static void check_irreducible_factor(const std::string &key, const V &g)
{
    check_canon(key, g);
    if (g.size() < 2) {
        fail(key, "constant factor " + show(g));
        return;
    }
    if (g.back() != 1)
        fail(key, "factor not monic: " + show(g));
    else {
        const char *how = "";
        bool irr = r_irreducible(g, &how);
        stat(std::string("irreducibility_") + how);
        if (!irr)
            fail(key, "factor is reducible: " + show(g));
    }
}

// The Lean driver appends the verdicts of its proven-sound certificate checks to factorisation
// lines; the expected verdicts are "#ok" (multiply-back accepted) and "#irr" (every factor passed
// brute-force irreducibility) or "#irr?" (some factor needs more than 3000 trial divisions).
static bool brute_small(const V &g)
{
    size_t d = g.size() < 2 ? 0 : g.size() - 1;
    double cost = 0, pw = 1;
    for (size_t k = 1; k <= d / 2; k++) {
        pw *= (double)P;
        cost += pw;
        if (cost > 3000)
            return false;
    }
    return true;
}
template <class It>
static std::string irr_flag(It b, It e)
{
    for (It i = b; i != e; ++i)
        if (!brute_small(*i))
            return "#irr?";
    return "#irr";
}

// the square-free decomposition property (for the monic associate of f)
static void check_sqf_list(const V &f, const TaggedVec &l)
{
    V prod(1, 1);
    std::set<unsigned> seen;
    for (size_t i = 0; i < l.size(); i++) {
        V g = from_gf(l[i].first);
        check_canon("sqf_list", g);
        if (g.size() < 2 || g.back() != 1)
            fail("sqf_list", "part not monic non-constant: " + show(g));
        if (!r_is_one(r_gcd(g, r_diff(g))))
            fail("sqf_list", "part not square-free: " + show(g));
        if (l[i].second == 0 || !seen.insert(l[i].second).second)
            fail("sqf_list", "multiplicity 0 or repeated: " + std::to_string(l[i].second));
        for (size_t j = 0; j < i; j++)
            if (!r_is_one(r_gcd(g, from_gf(l[j].first))))
                fail("sqf_list", "parts not coprime: " + show(g));
        prod = r_mul(prod, r_pow(g, l[i].second));
    }
    V want = f.size() >= 2 ? r_monic(f) : V(1, 1);
    if (prod != want)
        fail("sqf_list", "product " + show(prod) + " differs from monic input " + show(want));
}

template <class S>
static void check_full_factors(const std::string &key, const V &f, const S &facs)
{ // f monic square-free: product of the set = f, all irreducible
    V prod(1, 1);
    for (auto &g : facs) {
        V gv = from_gf(g);
        check_irreducible_factor(key, gv);
        prod = r_mul(prod, gv);
    }
    if (prod != f)
        fail(key, "product " + show(prod) + " differs from input " + show(f));
}

static void check_ddf(const std::string &key, const V &f, const TaggedVec &l)
{
    V prod(1, 1);
    V x;
    x.push_back(0);
    x.push_back(1);
    std::set<unsigned> seen;
    for (auto &it : l) {
        V g = from_gf(it.first);
        unsigned n = it.second;
        check_canon(key, g);
        prod = r_mul(prod, g);
        if (g.size() < 2 || g.back() != 1 || n == 0 || (g.size() - 1) % n != 0) {
            fail(key, "bad part " + std::to_string(n) + ":" + show(g));
            continue;
        }
        if (!seen.insert(n).second)
            fail(key, "degree repeated " + std::to_string(n));
        // every irreducible factor of g has degree exactly n
        if (!r_sub(r_frob_pow(g, n), r_rem(x, g)).empty())
            fail(key, "x^(p^n) != x mod part " + show(g));
        for (unsigned k = 1; k < n; k++)
            if (n % k == 0 && !r_is_one(r_gcd(g, r_sub(r_frob_pow(g, k), x))))
                fail(key, "part has a factor of degree " + std::to_string(k) + ": " + show(g));
    }
    if (prod != f)
        fail(key, "product " + show(prod) + " differs from input " + show(f));
}

// ------------------------------------------------------------------ one operation
static std::string run_op(const std::string &op, const std::vector<V> &raw)
{
    std::vector<V> a;
    std::vector<GaloisFieldDict> g;
    for (auto &r : raw) {
        a.push_back(r_norm(r));
        g.push_back(to_gf(r));
    }
    size_t na = raw.size();
    auto scalar = [&](size_t i) -> ll { return raw[i].empty() ? 0 : raw[i][0]; };
    stat("op_" + op);
    if (op == "fromvec" && na == 1) {
        expect_eq(op, from_gf(g[0]), a[0]);
        return show(g[0]);
    }
    if (op == "add" && na == 2) {
        GaloisFieldDict r = g[0] + g[1];
        expect_eq(op, from_gf(r), r_add(a[0], a[1]));
        return show(r);
    }
    if (op == "sub" && na == 2) {
        GaloisFieldDict r = g[0] - g[1];
        expect_eq(op, from_gf(r), r_sub(a[0], a[1]));
        return show(r);
    }
    if (op == "mul" && na == 2) {
        GaloisFieldDict r = g[0] * g[1];
        expect_eq(op, from_gf(r), r_mul(a[0], a[1]));
        return show(r);
    }
    if (op == "mula" && na == 2) {
        GaloisFieldDict r = g[0];
        r *= g[1];
        expect_eq(op, from_gf(r), r_mul(a[0], a[1]));
        return show(r);
    }
    if (op == "neg" && na == 1) {
        GaloisFieldDict r = -g[0];
        expect_eq(op, from_gf(r), r_neg(a[0]));
        return show(r);
    }
    if (op == "sqr" && na == 1) {
        GaloisFieldDict r = g[0].gf_sqr();
        expect_eq(op, from_gf(r), r_mul(a[0], a[0]));
        return show(r);
    }
    if ((op == "addc" || op == "subc") && na == 2) {
        GaloisFieldDict r = g[0];
        integer_class c((long)scalar(1));
        if (op == "addc")
            r += c;
        else
            r -= c;
        V cv(1, op == "addc" ? scalar(1) : -scalar(1));
        expect_eq(op, from_gf(r), r_add(a[0], r_norm(cv)));
        return show(r);
    }
    if (op == "mulc" && na == 2) {
        GaloisFieldDict r = g[0];
        r *= integer_class((long)scalar(1));
        expect_eq(op, from_gf(r), r_scale(a[0], scalar(1)));
        return show(r);
    }
    if (op == "pow" && na == 2) {
        GaloisFieldDict r = g[0].gf_pow((unsigned long)scalar(1));
        expect_eq(op, from_gf(r), r_pow(a[0], (unsigned long)scalar(1)));
        return show(r);
    }
    if (op == "divmod" && na == 2) {
        GaloisFieldDict q, r;
        g[0].gf_div(g[1], outArg(q), outArg(r));
        V qv = from_gf(q), rv = from_gf(r);
        check_canon(op, qv);
        check_canon(op, rv);
        if (r_add(r_mul(qv, a[1]), rv) != a[0])
            fail(op, "q*b + r != a for q=" + show(qv) + " r=" + show(rv));
        if (!rv.empty() && rv.size() >= a[1].size())
            fail(op, "deg r >= deg b for r=" + show(rv));
        return show(q) + "|" + show(r);
    }
    if (op == "quo" && na == 2) {
        GaloisFieldDict r = g[0] / g[1];
        expect_eq(op, from_gf(r), r_quo(a[0], a[1]));
        return show(r);
    }
    if (op == "rem" && na == 2) {
        GaloisFieldDict r = g[0] % g[1];
        expect_eq(op, from_gf(r), r_rem(a[0], a[1]));
        return show(r);
    }
    if (op == "gcd" && na == 2) {
        GaloisFieldDict r = g[0].gf_gcd(g[1]);
        V rv = from_gf(r);
        check_canon(op, rv);
        V want = r_gcd(a[0], a[1]);
        if (rv.empty()) {
            if (!a[0].empty() || !a[1].empty())
                fail(op, "gcd is zero for a non-zero operand");
        } else {
            if (rv.back() != 1)
                fail(op, "gcd not monic: " + show(rv));
            if (!r_rem(a[0], rv).empty() || !r_rem(a[1], rv).empty())
                fail(op, "gcd does not divide an operand: " + show(rv));
            if (want.empty() || !r_rem(rv, want).empty())
                fail(op, "gcd not divisible by the Euclid gcd " + show(want) + ": " + show(rv));
        }
        return show(r);
    }
    if (op == "lcm" && na == 2) {
        GaloisFieldDict r = g[0].gf_lcm(g[1]);
        V rv = from_gf(r);
        check_canon(op, rv);
        if (a[0].empty() || a[1].empty()) {
            if (!rv.empty())
                fail(op, "lcm with zero is not zero: " + show(rv));
        } else {
            V gg = r_gcd(a[0], a[1]);
            if (rv.empty() || rv.back() != 1)
                fail(op, "lcm not monic: " + show(rv));
            else if (!r_rem(rv, a[0]).empty() || !r_rem(rv, a[1]).empty())
                fail(op, "operand does not divide lcm " + show(rv));
            else if (rv.size() - 1 != (a[0].size() - 1) + (a[1].size() - 1) - (gg.size() - 1))
                fail(op, "lcm has the wrong degree: " + show(rv));
        }
        return show(r);
    }
    if (op == "powmod" && na == 3) {
        unsigned long n = (unsigned long)scalar(2);
        GaloisFieldDict r = g[0].gf_pow_mod(g[1], n);
        // n == 0 returns 1 without reducing (the C++ contract: "f**n % this")
        V want = n == 0 ? r_norm(V(1, 1)) : r_powmod(a[1], n, a[0]);
        expect_eq(op, from_gf(r), want);
        return show(r);
    }
    if (op == "compose" && na == 3) {
        GaloisFieldDict r = g[0].gf_compose_mod(g[1], g[2]);
        // a constant g is returned without reduction
        V want = a[1].size() <= 1 ? a[1] : r_compose_mod(a[1], a[2], a[0]);
        expect_eq(op, from_gf(r), want);
        return show(r);
    }
    if (op == "diff" && na == 1) {
        GaloisFieldDict r = g[0].gf_diff();
        expect_eq(op, from_gf(r), r_diff(a[0]));
        return show(r);
    }
    if (op == "monic" && na == 1) {
        integer_class lc;
        GaloisFieldDict r;
        g[0].gf_monic(lc, outArg(r));
        ll lcv = (ll)SymEngine::mp_get_si(lc);
        if (lcv != (a[0].empty() ? 0 : a[0].back()))
            fail(op, "wrong leading coefficient " + std::to_string(lcv));
        expect_eq(op, from_gf(r), r_monic(a[0]));
        return std::to_string(lcv) + "|" + show(r);
    }
    if (op == "eval" && na == 2) {
        integer_class x((long)scalar(1));
        integer_class r = g[0].gf_eval(x);
        ll rv = (ll)SymEngine::mp_get_si(r);
        if (md(rv) != r_eval(a[0], scalar(1)))
            fail(op, "value " + std::to_string(rv) + " not congruent to " + std::to_string(r_eval(a[0], scalar(1))));
        if (scalar(1) >= 0 && (rv < 0 || rv >= P))
            fail(op, "value outside [0,p): " + std::to_string(rv));
        return std::to_string(rv);
    }
    if (op == "issqf" && na == 1) {
        bool r = g[0].gf_is_sqf();
        bool want = a[0].empty() ? true : r_is_one(r_gcd(a[0], r_diff(a[0])));
        if (r != want)
            fail(op, std::string("got ") + (r ? "1" : "0"));
        return r ? "1" : "0";
    }
    if (op == "sqf_list" && na == 1) {
        TaggedVec l = g[0].gf_sqf_list();
        check_sqf_list(a[0], l);
        return show_tagged(l) + "#ok";
    }
    if (op == "sqf_part" && na == 1) {
        GaloisFieldDict r = g[0].gf_sqf_part();
        V rv = from_gf(r);
        check_canon(op, rv);
        // the radical of the monic associate: square-free, divides f, f divides r^deg f
        V f = a[0].size() >= 2 ? r_monic(a[0]) : V(1, 1);
        if (rv.empty() || rv.back() != 1 || !r_is_one(r_gcd(rv, r_diff(rv))))
            fail(op, "not monic square-free: " + show(rv));
        else if (!r_rem(f, rv).empty())
            fail(op, "does not divide the input: " + show(rv));
        else if (!r_powmod(rv, f.size(), f).empty() && !r_is_one(f))
            fail(op, "input does not divide a power of it: " + show(rv));
        return show(r);
    }
    if (op == "frobbase" && na == 1) {
        std::vector<GaloisFieldDict> b = g[0].gf_frobenius_monomial_base();
        V x;
        x.push_back(0);
        x.push_back(1);
        size_t n = a[0].empty() ? 0 : a[0].size() - 1;
        if (b.size() != n)
            fail(op, "wrong number of entries " + std::to_string(b.size()));
        for (size_t i = 0; i < b.size(); i++) {
            V want = i == 0 ? r_norm(V(1, 1)) : r_powmod(x, (unsigned long)(i * P), a[0]);
            expect_eq(op, from_gf(b[i]), want);
        }
        return show_set(b);
    }
    if (op == "ddfz" && na == 1) {
        TaggedVec l = g[0].gf_ddf_zassenhaus();
        check_ddf(op, a[0], l);
        return show_tagged(l);
    }
    if (op == "ddfs" && na == 1) {
        TaggedVec l = g[0].gf_ddf_shoup();
        check_ddf(op, a[0], l);
        return show_tagged(l);
    }
    if (op == "facz" && na == 1) {
        auto s = g[0].gf_zassenhaus();
        check_full_factors(op, a[0], s);
        std::vector<V> fv;
        for (auto &x : s)
            fv.push_back(from_gf(x));
        return show_set(s) + "#ok" + irr_flag(fv.begin(), fv.end());
    }
    if (op == "facs" && na == 1) {
        auto s = g[0].gf_shoup();
        check_full_factors(op, a[0], s);
        std::vector<V> fv;
        for (auto &x : s)
            fv.push_back(from_gf(x));
        return show_set(s) + "#ok" + irr_flag(fv.begin(), fv.end());
    }
    if (op == "factor" && na == 1) {
        auto r = g[0].gf_factor();
        ll lc = (ll)SymEngine::mp_get_si(r.first);
        if (lc != (a[0].empty() ? 0 : a[0].back()))
            fail(op, "wrong leading coefficient " + std::to_string(lc));
        V prod(1, lc);
        prod = r_norm(prod);
        TaggedVec l;
        std::vector<V> fv;
        for (auto &it : r.second) {
            V gv = from_gf(it.first);
            fv.push_back(gv);
            check_irreducible_factor(op, gv);
            if (it.second == 0)
                fail(op, "multiplicity 0");
            prod = r_mul(prod, r_pow(gv, it.second));
            l.push_back(it);
        }
        if (prod != a[0])
            fail(op, "lc * product " + show(prod) + " differs from input " + show(a[0]));
        return std::to_string(lc) + "|" + show_tagged(l) + "#ok" + irr_flag(fv.begin(), fv.end());
    }
    return "bad-op";
}

std::string hx_run(const std::string &line, std::string &oracle)
{
    auto w = split(line, ' ');
    if (w.size() < 4 || w[0] != "gf")
        return "bad-op";
    P = std::stoll(w[1]);
    std::vector<V> raw;
    for (size_t i = 3; i < w.size(); i++)
        raw.push_back(parse_poly(w[i]));
    g_oracle = &oracle;
    return run_op(w[2], raw);
}

// ------------------------------------------------------------------ generation
static const char *BIN_OPS[] = {"add", "sub", "mul", "mula", "divmod", "quo", "rem", "gcd", "lcm"};
static const char *UN_OPS[] = {"neg", "sqr", "diff", "monic", "issqf", "sqf_list", "sqf_part", "factor", "frobbase"};

static bool is_prime(unsigned n)
{
    if (n < 2)
        return false;
    for (unsigned d = 2; d * d <= n; d++)
        if (n % d == 0)
            return false;
    return true;
}
static unsigned rand_prime(Rng &r, unsigned hi)
{
    while (true) {
        unsigned n = 2 + (unsigned)r.below(hi - 2);
        if (is_prime(n))
            return n;
    }
}
// k-th polynomial of the enumeration of all coefficient vectors of length <= len over [0,p)
static V nth_poly(ll k, unsigned p, unsigned len)
{
    V v(len);
    for (unsigned i = 0; i < len; i++) {
        v[i] = k % p;
        k /= p;
    }
    r_strip(v);
    return v;
}
static ll count_polys(unsigned p, unsigned len)
{
    ll c = 1;
    for (unsigned i = 0; i < len; i++)
        c *= p;
    return c;
}
static V rand_poly(Rng &r, unsigned p, unsigned maxdeg, bool noisy = false)
{
    unsigned len = (unsigned)r.below(maxdeg + 2);
    V v(len);
    for (auto &c : v) {
        c = (ll)r.below(p);
        if (r.coin(1, 5))
            c = 0;
        if (noisy && r.coin(1, 6))
            c += (ll)p * r.range(-2, 2); // unreduced / negative input through from_vec
    }
    if (len && r.coin(3, 4) && md(v.back()) == 0)
        v.back() = 1;
    return v;
}
static V rand_monic(Rng &r, unsigned p, unsigned deg)
{
    V v(deg + 1);
    for (auto &c : v)
        c = (ll)r.below(p);
    v[deg] = 1;
    return v;
}
static std::string pfx(unsigned p, const std::string &op)
{
    return "gf " + std::to_string(p) + " " + op;
}
static void emit_bin_all(unsigned p, const V &a, const V &b, const std::string &tag)
{
    for (auto op : BIN_OPS)
        emit(pfx(p, op) + " " + show(a) + " " + show(b), tag);
}
static void emit_un_all(unsigned p, const V &a, const std::string &tag)
{
    for (auto op : UN_OPS)
        emit(pfx(p, op) + " " + show(a), tag);
    if (a.size() >= 2 && a.back() == 1) {
        P = p;
        if (r_is_one(r_gcd(a, r_diff(a)))) // monic square-free: the precondition of the ddf/edf entry points
            for (auto op : {"ddfz", "ddfs", "facz", "facs"})
                emit(pfx(p, op) + " " + show(a), tag);
    }
}

void hx_gen(Rng &r, const std::string &tier)
{
    bool th = tier == "thorough";
    // ---- boundary cases
    for (unsigned p : {2u, 3u, 5u, 7u, 65521u}) {
        emit(pfx(p, "rem") + " 1,2,1 z", "divzero");
        emit(pfx(p, "quo") + " z z", "divzero");
        emit(pfx(p, "divmod") + " 1,1 z", "divzero");
        emit(pfx(p, "powmod") + " z 1,1 3", "divzero");
        emit(pfx(p, "powmod") + " z 1,1 0", "divzero");
        emit(pfx(p, "compose") + " z 1,1 0,1", "divzero");
        emit(pfx(p, "compose") + " z 1 0,1", "divzero");
        emit(pfx(p, "compose") + " 0,1 1,0,1 0,1", "compose-zero-intermediate");
        emit(pfx(p, "compose") + " 0,0,1 1,1 z", "compose-zero-intermediate");
        emit(pfx(p, "addc") + " z 1", "const");
        emit(pfx(p, "subc") + " z 1", "const");
        emit(pfx(p, "addc") + " 1 -1", "const");
        emit(pfx(p, "eval") + " 0,1 -1", "eval-negative");
        emit(pfx(p, "fromvec") + " -1,0," + std::to_string(p) + ",-" + std::to_string(2 * p), "fromvec");
        for (unsigned n : {0u, 1u, 2u, 3u, 4u, 5u, 8u})
            emit(pfx(p, "pow") + " 1,1 " + std::to_string(n), "pow-small");
    }
    // ---- exhaustive / sampled enumeration for tiny fields
    // lenBin: all pairs x all binary ops; lenLite: all pairs x {mul, divmod, gcd}; lenUn: all unary ops
    struct Ex { unsigned p, lenBin, lenLite, lenUn; };
    std::vector<Ex> exs = {{2, 7, 0, 10}, {3, 5, 0, 6}, {5, 3, 4, 5}, {7, 3, 0, 5}};
    for (auto &e : exs) {
        ll nb = count_polys(e.p, e.lenBin), nu = count_polys(e.p, e.lenUn);
        if (th) {
            for (ll i = 0; i < nb; i++)
                for (ll j = 0; j < nb; j++)
                    emit_bin_all(e.p, nth_poly(i, e.p, e.lenBin), nth_poly(j, e.p, e.lenBin), "exh-bin-p" + std::to_string(e.p));
            if (e.lenLite) {
                ll nl = count_polys(e.p, e.lenLite);
                for (ll i = 0; i < nl; i++)
                    for (ll j = 0; j < nl; j++) {
                        if (i < nb && j < nb)
                            continue;
                        V a = nth_poly(i, e.p, e.lenLite), b = nth_poly(j, e.p, e.lenLite);
                        for (auto op : {"mul", "divmod", "gcd"})
                            emit(pfx(e.p, op) + " " + show(a) + " " + show(b), "exh-lite-p" + std::to_string(e.p));
                    }
            }
            for (ll i = 0; i < nu; i++)
                emit_un_all(e.p, nth_poly(i, e.p, e.lenUn), "exh-un-p" + std::to_string(e.p));
        } else {
            for (int t = 0; t < 250; t++)
                emit_bin_all(e.p, nth_poly((ll)r.below(nb), e.p, e.lenBin), nth_poly((ll)r.below(nb), e.p, e.lenBin),
                             "smp-bin-p" + std::to_string(e.p));
            for (int t = 0; t < 150; t++)
                emit_un_all(e.p, nth_poly((ll)r.below(nu), e.p, e.lenUn), "smp-un-p" + std::to_string(e.p));
        }
        // ternary / scalar ops on a sample
        int nt = th ? 3000 : 150;
        for (int t = 0; t < nt; t++) {
            V f = nth_poly((ll)r.below(nb), e.p, e.lenBin), g = nth_poly((ll)r.below(nb), e.p, e.lenBin),
              h = nth_poly((ll)r.below(nb), e.p, e.lenBin);
            std::string tag = "smp-ter-p" + std::to_string(e.p);
            emit(pfx(e.p, "compose") + " " + show(f) + " " + show(g) + " " + show(h), tag);
            emit(pfx(e.p, "powmod") + " " + show(f) + " " + show(g) + " " + std::to_string(r.below(3 * e.p + 3)), tag);
            emit(pfx(e.p, "pow") + " " + show(g) + " " + std::to_string(r.below(9)), tag);
            emit(pfx(e.p, "eval") + " " + show(g) + " " + std::to_string(r.range(-3, 2 * e.p)), tag);
            emit(pfx(e.p, "addc") + " " + show(g) + " " + std::to_string(r.range(-2 * (ll)e.p, 2 * e.p)), tag);
            emit(pfx(e.p, "subc") + " " + show(g) + " " + std::to_string(r.range(-2 * (ll)e.p, 2 * e.p)), tag);
            emit(pfx(e.p, "mulc") + " " + show(g) + " " + std::to_string(r.below(2 * e.p)), tag);
        }
    }
    // ---- random primes < 2^16, degree <= 30
    int n = th ? 6000 : 500;
    for (int t = 0; t < n; t++) {
        unsigned p = r.coin(1, 4) ? (unsigned)r.pick(std::vector<unsigned>{2, 3, 5, 7, 11, 13}) : rand_prime(r, 65536);
        unsigned maxdeg = p == 2 ? 12 : 30;
        std::string tag = p < 16 ? "rnd-smallp" : "rnd-bigp";
        V a = rand_poly(r, p, maxdeg, true), b = rand_poly(r, p, r.coin() ? maxdeg : maxdeg / 3, true);
        unsigned k = (unsigned)r.below(10);
        if (k < 4) {
            emit(pfx(p, r.pick(std::vector<std::string>(BIN_OPS, BIN_OPS + 9))) + " " + show(a) + " " + show(b), tag);
            emit(pfx(p, "divmod") + " " + show(a) + " " + show(b), tag);
            emit(pfx(p, "gcd") + " " + show(a) + " " + show(b), tag);
        } else if (k < 6) {
            // operands with a planted common factor
            P = p;
            V c = rand_poly(r, p, 6);
            V ac = r_mul(r_norm(a), r_norm(c)), bc = r_mul(r_norm(b), r_norm(c));
            if (ac.size() <= 40 && bc.size() <= 40) {
                emit(pfx(p, "gcd") + " " + show(ac) + " " + show(bc), tag + "-common");
                emit(pfx(p, "lcm") + " " + show(ac) + " " + show(bc), tag + "-common");
                emit(pfx(p, "divmod") + " " + show(ac) + " " + show(r_norm(c)), tag + "-common");
            }
        } else if (k < 7) {
            V f = rand_poly(r, p, maxdeg / 2);
            emit(pfx(p, "powmod") + " " + show(f) + " " + show(a) + " " + std::to_string(r.coin() ? r.below(40) : r.below(70000)), tag);
            emit(pfx(p, "compose") + " " + show(f) + " " + show(rand_poly(r, p, 8)) + " " + show(b), tag);
            emit(pfx(p, "pow") + " " + show(rand_poly(r, p, 6)) + " " + std::to_string(r.below(8)), tag);
            emit(pfx(p, "eval") + " " + show(a) + " " + std::to_string(r.range(-5, 2 * (ll)p)), tag);
        } else if (k < 8) {
            for (auto op : {"neg", "sqr", "diff", "monic", "issqf"})
                emit(pfx(p, op) + " " + show(a), tag);
        } else {
            // a polynomial with planted repeated factors: prod f_i^{e_i}
            P = p;
            V f(1, 1 + (ll)r.below(p - 1));
            unsigned parts = 1 + (unsigned)r.below(4);
            unsigned budget = p == 2 ? 12 : (p < 16 ? 18 : 14);
            for (unsigned i = 0; i < parts; i++) {
                unsigned d = 1 + (unsigned)r.below(4);
                unsigned e = 1 + (unsigned)r.below(r.coin(1, 3) ? (p < 8 ? 2 * p : 4) : 2);
                if (d * e > budget)
                    continue;
                budget -= d * e;
                f = r_mul(f, r_pow(rand_monic(r, p, d), e));
            }
            std::string tg = tag + "-planted";
            emit(pfx(p, "sqf_list") + " " + show(f), tg);
            emit(pfx(p, "sqf_part") + " " + show(f), tg);
            emit(pfx(p, "factor") + " " + show(f), tg);
            emit(pfx(p, "issqf") + " " + show(f), tg);
            V m = rand_monic(r, p, 1 + (unsigned)r.below(p == 2 ? 11 : 12));
            if (r_is_one(r_gcd(m, r_diff(m))))
                for (auto op : {"ddfz", "ddfs", "facz", "facs"})
                    emit(pfx(p, op) + " " + show(m), tag + "-sqf");
            emit(pfx(p, "frobbase") + " " + show(m), tag);
        }
    }
}
