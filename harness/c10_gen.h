// Random expression generators shared by the C10 (diff) and C11 (subs) harnesses.
// Everything derives from the Rng in G.  Families are selected by the K_* bit mask.
#ifndef VERIF_C10_GEN_H
#define VERIF_C10_GEN_H
#include "common.h"
#include "sexp.h"
#include "c10_eval.h"

namespace dgen
{
using namespace SymEngine;
using dev::B;

struct G {
    Rng &r;
    int nsyms;
    explicit G(Rng &rr) : r(rr), nsyms(3) {}
};

static B bs(const char *n)
{
    return symbol(n);
}
static B gsym(G &g)
{
    static const char *names[] = {"x", "y", "z"};
    unsigned k = (unsigned)g.r.below(10);
    return symbol(names[k < 6 ? 0 : (k < 9 ? 1 : 2)]);
}
static B gint(G &g, bool nonzero = false)
{
    long n = g.r.range(-5, 6);
    if (nonzero && n == 0)
        n = 2;
    return integer(n);
}
static B gnum(G &g)
{
    if (g.r.coin(1, 3)) {
        long n = g.r.range(-7, 7), d = g.r.range(2, 5);
        if (n == 0)
            n = 1;
        return Rational::from_two_ints(*integer(n), *integer(d));
    }
    return gint(g, true);
}

// rational-function fragment
static B grat(G &g, int depth)
{
    if (depth <= 0)
        return g.r.coin(3, 4) ? gsym(g) : gnum(g);
    unsigned k = (unsigned)g.r.below(100);
    try {
        if (k < 35) {
            vec_basic v;
            int n = 2 + (int)g.r.below(2);
            for (int i = 0; i < n; i++)
                v.push_back(grat(g, depth - 1));
            if (g.r.coin(1, 3))
                v.push_back(gnum(g));
            return add(v);
        }
        if (k < 65) {
            vec_basic v;
            int n = 2 + (int)g.r.below(2);
            for (int i = 0; i < n; i++)
                v.push_back(grat(g, depth - 1));
            if (g.r.coin(1, 3))
                v.push_back(gnum(g));
            return mul(v);
        }
        if (k < 90) {
            static const long exps[] = {2, 3, -1, -2, 2, -1, 4, -3};
            return pow(grat(g, depth - 1), integer(exps[g.r.below(8)]));
        }
    } catch (const std::exception &) {
    }
    return gsym(g);
}

static B simple_arg(G &g)
{
    switch (g.r.below(8)) {
        case 0:
        case 1:
        case 2: return gsym(g);
        case 3: return add(gsym(g), gnum(g));
        case 4: return add(symbol("x"), symbol("y"));
        case 5: return mul(gnum(g), gsym(g));
        case 6: return pow(gsym(g), integer(2));
        default: return mul(symbol("x"), symbol("y"));
    }
}

typedef B (*Fn1)(const B &);
static B f_exp(const B &a) { return exp(a); }
static B f_sqrt(const B &a) { return sqrt(a); }
static const Fn1 ELEM[] = {sin, cos, tan, cot, sec, csc, sinh, cosh, tanh, coth, sech, csch, log, f_exp, f_sqrt};
static const Fn1 INVF[] = {asin, acos, atan, acot, asec, acsc, asinh, acosh, atanh, acoth, asech, acsch};
static const Fn1 SPEC1[] = {gamma, loggamma, erf, erfc, lambertw};

enum { K_ELEM = 1, K_INV = 2, K_RAD = 4, K_SYMPOW = 8, K_SPEC = 16, K_FSYM = 32, K_ABS = 64 };

static B gexpr(G &g, int depth, int kinds);

static B gfun(G &g, int depth, int kinds)
{
    std::vector<int> avail;
    if (kinds & K_ELEM) {
        avail.push_back(K_ELEM);
        avail.push_back(K_ELEM);
    }
    if (kinds & K_INV)
        avail.push_back(K_INV);
    if (kinds & K_SPEC)
        avail.push_back(K_SPEC);
    if (kinds & K_FSYM) {
        avail.push_back(K_FSYM);
        avail.push_back(K_FSYM);
    }
    if (kinds & K_ABS)
        avail.push_back(K_ABS);
    if (avail.empty())
        return gexpr(g, depth - 1, kinds);
    int k = avail[g.r.below(avail.size())];
    B a = g.r.coin(1, 2) ? gexpr(g, depth - 1, kinds) : simple_arg(g);
    switch (k) {
        case K_ELEM: return ELEM[g.r.below(sizeof ELEM / sizeof ELEM[0])](a);
        case K_INV: return INVF[g.r.below(sizeof INVF / sizeof INVF[0])](g.r.coin(2, 3) ? simple_arg(g) : a);
        case K_ABS: return abs(a);
        case K_SPEC: {
            unsigned j = (unsigned)g.r.below(11);
            B s = simple_arg(g);
            if (j < 5)
                return SPEC1[j](g.r.coin(2, 3) ? s : a);
            if (j == 5)
                return polygamma(integer((long)g.r.below(3)), s);
            if (j == 6)
                return zeta(g.r.coin() ? B(integer(2 + (long)g.r.below(3))) : bs("y"), s);
            if (j == 7)
                return beta(s, simple_arg(g));
            if (j == 8)
                return lowergamma(g.r.coin() ? B(integer(1 + (long)g.r.below(3))) : bs("y"), s);
            if (j == 9)
                return uppergamma(g.r.coin() ? B(integer(1 + (long)g.r.below(3))) : bs("y"), s);
            return atan2(s, simple_arg(g));
        }
        default: { // K_FSYM
            unsigned j = (unsigned)g.r.below(6);
            if (j < 3)
                return function_symbol("f", a);
            if (j < 5)
                return function_symbol("g", vec_basic{a, g.r.coin() ? simple_arg(g) : gexpr(g, depth - 1, kinds)});
            return function_symbol("h", vec_basic{simple_arg(g), a, gsym(g)});
        }
    }
}

static B gexpr(G &g, int depth, int kinds)
{
    if (depth <= 0)
        return g.r.coin(3, 4) ? gsym(g) : (g.r.coin(1, 6) ? (g.r.coin() ? B(pi) : B(E)) : gnum(g));
    unsigned k = (unsigned)g.r.below(100);
    try {
        if (k < 20) {
            vec_basic v;
            int n = 2 + (int)g.r.below(2);
            for (int i = 0; i < n; i++)
                v.push_back(gexpr(g, depth - 1, kinds));
            return add(v);
        }
        if (k < 40) {
            vec_basic v;
            int n = 2 + (int)g.r.below(2);
            for (int i = 0; i < n; i++)
                v.push_back(gexpr(g, depth - 1, kinds));
            return mul(v);
        }
        if (k < 55) {
            B b = gexpr(g, depth - 1, kinds);
            unsigned j = (unsigned)g.r.below(100);
            if ((kinds & K_RAD) && j < 30) {
                static const long ns[] = {1, -1, 3, -3, 1, 2, 5, -2};
                static const long ds[] = {2, 2, 2, 2, 3, 3, 2, 3};
                unsigned i = (unsigned)g.r.below(8);
                return pow(b, Rational::from_two_ints(*integer(ns[i]), *integer(ds[i])));
            }
            if ((kinds & K_SYMPOW) && j < 60) {
                unsigned i = (unsigned)g.r.below(5);
                if (i == 0)
                    return pow(integer(2 + (long)g.r.below(3)), gexpr(g, depth - 1, kinds));
                if (i == 1)
                    return pow(b, gsym(g));
                if (i == 2)
                    return pow(gsym(g), gexpr(g, depth - 1, kinds));
                if (i == 3)
                    return pow(add(pow(gsym(g), integer(2)), integer(1)), gexpr(g, depth - 1, kinds));
                return pow(b, pi);
            }
            static const long exps[] = {2, 3, -1, -2, 2, -1, 4};
            return pow(b, integer(exps[g.r.below(7)]));
        }
        return gfun(g, depth, kinds);
    } catch (const std::exception &) {
    }
    return gsym(g);
}


// an expression in which the subterm t occurs several times (exercises the `visited` tables)
static B shared(G &g, const B &t, int kinds)
{
    B u = gexpr(g, 1, kinds);
    switch (g.r.below(6)) {
        case 0: return add(mul(sin(t), t), div(exp(t), add(integer(1), pow(t, integer(2)))));
        case 1: return mul(mul(t, cos(t)), pow(add(t, u), integer(2)));
        case 2: return add(add(pow(t, integer(3)), mul(u, pow(t, integer(-1)))), log(add(pow(t, integer(2)), integer(1))));
        case 3: return div(add(t, u), sub(pow(t, integer(2)), u));
        case 4: return function_symbol("g", vec_basic{t, mul(t, u)});
        default: return add(mul(pow(t, integer(2)), function_symbol("f", t)), mul(u, function_symbol("f", t)));
    }
}


// Expressions with unevaluated Derivative / Subs nodes, built *structurally* (the generator never calls the
// library's diff or subs: a defect there must not be able to hang or crash the generator).
static B binder_term(G &g, int kinds)
{
    static const char *fn[] = {"f", "g", "h"};
    int ar = 1 + (int)g.r.below(3);
    vec_basic args;
    for (int i = 0; i < ar; i++)
        args.push_back(g.r.coin() ? gsym(g) : (g.r.coin() ? simple_arg(g) : gexpr(g, 1, kinds)));
    int i = (int)g.r.below(ar);
    std::string nm = fn[ar - 1];
    int order = 1 + (int)g.r.below(2);
    // a plain symbol that occurs in no other argument: the library writes Derivative(f(.., s, ..), s), never a Subs
    bool alone = is_a<Symbol>(*args[i]);
    for (int k = 0; k < ar && alone; k++)
        if (k != i && has_symbol(*args[k], *rcp_static_cast<const Symbol>(args[i])))
            alone = false;
    if (alone) {
        multiset_basic ms;
        for (int k = 0; k < order; k++)
            ms.insert(args[i]);
        return Derivative::create(function_symbol(nm, args), ms); // throws unless canonical
    }
    vec_basic a2 = args;
    multiset_basic ms;
    map_basic_basic m;
    B xi = symbol("_xi_" + std::to_string(i + 1));
    a2[i] = xi;
    m[xi] = args[i];
    for (int k = 0; k < order; k++)
        ms.insert(xi);
    if (ar >= 2 && g.r.coin(1, 3) && !is_a<Symbol>(*args[(i + 1) % ar])) {
        int j = (i + 1) % ar;
        B xj = symbol("_xi_" + std::to_string(j + 1));
        m[xj] = args[j];
        a2[j] = xj;
        ms.insert(xj);
    }
    return make_rcp<const Subs>(Derivative::create(function_symbol(nm, a2), ms), m);
}

// the mixed second derivative of g(s, s): Subs(Derivative(g(_xi_1, _xi_2), _xi_1, _xi_2), (_xi_1, _xi_2), (s, s))
static B binder_same_point(G &g)
{
    B s = gsym(g);
    B x1 = symbol("_xi_1"), x2 = symbol("_xi_2");
    multiset_basic ms;
    ms.insert(x1);
    ms.insert(x2);
    map_basic_basic m;
    m[x1] = s;
    m[x2] = s;
    if (g.r.coin())
        return make_rcp<const Subs>(Derivative::create(function_symbol("g", vec_basic{x1, x2}), ms), m);
    return make_rcp<const Subs>(
        Derivative::create(function_symbol("h", vec_basic{add(gsym(g), integer(-3)), x1, x2}), ms), m);
}

static B binder_expr(G &g, int kinds)
{
    vec_basic terms;
    int n = 1 + (int)g.r.below(3);
    for (int k = 0; k < n; k++) {
        for (int attempt = 0; attempt < 6; attempt++) {
            try {
                B t = g.r.coin(1, 12) ? binder_same_point(g) : binder_term(g, kinds);
                terms.push_back(g.r.coin() ? mul(t, gexpr(g, 1, kinds)) : t);
                break;
            } catch (const std::exception &) {
            }
        }
    }
    if (terms.empty())
        return function_symbol("f", symbol("x"));
    if (g.r.coin(1, 4))
        terms.push_back(gexpr(g, 2, kinds));
    return add(terms);
}


// Subs objects that bind the *differentiation variable itself* while the point still depends on it, e.g.
// Subs(Derivative(f(x), x), {x: x**2}) or Subs(Derivative(g(x, y), y), {x: 3*x, y: x}): diff's own results only use
// fresh dummies as Subs variables, so the branch of DiffVisitor::bvisit(const Subs &) for a key equal to x is reached
// only by such inputs (which subs() on a Derivative produces).  Built structurally.
static B binder_bound_var(G &g, const std::string &xn)
{
    B x = symbol(xn), y = symbol(xn == "x" ? "y" : "x");
    B pts[] = {pow(x, integer(2)), mul(integer(3), x), add(x, y), sin(x), add(pow(x, integer(2)), y), exp(x),
               mul(x, y), add(x, integer(1))};
    B pt = pts[g.r.below(8)];
    B pt2 = pts[g.r.below(8)];
    B t;
    switch (g.r.below(5)) {
        case 0: {
            multiset_basic ms;
            ms.insert(x);
            if (g.r.coin(1, 3))
                ms.insert(x);
            map_basic_basic m;
            m[x] = pt;
            t = make_rcp<const Subs>(Derivative::create(function_symbol("f", x), ms), m);
            break;
        }
        case 1: { // both arguments bound, the second one to x itself
            multiset_basic ms;
            ms.insert(y);
            map_basic_basic m;
            m[x] = pt;
            m[y] = x;
            t = make_rcp<const Subs>(Derivative::create(function_symbol("g", vec_basic{x, y}), ms), m);
            break;
        }
        case 2: { // y stays free
            multiset_basic ms;
            ms.insert(x);
            map_basic_basic m;
            m[x] = pt;
            t = make_rcp<const Subs>(Derivative::create(function_symbol("g", vec_basic{x, y}), ms), m);
            break;
        }
        case 3: {
            multiset_basic ms;
            ms.insert(x);
            ms.insert(y);
            map_basic_basic m;
            m[x] = pt;
            m[y] = pt2;
            t = make_rcp<const Subs>(Derivative::create(function_symbol("g", vec_basic{x, y}), ms), m);
            break;
        }
        default: { // x bound to a point without x next to a dummy bound to a point with x
            B xi = symbol("_xi_2");
            multiset_basic ms;
            ms.insert(x);
            ms.insert(xi);
            map_basic_basic m;
            m[x] = g.r.coin() ? pt : B(y);
            m[xi] = pt2;
            t = make_rcp<const Subs>(Derivative::create(function_symbol("g", vec_basic{x, xi}), ms), m);
            break;
        }
    }
    switch (g.r.below(4)) {
        case 0: return t;
        case 1: return mul(t, gsym(g));
        case 2: return add(t, function_symbol("f", x));
        default: return mul(t, sin(x));
    }
}

// all subterms reachable through get_args(), preorder
static void subterms(const B &e, vec_basic &out)
{
    out.push_back(e);
    for (const auto &a : e->get_args())
        subterms(a, out);
}

} // namespace dgen
#endif
