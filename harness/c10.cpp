// C10 — differentiation is correct.
//
// op line:   diff <cache:0|1> <x> <e>        e = canonical dump of the expression, x = symbol name
// output:    canonical dump of diff(e, x, cache)          (checked by the Lean certificate checker)
// oracle (independent of the Lean model and of the library's diff/subs/eval):
//   cache     diff(e,x,true) and diff(e,x,false) must be `eq`
//   absent    x not in free_symbols(e)  =>  the result is exactly Integer 0
//   value     forward-mode dual-number evaluation of the *recipe e* (c10_eval.h) at sample points vs
//             evaluation of the library's result:  exact rationals on the rational-function fragment
//             (FunctionSymbols get polynomial bodies, Derivative nodes are evaluated by nested duals,
//             Subs nodes by environment extension -> the chain rule for unevaluated derivatives is
//             checked by "substitute a concrete f before and after"), otherwise long double / double
//             at generic complex points (elementary functions, principal branches) and positive real
//             points (special functions), with a precision-difference error estimate.
#include "common.h"
#include "sexp.h"
#include "c10_eval.h"
#include "c10_gen.h"
#include <symengine/parser.h>

using namespace SymEngine;
using namespace dev;

// ------------------------------------------------------------------ value oracle
template <class S>
static void eval_pair(const Basic &e, const std::string &x, const Basic &R, const std::map<std::string, S> &env,
                      S &want, S &got)
{
    std::map<std::string, Dual<S>> denv;
    for (typename std::map<std::string, S>::const_iterator it = env.begin(); it != env.end(); ++it)
        denv[it->first] = Ops<Dual<S>>::lift(it->second);
    denv[x].d = Ops<S>::fromLong(1);
    Dual<S> r = Ev<Dual<S>, 1>::eval(e, denv);
    want = r.d;
    got = Ev<S, 0>::eval(R, env);
}

static std::string qstr(const Q &q)
{
    std::ostringstream ss;
    ss << q;
    std::string s = ss.str();
    if (s.size() > 60)
        s = s.substr(0, 60) + "...";
    return s;
}
template <class T>
static std::string fstr(const T &v)
{
    std::ostringstream ss;
    ss.precision(17);
    ss << (double)v;
    return ss.str();
}
template <class T>
static std::string fstr(const std::complex<T> &v)
{
    std::ostringstream ss;
    ss.precision(17);
    ss << "(" << (double)v.real() << "," << (double)v.imag() << ")";
    return ss.str();
}

// returns: 1 judged ok, 0 point discarded, -1 unsupported (no point of this kind can work), 2 failed
template <class SL, class SD>
static int numeric_point(const Basic &e, const std::string &x, const Basic &R, const std::map<std::string, SL> &envL,
                         const std::map<std::string, SD> &envD, const char *kind, std::string &oracle)
{
    SL wantL, gotL;
    SD wantD, gotD;
    try {
        eval_pair<SL>(e, x, R, envL, wantL, gotL);
        eval_pair<SD>(e, x, R, envD, wantD, gotD);
    } catch (const Unsup &u) {
        stat(std::string("value_") + kind + "_unsupported");
        stat("unsup:" + u.why);
        return -1;
    } catch (const Sing &s) {
        stat(std::string("value_") + kind + "_point_discarded_singular");
        return 0;
    }
    long double err = (long double)cabsT(wantL - SL(wantD)) + (long double)cabsT(gotL - SL(gotD));
    long double scale = std::max((long double)1, std::max((long double)cabsT(wantL), (long double)cabsT(gotL)));
    if (!(err <= 1e-6L * scale)) {
        stat(std::string("value_") + kind + "_point_discarded_illconditioned");
        return 0;
    }
    long double diff = (long double)cabsT(wantL - gotL);
    if (!(diff <= 1e-9L * scale + 50 * err)) {
        std::string key = std::string("value-") + kind;
        if (has_kind(e, is_acosh)) {
            // known defect: d/dx acosh(x) is coded as 1/sqrt(x^2-1); does the mismatch disappear under that rule?
            try {
                g_acosh_as_coded = true;
                SL w2, g2;
                eval_pair<SL>(e, x, R, envL, w2, g2);
                g_acosh_as_coded = false;
                if ((long double)cabsT(w2 - g2) <= 1e-9L * scale + 50 * err)
                    key = "acosh-left-halfplane";
            } catch (...) {
                g_acosh_as_coded = false;
            }
        }
        oracle = std::string("FAIL:") + key + ":derivative of recipe = " + fstr(wantL) + " library result = "
                 + fstr(gotL) + " at ";
        for (typename std::map<std::string, SL>::const_iterator it = envL.begin(); it != envL.end(); ++it)
            oracle += it->first + "=" + fstr(it->second) + " ";
        return 2;
    }
    stat(std::string("value_") + kind + "_points_ok");
    return 1;
}

static void value_oracle(const B &e, const std::string &x, const B &R, const std::string &opline, std::string &oracle)
{
    std::set<std::string> syms;
    collect_symbols(*e, syms);
    collect_symbols(*R, syms);
    syms.insert(x);
    // exact
    bool exact_possible = true;
    int exact_ok = 0;
    for (int k = 0; k < 3 && exact_possible; k++) {
        std::map<std::string, Q> env;
        for (const auto &s : syms)
            env[s] = pointQ(strhash(opline + "#" + s, 100 + k));
        try {
            Q want, got;
            eval_pair<Q>(*e, x, *R, env, want, got);
            if (!(want == got)) {
                oracle = "FAIL:value-exact:derivative of recipe = " + qstr(want) + " library result = " + qstr(got)
                         + " at ";
                for (const auto &p : env)
                    oracle += p.first + "=" + qstr(p.second) + " ";
                return;
            }
            exact_ok++;
            stat("value_exact_points_ok");
        } catch (const Unsup &) {
            exact_possible = false;
        } catch (const Sing &) {
            stat("value_exact_point_discarded_singular");
        }
    }
    if (exact_ok > 0) {
        stat("value_checked_exact");
        return;
    }
    // numeric: complex points, then positive real points
    int okc = 0, okr = 0;
    for (int k = 0; k < 3; k++) {
        std::map<std::string, std::complex<long double>> envL;
        std::map<std::string, std::complex<double>> envD;
        for (const auto &s : syms) {
            std::complex<long double> p = pointC(strhash(opline + "#" + s, 200 + k));
            envL[s] = p;
            envD[s] = std::complex<double>((double)p.real(), (double)p.imag());
            envL[s] = std::complex<long double>((long double)envD[s].real(), (long double)envD[s].imag());
        }
        int rc = numeric_point<std::complex<long double>, std::complex<double>>(*e, x, *R, envL, envD, "complex",
                                                                                 oracle);
        if (rc == 2)
            return;
        if (rc == -1)
            break;
        okc += rc;
    }
    for (int k = 0; k < 4; k++) {
        std::map<std::string, long double> envL;
        std::map<std::string, double> envD;
        for (const auto &s : syms) {
            double p = (double)pointR(strhash(opline + "#" + s, 300 + k));
            envD[s] = p;
            envL[s] = (long double)p;
        }
        int rc = numeric_point<long double, double>(*e, x, *R, envL, envD, "real", oracle);
        if (rc == 2)
            return;
        if (rc == -1)
            break;
        okr += rc;
    }
    if (okc + okr > 0)
        stat("value_checked_numeric");
    else
        stat("value_not_checked");
}

// ------------------------------------------------------------------ run
std::string hx_run(const std::string &line, std::string &oracle)
{
    std::vector<std::string> w = split(line, ' ');
    if (w.size() < 4 || w[0] != "diff")
        throw std::runtime_error("bad op");
    bool cache = w[1] == "1";
    std::string xname = w[2];
    std::string rest = line.substr(w[0].size() + w[1].size() + w[2].size() + 3);
    B e = vsexp::parse(rest);
    RCP<const Symbol> x = symbol(xname);

    B r1 = diff(e, x, true);
    B r0 = diff(e, x, false);
    B R = cache ? r1 : r0;
    std::string out = vsexp::dump(R);
    if (!eq(*r1, *r0)) {
        oracle = "FAIL:cache:cached " + vsexp::dump(r1) + " uncached " + vsexp::dump(r0);
        return out;
    }
    set_basic fs = free_symbols(*e);
    bool present = fs.find(x) != fs.end();
    if (!present) {
        stat("absent_symbol_cases");
        if (!(is_a<Integer>(*R) && down_cast<const Integer &>(*R).is_zero())) {
            oracle = "FAIL:absent:derivative with respect to a symbol that does not occur is " + out;
            return out;
        }
    }
    value_oracle(e, xname, R, line, oracle);
    return out;
}

// ------------------------------------------------------------------ generator (c10_gen.h)
using namespace dgen;

static long g_emitted = 0;
static void emit_diff(G &g, const B &e, const std::string &x, const std::string &tag)
{
    std::string d = vsexp::dump(e);
    if (d.size() > 1500) {
        stat("gen_dropped_too_long");
        return;
    }
    try {
        B back = vsexp::parse(d);
        if (!eq(*back, *e)) {
            stat("gen_dropped_not_roundtrip");
            return;
        }
    } catch (const std::exception &) {
        stat("gen_dropped_not_roundtrip");
        return;
    }
    emit(std::string("diff ") + (g.r.coin() ? "1" : "0") + " " + x + " " + d, tag);
    g_emitted++;
}

static std::string pick_x(G &g, const B &e)
{
    std::set<std::string> syms;
    collect_symbols(*e, syms);
    std::vector<std::string> present;
    for (const auto &s : syms)
        if (s == "x" || s == "y" || s == "z")
            present.push_back(s);
    unsigned k = (unsigned)g.r.below(20);
    if (k == 0 || present.empty())
        return "w"; // never occurs
    if (k == 1) {
        // a symbol of the pool that does not occur, if there is one
        for (const char *c : {"z", "y", "x"})
            if (!syms.count(c))
                return c;
    }
    if (syms.count("x") && k < 14)
        return "x";
    return present[g.r.below(present.size())];
}

void hx_gen(Rng &rng, const std::string &tier)
{
    G g(rng);
    bool thorough = tier == "thorough";
    int scale = thorough ? 10 : 1;
    struct Fam {
        const char *tag;
        int kinds;
        int count;
        int depth;
    };
    const Fam fams[] = {
        {"rational", 0, 90, 3},
        {"elementary", K_ELEM, 90, 3},
        {"inverse", K_ELEM | K_INV, 70, 2},
        {"radical", K_ELEM | K_RAD, 50, 3},
        {"sympow", K_ELEM | K_SYMPOW, 50, 2},
        {"special", K_ELEM | K_SPEC, 60, 2},
        {"fsym", K_FSYM | K_ELEM, 70, 3},
        {"abs", K_ABS | K_ELEM, 20, 2},
        {"mixed", K_ELEM | K_INV | K_RAD | K_SYMPOW | K_SPEC | K_FSYM, 60, 3},
    };
    for (const Fam &f : fams) {
        for (int i = 0; i < f.count * scale; i++) {
            int depth = f.depth + ((thorough && g.r.coin(1, 4)) ? 1 : 0);
            B e;
            try {
                e = f.kinds == 0 ? grat(g, depth) : gexpr(g, depth, f.kinds);
            } catch (const std::exception &) {
                stat("gen_exception");
                continue;
            }
            if (is_a_Number(*e) || is_a<Symbol>(*e))
                continue;
            emit_diff(g, e, pick_x(g, e), f.tag);
        }
    }
    // shared subterms (cache)
    for (int i = 0; i < 60 * scale; i++) {
        try {
            int kinds = g.r.coin() ? (K_ELEM | K_FSYM) : 0;
            B t = kinds ? gexpr(g, 2, kinds) : grat(g, 2);
            if (is_a_Number(*t))
                continue;
            emit_diff(g, shared(g, t, kinds), pick_x(g, t), "shared-subterm");
        } catch (const std::exception &) {
            stat("gen_exception");
        }
    }
    // unevaluated Derivative / Subs as *inputs*: higher derivatives of expressions with function symbols
    for (int i = 0; i < 60 * scale; i++) {
        try {
            B e0 = gexpr(g, 2, K_FSYM | K_ELEM);
            RCP<const Symbol> x = symbol(g.r.coin(3, 4) ? "x" : "y");
            B e1 = e0->diff(x);
            if (!has_kind(*e1, is_binder))
                continue;
            emit_diff(g, e1, g.r.coin(3, 4) ? "x" : "y", "binder-2nd");
            if (g.r.coin(1, 3)) {
                B e2 = e1->diff(x);
                if (vsexp::dump(e2).size() < 900)
                    emit_diff(g, e2, g.r.coin(3, 4) ? "x" : "y", "binder-3rd");
            }
        } catch (const std::exception &) {
            stat("gen_exception");
        }
    }
}
