// C10 — differentiation is correct.
//
// op line:   diff <cache:0|1> <x> <e>        e = canonical dump of the expression, x = symbol name
// output:    canonical dump of diff(e, x, cache)          (checked by the Lean certificate checker)
// oracle (independent of the Lean model and of the library's diff/subs/eval):
//   cache     diff(e,x,true) and diff(e,x,false) must be `eq`
//   absent    x not in free_symbols(e)  =>  the result is exactly Integer 0
//   value     forward-mode dual-number evaluation of the *recipe e* (c10_eval.h) at sample points vs
//             evaluation of the library's result:  exact rationals on the rational-function fragment
//             (FunctionSymbols get polynomial bodies, Derivative nodes are evaluated by nested duals,
//             Subs nodes by environment extension -> the chain rule for unevaluated derivatives is
//             checked by "substitute a concrete f before and after"), otherwise long double / double
//             at generic complex points (elementary functions, principal branches) and positive real
//             points (special functions), with a precision-difference error estimate.
#include "common.h"
#include "sexp.h"
#include "c10_eval.h"
#include "c10_gen.h"
#include <symengine/parser.h>
#include <symengine/polys/uintpoly.h>
#include <symengine/polys/uratpoly.h>
#include <symengine/polys/uexprpoly.h>
#include <symengine/polys/msymenginepoly.h>

using namespace SymEngine;
using namespace dev;

// ------------------------------------------------------------------ value oracle
template <class S>
static void eval_pair(const Basic &e, const std::string &x, const Basic &R, const std::map<std::string, S> &env,
                      S &want, S &got)
{
    std::map<std::string, Dual<S>> denv;
    for (typename std::map<std::string, S>::const_iterator it = env.begin(); it != env.end(); ++it)
        denv[it->first] = Ops<Dual<S>>::lift(it->second);
    denv[x].d = Ops<S>::fromLong(1);
    Dual<S> r = Ev<Dual<S>, 1>::eval(e, denv);
    want = r.d;
    got = Ev<S, 0>::eval(R, env);
}

static std::string qstr(const Q &q)
{
    std::ostringstream ss;
    ss << q;
    std::string s = ss.str();
    if (s.size() > 60)
        s = s.substr(0, 60) + "...";
    return s;
}
template <class T>
static std::string fstr(const T &v)
{
    std::ostringstream ss;
    ss.precision(17);
    ss << (double)v;
    return ss.str();
}
template <class T>
static std::string fstr(const std::complex<T> &v)
{
    std::ostringstream ss;
    ss.precision(17);
    ss << "(" << (double)v.real() << "," << (double)v.imag() << ")";
    return ss.str();
}

// returns: 1 judged ok, 0 point discarded, -1 unsupported (no point of this kind can work), 2 failed
template <class SL, class SD>
static int numeric_point(const Basic &e, const std::string &x, const Basic &R, const std::map<std::string, SL> &envL,
                         const std::map<std::string, SD> &envD, const char *kind, std::string &oracle)
{
    SL wantL, gotL;
    SD wantD, gotD;
    try {
        eval_pair<SL>(e, x, R, envL, wantL, gotL);
        eval_pair<SD>(e, x, R, envD, wantD, gotD);
    } catch (const Unsup &u) {
        stat(std::string("value_") + kind + "_unsupported");
        stat("unsup:" + u.why);
        return -1;
    } catch (const Sing &s) {
        stat(std::string("value_") + kind + "_point_discarded_singular");
        return 0;
    }
    long double err = (long double)cabsT(wantL - SL(wantD)) + (long double)cabsT(gotL - SL(gotD));
    long double scale = std::max((long double)1, std::max((long double)cabsT(wantL), (long double)cabsT(gotL)));
    if (!(err <= 1e-6L * scale)) {
        stat(std::string("value_") + kind + "_point_discarded_illconditioned");
        return 0;
    }
    long double diff = (long double)cabsT(wantL - gotL);
    if (!(diff <= 1e-9L * scale + 50 * err)) {
        std::string key = std::string("value-") + kind;
        if (has_kind(e, is_clash_subs))
            key = "derivative-rename-clash";
        if (has_kind(e, is_acosh)) {
            // known defect: d/dx acosh(x) is coded as 1/sqrt(x^2-1); does the mismatch disappear under that rule?
            try {
                g_acosh_as_coded = true;
                SL w2, g2;
                eval_pair<SL>(e, x, R, envL, w2, g2);
                g_acosh_as_coded = false;
                if ((long double)cabsT(w2 - g2) <= 1e-9L * scale + 50 * err)
                    key = "acosh-left-halfplane";
            } catch (...) {
                g_acosh_as_coded = false;
            }
        }
        oracle = std::string("FAIL:") + key + ":derivative of recipe = " + fstr(wantL) + " library result = "
                 + fstr(gotL) + " at ";
        for (typename std::map<std::string, SL>::const_iterator it = envL.begin(); it != envL.end(); ++it)
            oracle += it->first + "=" + fstr(it->second) + " ";
        return 2;
    }
    stat(std::string("value_") + kind + "_points_ok");
    return 1;
}

static void value_oracle(const B &e, const std::string &x, const B &R, const std::string &opline, std::string &oracle)
{
    std::set<std::string> syms;
    collect_symbols(*e, syms);
    collect_symbols(*R, syms);
    syms.insert(x);
    // exact
    bool exact_possible = true;
    int exact_ok = 0;
    for (int k = 0; k < 3 && exact_possible; k++) {
        std::map<std::string, Q> env;
        for (const auto &s : syms)
            env[s] = pointQ(strhash(opline + "#" + s, 100 + k));
        try {
            Q want, got;
            eval_pair<Q>(*e, x, *R, env, want, got);
            if (!(want == got)) {
                oracle = std::string("FAIL:") + (has_kind(*e, is_clash_subs) ? "derivative-rename-clash" : "value-exact")
                         + ":derivative of recipe = " + qstr(want) + " library result = " + qstr(got)
                         + " at ";
                for (const auto &p : env)
                    oracle += p.first + "=" + qstr(p.second) + " ";
                return;
            }
            exact_ok++;
            stat("value_exact_points_ok");
        } catch (const Unsup &) {
            exact_possible = false;
        } catch (const Sing &) {
            stat("value_exact_point_discarded_singular");
        }
    }
    if (exact_ok > 0) {
        stat("value_checked_exact");
        return;
    }
    // numeric: complex points, then positive real points
    int okc = 0, okr = 0;
    for (int k = 0; k < 3; k++) {
        std::map<std::string, std::complex<long double>> envL;
        std::map<std::string, std::complex<double>> envD;
        for (const auto &s : syms) {
            std::complex<long double> p = pointC(strhash(opline + "#" + s, 200 + k));
            envL[s] = p;
            envD[s] = std::complex<double>((double)p.real(), (double)p.imag());
            envL[s] = std::complex<long double>((long double)envD[s].real(), (long double)envD[s].imag());
        }
        int rc = numeric_point<std::complex<long double>, std::complex<double>>(*e, x, *R, envL, envD, "complex",
                                                                                 oracle);
        if (rc == 2)
            return;
        if (rc == -1)
            break;
        okc += rc;
    }
    for (int k = 0; k < 4; k++) {
        std::map<std::string, long double> envL;
        std::map<std::string, double> envD;
        for (const auto &s : syms) {
            double p = (double)pointR(strhash(opline + "#" + s, 300 + k));
            envD[s] = p;
            envL[s] = (long double)p;
        }
        int rc = numeric_point<long double, double>(*e, x, *R, envL, envD, "real", oracle);
        if (rc == 2)
            return;
        if (rc == -1)
            break;
        okr += rc;
    }
    if (okc + okr > 0)
        stat("value_checked_numeric");
    else
        stat("value_not_checked");
}


// ------------------------------------------------------------------ polynomial classes and Piecewise
//   upoly <int|rat|expr> <var> <x> c0 c1 ... cn     dense coefficients of a UIntPoly / URatPoly / UExprPoly in <var>
//   mpoly <x> i1 j1 c1 i2 j2 c2 ...                  MIntPoly over (x, y): terms c * x^i * y^j
//   pw <cache> <x> e1 c1 e2 c2 ...                   Piecewise((e1, c1), (e2, c2), ...)
// output: dense coefficient list / sorted "i,j:c" list / dump;  oracle: own termwise derivative
static std::string dense_str(const std::map<unsigned, rational_class> &d)
{
    if (d.empty())
        return "0";
    unsigned deg = d.rbegin()->first;
    std::string o;
    for (unsigned i = 0; i <= deg; i++) {
        auto it = d.find(i);
        if (i)
            o += " ";
        o += it == d.end() ? std::string("0") : vsexp::rat_str(it->second);
    }
    return o;
}

static std::string run_upoly(const std::vector<std::string> &w, std::string &oracle)
{
    if (w.size() < 5)
        throw std::runtime_error("bad op");
    const std::string &kind = w[1];
    RCP<const Symbol> var = symbol(w[2]), x = symbol(w[3]);
    std::map<unsigned, rational_class> coef, want, got;
    for (size_t i = 4; i < w.size(); i++) {
        rational_class c = vsexp::parse_rat(w[i]);
        if (c != 0)
            coef[(unsigned)(i - 4)] = c;
    }
    if (w[2] == w[3])
        for (const auto &p : coef)
            if (p.first > 0)
                want[p.first - 1] = p.second * rational_class(integer_class((unsigned long)p.first));
    B r;
    if (kind == "int") {
        map_uint_mpz d;
        for (const auto &p : coef)
            d[p.first] = get_num(p.second);
        RCP<const UIntPoly> P = UIntPoly::from_dict(var, std::move(d));
        r = P->diff(x);
        if (!is_a<UIntPoly>(*r)) {
            oracle = "FAIL:poly-type:derivative of a UIntPoly is " + r->__str__();
            return r->__str__();
        }
        for (auto it = down_cast<const UIntPoly &>(*r).begin(); it != down_cast<const UIntPoly &>(*r).end(); ++it)
            got[it->first] = rational_class(it->second);
    } else if (kind == "rat") {
        map_uint_mpq d;
        for (const auto &p : coef)
            d[p.first] = p.second;
        RCP<const URatPoly> P = URatPoly::from_dict(var, std::move(d));
        r = P->diff(x);
        if (!is_a<URatPoly>(*r)) {
            oracle = "FAIL:poly-type:derivative of a URatPoly is " + r->__str__();
            return r->__str__();
        }
        for (auto it = down_cast<const URatPoly &>(*r).begin(); it != down_cast<const URatPoly &>(*r).end(); ++it)
            got[it->first] = it->second;
    } else {
        map_int_Expr d;
        for (const auto &p : coef)
            d[(int)p.first] = Expression(Rational::from_mpq(p.second));
        RCP<const UExprPoly> P = UExprPoly::from_dict(var, std::move(d));
        r = P->diff(x);
        if (!is_a<UExprPoly>(*r)) {
            oracle = "FAIL:poly-type:derivative of a UExprPoly is " + r->__str__();
            return r->__str__();
        }
        for (auto it = down_cast<const UExprPoly &>(*r).begin(); it != down_cast<const UExprPoly &>(*r).end(); ++it) {
            B c = it->second.get_basic();
            if (!is_a_Number(*c) || !(is_a<Integer>(*c) || is_a<Rational>(*c)))
                throw std::runtime_error("non-rational coefficient");
            rational_class q = is_a<Integer>(*c) ? rational_class(down_cast<const Integer &>(*c).as_integer_class())
                                                 : down_cast<const Rational &>(*c).as_rational_class();
            if (q != 0)
                got[(unsigned)it->first] = q;
        }
    }
    std::string out = dense_str(got);
    if (got != want)
        oracle = "FAIL:poly-derivative:expected " + dense_str(want) + " got " + out;
    stat("poly_cases");
    return out;
}

static std::string run_mpoly(const std::vector<std::string> &w, std::string &oracle)
{
    if (w.size() < 2 || (w.size() - 2) % 3 != 0)
        throw std::runtime_error("bad op");
    RCP<const Symbol> x = symbol(w[1]);
    RCP<const Basic> sx = symbol("x"), sy = symbol("y");
    typedef std::map<std::pair<unsigned, unsigned>, integer_class> T;
    T terms, want, got;
    umap_uvec_mpz d;
    for (size_t i = 2; i + 2 < w.size(); i += 3) {
        unsigned a = (unsigned)atoi(w[i].c_str()), b = (unsigned)atoi(w[i + 1].c_str());
        integer_class c(w[i + 2].c_str());
        terms[std::make_pair(a, b)] += c;
    }
    for (const auto &t : terms)
        if (t.second != 0)
            d[vec_uint{t.first.first, t.first.second}] = t.second;
    RCP<const MIntPoly> P = MIntPoly::from_dict({sx, sy}, std::move(d));
    for (const auto &t : terms) {
        if (t.second == 0)
            continue;
        if (w[1] == "x" && t.first.first > 0)
            want[std::make_pair(t.first.first - 1, t.first.second)] += t.second * integer_class((unsigned long)t.first.first);
        if (w[1] == "y" && t.first.second > 0)
            want[std::make_pair(t.first.first, t.first.second - 1)] += t.second * integer_class((unsigned long)t.first.second);
    }
    B r = P->diff(x);
    if (!is_a<MIntPoly>(*r)) {
        oracle = "FAIL:poly-type:derivative of an MIntPoly is " + r->__str__();
        return r->__str__();
    }
    const MIntPoly &R = down_cast<const MIntPoly &>(*r);
    // positions of x and y in the (hash ordered) variable set
    int ix = -1, iy = -1, k = 0;
    for (const auto &v : R.get_vars()) {
        if (eq(*v, *sx))
            ix = k;
        if (eq(*v, *sy))
            iy = k;
        k++;
    }
    for (const auto &t : R.get_poly().dict_) {
        unsigned a = ix >= 0 ? t.first[ix] : 0, b = iy >= 0 ? t.first[iy] : 0;
        got[std::make_pair(a, b)] += t.second;
    }
    T w2;
    for (const auto &t : want)
        if (t.second != 0)
            w2[t.first] = t.second;
    std::string out;
    for (const auto &t : got) {
        if (!out.empty())
            out += " ";
        out += std::to_string(t.first.first) + "," + std::to_string(t.first.second) + ":" + vsexp::int_str(t.second);
    }
    if (out.empty())
        out = "0";
    if (got != w2)
        oracle = "FAIL:poly-derivative:MIntPoly derivative is " + out;
    stat("poly_cases");
    return out;
}

static void value_oracle(const B &e, const std::string &x, const B &R, const std::string &opline, std::string &oracle);

static std::string run_pw(const std::string &line, std::string &oracle)
{
    std::vector<std::string> w = split(line, ' ');
    bool cache = w[1] == "1";
    RCP<const Symbol> x = symbol(w[2]);
    std::vector<vsexp::Node> nodes = vsexp::parse_all(line.substr(w[0].size() + w[1].size() + w[2].size() + 3));
    if (nodes.empty() || nodes.size() % 2)
        throw std::runtime_error("bad op");
    PiecewiseVec v;
    for (size_t i = 0; i + 1 < nodes.size(); i += 2) {
        B c = vsexp::build(nodes[i + 1]);
        if (!is_a_Boolean(*c))
            throw std::runtime_error("condition expected");
        v.push_back(std::make_pair(vsexp::build(nodes[i]), rcp_static_cast<const Boolean>(c)));
    }
    PiecewiseVec v0 = v;
    B e = piecewise(std::move(v));
    B r1 = diff(e, x, true), r0 = diff(e, x, false);
    B R = cache ? r1 : r0;
    std::string out = vsexp::dump(R);
    if (!eq(*r1, *r0)) {
        oracle = "FAIL:cache:cached " + vsexp::dump(r1) + " uncached " + vsexp::dump(r0);
        return out;
    }
    stat("piecewise_cases");
    if (!is_a<Piecewise>(*e))
        return out;
    if (!is_a<Piecewise>(*R)) {
        oracle = "FAIL:piecewise-shape:derivative of a Piecewise is " + out;
        return out;
    }
    const PiecewiseVec &pe = down_cast<const Piecewise &>(*e).get_vec();
    const PiecewiseVec &pr = down_cast<const Piecewise &>(*R).get_vec();
    if (pe.size() != pr.size()) {
        oracle = "FAIL:piecewise-shape:number of pieces changed: " + out;
        return out;
    }
    for (size_t i = 0; i < pe.size(); i++) {
        if (!eq(*pe[i].second, *pr[i].second)) {
            oracle = "FAIL:piecewise-shape:condition changed: " + out;
            return out;
        }
        value_oracle(pe[i].first, w[2], pr[i].first, line + "#" + std::to_string(i), oracle);
        if (oracle != "ok")
            return out;
    }
    return out;
}

// ------------------------------------------------------------------ run
static std::string hx_run_inner(const std::string &line, std::string &oracle)
{
    std::vector<std::string> w = split(line, ' ');
    if (!w.empty() && w[0] == "upoly")
        return run_upoly(w, oracle);
    if (!w.empty() && w[0] == "mpoly")
        return run_mpoly(w, oracle);
    if (w.size() >= 5 && w[0] == "pw")
        return run_pw(line, oracle);
    if (w.size() < 4 || w[0] != "diff")
        throw std::runtime_error("bad op");
    bool cache = w[1] == "1";
    std::string xname = w[2];
    std::string rest = line.substr(w[0].size() + w[1].size() + w[2].size() + 3);
    B e = vsexp::parse(rest);
    RCP<const Symbol> x = symbol(xname);

    B r1 = diff(e, x, true);
    B r0 = diff(e, x, false);
    B R = cache ? r1 : r0;
    std::string out = vsexp::dump(R);
    if (!eq(*r1, *r0)) {
        oracle = "FAIL:cache:cached " + vsexp::dump(r1) + " uncached " + vsexp::dump(r0);
        return out;
    }
    set_basic fs = free_symbols(*e);
    bool present = fs.find(x) != fs.end();
    if (!present) {
        stat("absent_symbol_cases");
        if (!(is_a<Integer>(*R) && down_cast<const Integer &>(*R).is_zero())) {
            oracle = "FAIL:absent:derivative with respect to a symbol that does not occur is " + out;
            return out;
        }
    }
    value_oracle(e, xname, R, line, oracle);
    return out;
}

std::string hx_run(const std::string &line, std::string &oracle)
{
    try {
        return hx_run_inner(line, oracle);
    } catch (const SymEngine::VerifAssertError &ex) {
        std::string what = ex.what();
        if (what.find("not is_a<Add>(*self)") != std::string::npos) {
            // DiffVisitor::bvisit(const Add &) hands an Add to Add::as_coef_term (docs/C10.md, D-C10-3)
            oracle = "FAIL:diff-add-nested:" + what;
            return "E:Assert";
        }
        if (what.find("is_canonical(") != std::string::npos) {
            // a canonical-form check inside add/mul/pow/Derivative constructors: left to C03
            stat("assert_is_canonical_in_constructor_ignored");
            return "E:Assert";
        }
        throw;
    }
}

// ------------------------------------------------------------------ generator (c10_gen.h)
using namespace dgen;

static long g_emitted = 0;
static void emit_diff(G &g, const B &e, const std::string &x, const std::string &tag)
{
    std::string d = vsexp::dump(e);
    if (d.size() > 1500) {
        stat("gen_dropped_too_long");
        return;
    }
    try {
        B back = vsexp::parse(d);
        if (!eq(*back, *e)) {
            stat("gen_dropped_not_roundtrip");
            return;
        }
    } catch (const std::exception &) {
        stat("gen_dropped_not_roundtrip");
        return;
    }
    emit(std::string("diff ") + (g.r.coin() ? "1" : "0") + " " + x + " " + d, tag);
    g_emitted++;
}

static std::string pick_x(G &g, const B &e)
{
    std::set<std::string> syms;
    collect_symbols(*e, syms);
    std::vector<std::string> present;
    for (const auto &s : syms)
        if (s == "x" || s == "y" || s == "z")
            present.push_back(s);
    unsigned k = (unsigned)g.r.below(20);
    if (k == 0 || present.empty())
        return "w"; // never occurs
    if (k == 1) {
        // a symbol of the pool that does not occur, if there is one
        for (const char *c : {"z", "y", "x"})
            if (!syms.count(c))
                return c;
    }
    if (syms.count("x") && k < 14)
        return "x";
    return present[g.r.below(present.size())];
}

void hx_gen(Rng &rng, const std::string &tier)
{
    G g(rng);
    bool thorough = tier == "thorough";
    int scale = thorough ? 10 : 1;
    struct Fam {
        const char *tag;
        int kinds;
        int count;
        int depth;
    };
    const Fam fams[] = {
        {"rational", 0, 90, 3},
        {"elementary", K_ELEM, 90, 3},
        {"inverse", K_ELEM | K_INV, 70, 2},
        {"radical", K_ELEM | K_RAD, 50, 3},
        {"sympow", K_ELEM | K_SYMPOW, 50, 2},
        {"special", K_ELEM | K_SPEC, 60, 2},
        {"fsym", K_FSYM | K_ELEM, 70, 3},
        {"abs", K_ABS | K_ELEM, 20, 2},
        {"mixed", K_ELEM | K_INV | K_RAD | K_SYMPOW | K_SPEC | K_FSYM, 60, 3},
    };
    for (const Fam &f : fams) {
        for (int i = 0; i < f.count * scale; i++) {
            int depth = f.depth + ((thorough && g.r.coin(1, 4)) ? 1 : 0);
            B e;
            try {
                e = f.kinds == 0 ? grat(g, depth) : gexpr(g, depth, f.kinds);
            } catch (const std::exception &) {
                stat("gen_exception");
                continue;
            }
            if (is_a_Number(*e) || is_a<Symbol>(*e))
                continue;
            emit_diff(g, e, pick_x(g, e), f.tag);
        }
    }
    // shared subterms (cache)
    for (int i = 0; i < 60 * scale; i++) {
        try {
            int kinds = g.r.coin() ? (K_ELEM | K_FSYM) : 0;
            B t = kinds ? gexpr(g, 2, kinds) : grat(g, 2);
            if (is_a_Number(*t))
                continue;
            emit_diff(g, shared(g, t, kinds), pick_x(g, t), "shared-subterm");
        } catch (const std::exception &) {
            stat("gen_exception");
        }
    }
    // unevaluated Derivative / Subs as *inputs* (built structurally, see c10_gen.h)
    for (int i = 0; i < 60 * scale; i++) {
        try {
            B e1 = binder_expr(g, K_FSYM | K_ELEM);
            if (!has_kind(*e1, is_binder))
                continue;
            emit_diff(g, e1, g.r.coin(3, 4) ? "x" : "y", "binder");
        } catch (const std::exception &) {
            stat("gen_exception");
        }
    }
    // Subs objects whose variable is the differentiation variable itself (see c10_gen.h)
    for (int i = 0; i < 40 * scale; i++) {
        try {
            std::string xn = g.r.coin(3, 4) ? "x" : "y";
            emit_diff(g, binder_bound_var(g, xn), xn, "binder-bound-var");
        } catch (const std::exception &) {
            stat("gen_exception");
        }
    }
    // polynomial classes
    for (int i = 0; i < 40 * scale; i++) {
        static const char *kinds[] = {"int", "rat", "expr"};
        std::string kind = kinds[g.r.below(3)];
        std::string var = g.r.coin(3, 4) ? "x" : "y";
        std::string xx = g.r.coin(4, 5) ? var : (var == "x" ? "y" : "x");
        int deg = (int)g.r.below(7);
        std::string op = "upoly " + kind + " " + var + " " + xx;
        for (int k = 0; k <= deg; k++) {
            long n = g.r.coin(1, 4) ? 0 : g.r.range(-9, 9);
            if (kind == "rat" && n != 0 && g.r.coin()) {
                long dd = g.r.range(2, 7);
                rational_class q = rational_class(integer_class(n)) / rational_class(integer_class(dd));
                op += " " + vsexp::rat_str(q);
            } else
                op += " " + std::to_string(n);
        }
        emit(op, "poly-univariate");
    }
    for (int i = 0; i < 25 * scale; i++) {
        static const char *xs[] = {"x", "x", "y", "z"};
        std::string op = std::string("mpoly ") + xs[g.r.below(4)];
        int n = 1 + (int)g.r.below(5);
        for (int k = 0; k < n; k++)
            op += " " + std::to_string(g.r.below(4)) + " " + std::to_string(g.r.below(4)) + " " + std::to_string(g.r.range(-9, 9));
        emit(op, "poly-multivariate");
    }
    // Piecewise
    for (int i = 0; i < 30 * scale; i++) {
        try {
            int n = 2 + (int)g.r.below(2);
            std::string op = std::string("pw ") + (g.r.coin() ? "1" : "0") + " " + (g.r.coin(4, 5) ? "x" : "y");
            bool okk = true;
            for (int k = 0; k < n; k++) {
                B piece = gexpr(g, 2, K_ELEM);
                B cond = k + 1 == n ? B(boolTrue) : B(Lt(symbol("x"), integer(g.r.range(-3, 3) + 4 * k)));
                std::string d1 = vsexp::dump(piece), d2 = vsexp::dump(cond);
                if (!eq(*vsexp::parse(d1), *piece) || !eq(*vsexp::parse(d2), *cond))
                    okk = false;
                op += " " + d1 + " " + d2;
            }
            if (okk && op.size() < 1500)
                emit(op, "piecewise");
        } catch (const std::exception &) {
            stat("gen_exception");
        }
    }
}
