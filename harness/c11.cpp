// C11 — substitution preserves value and is cache-independent.
//
// op line:   <mode> <cache:0|1> <e> <k1> <v1> <k2> <v2> ...     mode = subs | xreplace | msubs | ssubs
//            e, keys and values are canonical dumps
// output:    canonical dump of mode(e, {k1: v1, ...}, cache)      (checked by the Lean certificate checker)
// oracle (independent of the Lean model and of the library's subs/diff/eval; evaluators in c10_eval.h):
//   cache      result with cache and without cache must be `eq` (same exception behaviour)
//   value      symbol keys: value of e at rho o sigma  ==  value of the result at rho   (exact rationals when e and
//              the images are rational functions / polynomial function-symbol bodies, otherwise long double/double
//              at complex and positive real points); Derivative nodes are evaluated by nested dual numbers at the
//              substituted point, Subs nodes by environment extension
//   absent     no key is a free symbol of e (symbol keys)  =>  result `eq` e
//   identity   every pair is k -> k  =>  result `eq` e
//   modes      symbol keys, e without Derivative/Subs: subs, xreplace, msubs, ssubs give `eq` results
#include "common.h"
#include "sexp.h"
#include "c10_eval.h"
#include "c10_gen.h"

using namespace SymEngine;
using namespace dev;
using namespace dgen;

typedef std::vector<std::pair<B, B>> Pairs;

static B run_mode(const std::string &mode, const B &e, const map_basic_basic &m, bool cache)
{
    if (mode == "subs")
        return subs(e, m, cache);
    if (mode == "xreplace")
        return xreplace(e, m, cache);
    if (mode == "msubs")
        return msubs(e, m, cache);
    if (mode == "ssubs")
        return ssubs(e, m, cache);
    throw std::runtime_error("bad mode");
}

// result or the name of the exception
static std::string g_last_what;
static std::string run_catch(const std::string &mode, const B &e, const map_basic_basic &m, bool cache, B &out)
{
    try {
        out = run_mode(mode, e, m, cache);
        return "";
    } catch (const std::exception &ex) {
        g_last_what = ex.what();
        return exc_name(ex);
    }
}

template <class T>
static std::string fstr(const T &v)
{
    std::ostringstream ss;
    ss.precision(17);
    ss << (double)v;
    return ss.str();
}
template <class T>
static std::string fstr(const std::complex<T> &v)
{
    std::ostringstream ss;
    ss.precision(17);
    ss << "(" << (double)v.real() << "," << (double)v.imag() << ")";
    return ss.str();
}
static std::string qstr(const Q &q)
{
    std::ostringstream ss;
    ss << q;
    std::string s = ss.str();
    if (s.size() > 60)
        s = s.substr(0, 60) + "...";
    return s;
}


// ------------------------------------------------------------------ number keys
// Expected semantics of a map that contains *number* keys next to symbol keys (XReplaceVisitor, unmodified library):
// a number is replaced wherever the visitor hands a stored number field to `apply` / `subs_dict_.find`:
//   Add   the constant term; the coefficient of every term - including the implicit 1 - unless the whole term
//         `coef*key` is itself a key (for a bare symbol term with coefficient 1: the symbol is a key)
//   Mul   the coefficient (including the implicit 1); the exponent of an entry unless it is the implicit 1
//   Pow   base and exponent;   functions: every argument;   a number standing alone
// and the *key* of an Add term / the base of a power is substituted as usual (that is what a dropped `apply`
// loses).  Images are not substituted again (simultaneous substitution): they are evaluated at rho.
// EvNum evaluates the recipe e under exactly this reading, independently of the library's subs.
template <class S>
struct EvNum {
    typedef std::map<std::string, S> Env;
    typedef Ops<S> O;
    const Env &envE;    // rho o sigma for the symbols of e
    const Env &envI;    // rho, for the images
    const Pairs &nums;  // number key -> image
    const Pairs &syms;  // symbol key -> image
    EvNum(const Env &e, const Env &i, const Pairs &n, const Pairs &sy) : envE(e), envI(i), nums(n), syms(sy) {}

    const B *image_of(const Basic &b) const
    {
        if (!is_a_Number(b))
            return nullptr;
        for (const auto &p : nums)
            if (eq(*p.first, b))
                return &p.second;
        return nullptr;
    }
    bool is_symbol_key(const Basic &b) const
    {
        if (!is_a<Symbol>(b))
            return false;
        for (const auto &p : syms)
            if (eq(*p.first, b))
                return true;
        return false;
    }
    S image_value(const B &img) const { return Ev<S, 0>::eval(*img, envI); }
    // a stored number field that goes through apply()
    S num_field(const Basic &b) const
    {
        const B *img = image_of(b);
        return img ? image_value(*img) : Ev<S, 0>::eval(b, envE);
    }
    // base ** exponent where the exponent field goes through apply()
    S power(const Basic &base, const Basic &ex) const
    {
        const B *img = image_of(ex);
        const Basic &e2 = img ? **img : ex;
        if (is_a<Integer>(e2)) {
            const integer_class &n = down_cast<const Integer &>(e2).as_integer_class();
            if (!mp_fits_slong_p(n) || mp_get_si(n) > 4096 || mp_get_si(n) < -4096)
                throw Unsup("huge-exponent");
            return ipow(eval(base), mp_get_si(n));
        }
        if (is_a<Rational>(e2))
            return O::powq(eval(base), down_cast<const Rational &>(e2).as_rational_class());
        S ev = img ? image_value(*img) : eval(ex);
        if (is_a<Constant>(base) && down_cast<const Constant &>(base).get_name() == "E")
            return O::fn1(F_EXP, ev);
        return O::powg(eval(base), ev);
    }
    S eval(const Basic &b) const
    {
        if (is_a_Number(b))
            return num_field(b);
        switch (b.get_type_code()) {
            case SYMENGINE_SYMBOL:
            case SYMENGINE_CONSTANT: return Ev<S, 0>::eval(b, envE);
            case SYMENGINE_ADD: {
                const Add &a = down_cast<const Add &>(b);
                S s = num_field(*a.get_coef());
                for (const auto &p : a.get_dict()) {
                    if (eq(*p.second, *one) && is_symbol_key(*p.first))
                        s = s + eval(*p.first); // the whole term is a key: its coefficient is not looked up
                    else
                        s = s + num_field(*p.second) * eval(*p.first);
                }
                O::guard(s);
                return s;
            }
            case SYMENGINE_MUL: {
                const Mul &m = down_cast<const Mul &>(b);
                S s = num_field(*m.get_coef());
                for (const auto &p : m.get_dict()) {
                    if (eq(*p.second, *one))
                        s = s * eval(*p.first);
                    else
                        s = s * power(*p.first, *p.second);
                }
                O::guard(s);
                return s;
            }
            case SYMENGINE_POW: {
                const Pow &p = down_cast<const Pow &>(b);
                return power(*p.get_base(), *p.get_exp());
            }
            case SYMENGINE_FUNCTIONSYMBOL: {
                std::vector<S> a;
                for (const auto &x : b.get_args())
                    a.push_back(eval(*x));
                S r = fbody<S>(down_cast<const FunctionSymbol &>(b).get_name(), a);
                O::guard(r);
                return r;
            }
            default: break;
        }
        Fid f = fid_of(b.get_type_code());
        if (f == F_NONE)
            throw Unsup("node:" + type_code_name(b.get_type_code()));
        vec_basic args = b.get_args();
        if (is_fn2(f)) {
            if (args.size() != 2)
                throw Unsup("arity");
            return O::fn2(f, eval(*args[0]), eval(*args[1]));
        }
        if (args.size() != 1)
            throw Unsup("arity");
        return O::fn1(f, eval(*args[0]));
    }
};

static const Pairs *g_numkeys = nullptr; // non-null: sigma contains number keys (eval_pair uses EvNum)

// value of e at rho o sigma, value of R at rho
template <class S>
static void eval_pair(const Basic &e, const Pairs &sigma, const Basic &R, const std::map<std::string, S> &env, S &want,
                      S &got)
{
    std::map<std::string, S> env2 = env;
    Pairs syms;
    for (const auto &p : sigma)
        if (is_a<Symbol>(*p.first)) {
            env2[down_cast<const Symbol &>(*p.first).get_name()] = Ev<S, 0>::eval(*p.second, env);
            syms.push_back(p);
        }
    if (g_numkeys)
        want = EvNum<S>(env2, env, *g_numkeys, syms).eval(e);
    else
        want = Ev<S, 0>::eval(e, env2);
    got = Ev<S, 0>::eval(R, env);
}

// e contains a power b**k that the smart constructor pow(b, k) would rewrite (e.g. (x**-1)**(1/2), which pow()
// turns into x**(-1/2)): such objects come out of the public API, and with the cache an equal-but-not-identical
// sub-object makes the visitor rebuild them (docs/C11.md, D-C11-3)
static bool has_unstable_pow(const Basic &b)
{
    try {
        if (is_a<Pow>(b)) {
            const Pow &p = down_cast<const Pow &>(b);
            if (!eq(*pow(p.get_base(), p.get_exp()), b))
                return true;
        }
        if (is_a<Mul>(b)) {
            for (const auto &q : down_cast<const Mul &>(b).get_dict())
                if (!eq(*q.second, *one) && !eq(*pow(q.first, q.second), *make_rcp<const Pow>(q.first, q.second)))
                    return true;
        }
    } catch (const std::exception &) {
        return true;
    }
    for (const auto &a : b.get_args())
        if (has_unstable_pow(*a))
            return true;
    return false;
}

// the result contains the symbol `name` under a non-integer exponent
static bool has_fractional_power_of(const Basic &b, const std::string &name)
{
    auto is_it = [&](const Basic &base, const Basic &ex) {
        return is_a<Symbol>(base) && down_cast<const Symbol &>(base).get_name() == name && !is_a<Integer>(ex);
    };
    if (is_a<Pow>(b) && is_it(*down_cast<const Pow &>(b).get_base(), *down_cast<const Pow &>(b).get_exp()))
        return true;
    if (is_a<Mul>(b))
        for (const auto &q : down_cast<const Mul &>(b).get_dict())
            if (is_it(*q.first, *q.second))
                return true;
    for (const auto &a : b.get_args())
        if (has_fractional_power_of(*a, name))
            return true;
    return false;
}

// two different keys with the same symbol as image while e contains a Derivative: the known rename clash
static bool merge_clash(const Basic &e, const Pairs &sigma)
{
    if (!has_kind(e, is_binder))
        return false;
    // a Subs node of e that already sends two variables to the same symbol is rebuilt through the same path
    if (has_kind(e, is_clash_subs))
        return true;
    for (size_t i = 0; i < sigma.size(); i++)
        for (size_t j = i + 1; j < sigma.size(); j++)
            if (is_a<Symbol>(*sigma[i].second) && eq(*sigma[i].second, *sigma[j].second))
                return true;
    return false;
}

template <class SL, class SD>
static int numeric_point(const Basic &e, const Pairs &sigma, const Basic &R, const std::map<std::string, SL> &envL,
                         const std::map<std::string, SD> &envD, const char *kind, std::string &oracle)
{
    SL wantL, gotL;
    SD wantD, gotD;
    try {
        eval_pair<SL>(e, sigma, R, envL, wantL, gotL);
        eval_pair<SD>(e, sigma, R, envD, wantD, gotD);
    } catch (const Unsup &u) {
        stat(std::string("value_") + kind + "_unsupported");
        stat("unsup:" + u.why);
        return -1;
    } catch (const Sing &s) {
        stat(std::string("value_") + kind + "_point_discarded_singular");
        return 0;
    }
    long double err = (long double)cabsT(wantL - SL(wantD)) + (long double)cabsT(gotL - SL(gotD));
    long double scale = std::max((long double)1, std::max((long double)cabsT(wantL), (long double)cabsT(gotL)));
    if (!(err <= 1e-6L * scale)) {
        stat(std::string("value_") + kind + "_point_discarded_illconditioned");
        return 0;
    }
    long double diff = (long double)cabsT(wantL - gotL);
    if (!(diff <= 1e-9L * scale + 50 * err)) {
        std::string key = merge_clash(e, sigma) ? "derivative-rename-clash" : (std::string("value-") + kind);
        oracle = "FAIL:" + key + ":e at (rho o sigma) = " + fstr(wantL) + " result at rho = " + fstr(gotL) + " at ";
        for (typename std::map<std::string, SL>::const_iterator it = envL.begin(); it != envL.end(); ++it)
            oracle += it->first + "=" + fstr(it->second) + " ";
        return 2;
    }
    stat(std::string("value_") + kind + "_points_ok");
    return 1;
}

static void value_oracle(const B &e, const Pairs &sigma, const B &R, const std::string &opline, std::string &oracle)
{
    std::set<std::string> syms;
    collect_symbols(*e, syms);
    collect_symbols(*R, syms);
    for (const auto &p : sigma) {
        collect_symbols(*p.first, syms);
        collect_symbols(*p.second, syms);
    }
    bool exact_possible = true;
    int exact_ok = 0;
    for (int k = 0; k < 3 && exact_possible; k++) {
        std::map<std::string, Q> env;
        for (const auto &s : syms)
            env[s] = pointQ(strhash(opline + "#" + s, 100 + k));
        try {
            Q want, got;
            eval_pair<Q>(*e, sigma, *R, env, want, got);
            if (!(want == got)) {
                std::string key = merge_clash(*e, sigma) ? "derivative-rename-clash" : "value-exact";
                oracle = "FAIL:" + key + ":e at (rho o sigma) = " + qstr(want) + " result at rho = " + qstr(got) + " at ";
                for (const auto &p : env)
                    oracle += p.first + "=" + qstr(p.second) + " ";
                return;
            }
            exact_ok++;
            stat("value_exact_points_ok");
        } catch (const Unsup &) {
            exact_possible = false;
        } catch (const Sing &) {
            stat("value_exact_point_discarded_singular");
        }
    }
    if (exact_ok > 0) {
        stat("value_checked_exact");
        return;
    }
    int okc = 0, okr = 0;
    for (int k = 0; k < 3; k++) {
        std::map<std::string, std::complex<long double>> envL;
        std::map<std::string, std::complex<double>> envD;
        for (const auto &s : syms) {
            std::complex<long double> p = pointC(strhash(opline + "#" + s, 200 + k));
            envD[s] = std::complex<double>((double)p.real(), (double)p.imag());
            envL[s] = std::complex<long double>((long double)envD[s].real(), (long double)envD[s].imag());
        }
        int rc = numeric_point<std::complex<long double>, std::complex<double>>(*e, sigma, *R, envL, envD, "complex",
                                                                                 oracle);
        if (rc == 2)
            return;
        if (rc == -1)
            break;
        okc += rc;
    }
    for (int k = 0; k < 4; k++) {
        std::map<std::string, long double> envL;
        std::map<std::string, double> envD;
        for (const auto &s : syms) {
            double p = (double)pointR(strhash(opline + "#" + s, 300 + k));
            envD[s] = p;
            envL[s] = (long double)p;
        }
        int rc = numeric_point<long double, double>(*e, sigma, *R, envL, envD, "real", oracle);
        if (rc == 2)
            return;
        if (rc == -1)
            break;
        okr += rc;
    }
    if (okc + okr > 0)
        stat("value_checked_numeric");
    else
        stat("value_not_checked");
}

std::string hx_run(const std::string &line, std::string &oracle)
{
    size_t p1 = line.find(' ');
    size_t p2 = line.find(' ', p1 + 1);
    if (p1 == std::string::npos || p2 == std::string::npos)
        throw std::runtime_error("bad op");
    std::string mode = line.substr(0, p1);
    bool cache = line.substr(p1 + 1, p2 - p1 - 1) == "1";
    std::vector<vsexp::Node> nodes = vsexp::parse_all(line.substr(p2 + 1));
    if (nodes.empty() || nodes.size() % 2 != 1)
        throw std::runtime_error("bad op");
    B e = vsexp::build(nodes[0]);
    Pairs sigma;
    map_basic_basic m;
    bool symkeys = true, identity = true;
    for (size_t i = 1; i + 1 < nodes.size(); i += 2) {
        B k = vsexp::build(nodes[i]), v = vsexp::build(nodes[i + 1]);
        sigma.push_back(std::make_pair(k, v));
        m[k] = v;
        if (!is_a<Symbol>(*k))
            symkeys = false;
        if (!eq(*k, *v))
            identity = false;
    }
    if (m.size() != sigma.size())
        throw std::runtime_error("duplicate keys");

    B rc, ru;
    std::string ec = run_catch(mode, e, m, true, rc), eu = run_catch(mode, e, m, false, ru);
    if (ec != eu) {
        oracle = "FAIL:cache:cached " + (ec.empty() ? vsexp::dump(rc) : ec) + " uncached "
                 + (eu.empty() ? vsexp::dump(ru) : eu);
        return cache ? (ec.empty() ? vsexp::dump(rc) : ec) : (eu.empty() ? vsexp::dump(ru) : eu);
    }
    if (!ec.empty()) {
        stat("both_throw_" + ec);
        if (ec == "E:Assert") {
            if (g_last_what.find("is_canonical(") != std::string::npos)
                // a canonical-form check inside add/mul/pow constructors on the substituted operands: left to C03
                stat("assert_is_canonical_in_constructor_ignored");
            else
                oracle = "FAIL:assert:" + mode + " raised " + g_last_what;
        }
        return ec;
    }
    B R = cache ? rc : ru;
    std::string out = vsexp::dump(R);
    if (!eq(*rc, *ru)) {
        oracle = std::string("FAIL:") + (has_unstable_pow(*e) ? "cache-unstable-pow" : "cache") + ":cached "
                 + vsexp::dump(rc) + " uncached " + vsexp::dump(ru);
        return out;
    }
    bool binder = has_kind(*e, is_binder);
    if (identity) {
        stat("identity_cases");
        if (!eq(*R, *e) && binder && symkeys) {
            // Derivative / Subs nodes may be rewritten into an equivalent form (Subs with a symbol point becomes a
            // Derivative, ...): not `eq`, so the value oracle below decides
            stat("binder_identity_not_eq_value_checked");
        } else if (!eq(*R, *e)) {
            // SubsVisitor's exponent path (single key b**k) rewrites b**e to w**(e/k) also for a non-integer
            // quotient: x**3 with {x**2: x**2} becomes (x**2)**(3/2)   (docs/C11.md, D-C11-2)
            bool powpath = mode == "subs" && sigma.size() == 1 && is_a<Pow>(*sigma[0].first);
            oracle = std::string("FAIL:") + (powpath ? "identity-pow-path" : "identity")
                     + ":identity map changed the expression to " + out;
            return out;
        }
    }
    // number keys (Integer / Rational) next to symbol keys, derivative-free e: the four entry points must agree and the
    // result must have the value of the recipe read as described at EvNum
    bool numsym = !symkeys;
    Pairs numkeys;
    for (const auto &p : sigma) {
        if (is_a<Integer>(*p.first) || is_a<Rational>(*p.first))
            numkeys.push_back(p);
        else if (!is_a<Symbol>(*p.first))
            numsym = false;
    }
    if (numsym && !numkeys.empty() && !binder) {
        stat("number_key_cases");
        static const char *all[] = {"subs", "xreplace", "msubs", "ssubs"};
        for (const char *o : all) {
            if (mode == o)
                continue;
            B r2;
            std::string e2 = run_catch(o, e, m, cache, r2);
            if (!e2.empty() || !eq(*r2, *R)) {
                oracle = std::string("FAIL:modes:") + o + " gives " + (e2.empty() ? vsexp::dump(r2) : e2);
                return out;
            }
        }
        g_numkeys = &numkeys;
        try {
            value_oracle(e, sigma, R, line, oracle);
        } catch (...) {
            g_numkeys = nullptr;
            throw;
        }
        g_numkeys = nullptr;
        if (oracle != "ok" && oracle.compare(0, 11, "FAIL:value-") == 0)
            oracle = "FAIL:numkey-" + oracle.substr(5);
        return out;
    }
    if (!symkeys) {
        stat("expression_key_cases");
        // every image is a distinct symbol that occurs neither in e nor in a key: give it the value of its key;
        // then the result must have the value of e  ("replace a sub-expression by a name for it")
        std::set<std::string> esyms, imgs;
        collect_symbols(*e, esyms);
        for (const auto &p : sigma)
            collect_symbols(*p.first, esyms);
        bool fresh = true;
        for (const auto &p : sigma) {
            if (!is_a<Symbol>(*p.second))
                fresh = false;
            else {
                const std::string &n = down_cast<const Symbol &>(*p.second).get_name();
                if (esyms.count(n) || imgs.count(n))
                    fresh = false;
                imgs.insert(n);
            }
        }
        if (fresh && !has_kind(*e, is_binder)) {
            stat("expression_key_fresh_image_cases");
            // e with sigma reversed: image symbol -> key expression; value(R at rho[img := value(key)]) == value(e at rho)
            Pairs rev;
            for (const auto &p : sigma)
                rev.push_back(std::make_pair(p.second, p.first));
            std::string o2 = "ok";
            value_oracle(R, rev, e, line, o2);
            if (o2 != "ok") {
                // the exponent path applied with a non-integer quotient (D-C11-2): the image symbol shows up under a
                // fractional exponent; any other mismatch keeps the generic key
                bool powpath = mode == "subs" && sigma.size() == 1 && is_a<Pow>(*sigma[0].first)
                               && has_fractional_power_of(*R, down_cast<const Symbol &>(*sigma[0].second).get_name());
                oracle = std::string("FAIL:") + (powpath ? "exprkey-pow-path-value" : "exprkey-value") + o2.substr(o2.find(':', 5));
            }
        }
        return out;
    }
    set_basic fs = free_symbols(*e);
    bool any = false;
    for (const auto &p : sigma)
        if (fs.find(p.first) != fs.end())
            any = true;
    if (!any) {
        stat("absent_key_cases");
        if (!eq(*R, *e) && binder) {
            stat("binder_absent_not_eq_value_checked");
        } else if (!eq(*R, *e)) {
            oracle = "FAIL:absent:no key occurs free in e but the result is " + out;
            return out;
        }
    }
    if (!binder && mode == "subs") {
        // the other three entry points must agree on derivative-free expressions
        static const char *others[] = {"xreplace", "msubs", "ssubs"};
        for (const char *o : others) {
            B r2;
            std::string e2 = run_catch(o, e, m, cache, r2);
            if (!e2.empty() || !eq(*r2, *R)) {
                oracle = std::string("FAIL:modes:") + o + " gives " + (e2.empty() ? vsexp::dump(r2) : e2);
                return out;
            }
        }
        stat("modes_agree_cases");
    }
    value_oracle(e, sigma, R, line, oracle);
    return out;
}

// ------------------------------------------------------------------ generator
static std::string dump_pairs(const Pairs &s)
{
    std::string o;
    for (const auto &p : s)
        o += " " + vsexp::dump(p.first) + " " + vsexp::dump(p.second);
    return o;
}

static void emit_subs(G &g, const std::string &mode, const B &e, const Pairs &sigma, const std::string &tag)
{
    std::string d = vsexp::dump(e);
    std::string ps = dump_pairs(sigma);
    if (d.size() + ps.size() > 1800) {
        stat("gen_dropped_too_long");
        return;
    }
    try {
        if (!eq(*vsexp::parse(d), *e)) {
            stat("gen_dropped_not_roundtrip");
            return;
        }
        for (const auto &p : sigma)
            if (!eq(*vsexp::parse(vsexp::dump(p.first)), *p.first) || !eq(*vsexp::parse(vsexp::dump(p.second)), *p.second)) {
                stat("gen_dropped_not_roundtrip");
                return;
            }
    } catch (const std::exception &) {
        stat("gen_dropped_not_roundtrip");
        return;
    }
    // distinct keys
    for (size_t i = 0; i < sigma.size(); i++)
        for (size_t j = i + 1; j < sigma.size(); j++)
            if (eq(*sigma[i].first, *sigma[j].first))
                return;
    emit(mode + " " + (g.r.coin() ? "1" : "0") + " " + d + ps, tag);
}

static B image(G &g, int kind, int kinds)
{
    switch (kind) {
        case 0: return gnum(g);
        case 1: return gsym(g);
        case 2: return kinds ? gexpr(g, 1, kinds) : grat(g, 1);
        default: return kinds ? gexpr(g, 2, kinds) : grat(g, 2);
    }
}


// Integer / Rational numbers in the stored fields that XReplaceVisitor hands to apply()/find()
static void collect_numbers(const Basic &b, vec_basic &out)
{
    if (is_a<Integer>(b) || is_a<Rational>(b)) {
        out.push_back(b.rcp_from_this());
        return;
    }
    if (is_a<Add>(b)) {
        const Add &a = down_cast<const Add &>(b);
        collect_numbers(*a.get_coef(), out);
        for (const auto &p : a.get_dict()) {
            collect_numbers(*p.second, out);
            collect_numbers(*p.first, out);
        }
        return;
    }
    if (is_a<Mul>(b)) {
        const Mul &m = down_cast<const Mul &>(b);
        collect_numbers(*m.get_coef(), out);
        for (const auto &p : m.get_dict()) {
            collect_numbers(*p.first, out);
            if (!eq(*p.second, *one))
                collect_numbers(*p.second, out);
        }
        return;
    }
    for (const auto &a : b.get_args())
        collect_numbers(*a, out);
}

static const char *MODES[] = {"subs", "xreplace", "msubs", "ssubs"};

void hx_gen(Rng &rng, const std::string &tier)
{
    G g(rng);
    bool thorough = tier == "thorough";
    int scale = thorough ? 10 : 1;
    static const char *names[] = {"x", "y", "z"};
    struct Fam {
        const char *tag;
        int kinds;
        int count;
        int depth;
    };
    const Fam fams[] = {
        {"rational", 0, 110, 3},
        {"elementary", K_ELEM, 90, 3},
        {"functions", K_ELEM | K_INV | K_SPEC | K_RAD, 70, 2},
        {"sympow", K_ELEM | K_SYMPOW | K_RAD, 50, 2},
        {"fsym", K_FSYM | K_ELEM, 60, 3},
        {"shared", -1, 60, 2},
    };
    // symbol keys on derivative-free expressions, all four entry points
    for (const Fam &f : fams) {
        for (int i = 0; i < f.count * scale; i++) {
            B e;
            try {
                if (f.kinds == -1) {
                    int kinds = g.r.coin() ? (K_ELEM | K_FSYM) : 0;
                    B t = kinds ? gexpr(g, 2, kinds) : grat(g, 2);
                    e = shared(g, t, kinds);
                } else
                    e = f.kinds == 0 ? grat(g, f.depth) : gexpr(g, f.depth, f.kinds);
            } catch (const std::exception &) {
                stat("gen_exception");
                continue;
            }
            if (is_a_Number(*e))
                continue;
            int kinds = f.kinds <= 0 ? 0 : (f.kinds & ~(K_SPEC | K_INV));
            Pairs sigma;
            unsigned shape = (unsigned)g.r.below(20);
            std::string tag = f.tag;
            try {
                if (shape == 0) { // absent key
                    sigma.push_back(std::make_pair(B(symbol("w")), image(g, (int)g.r.below(3), kinds)));
                    tag += "/absent";
                } else if (shape == 1) { // identity
                    sigma.push_back(std::make_pair(B(symbol("x")), B(symbol("x"))));
                    sigma.push_back(std::make_pair(B(symbol("y")), B(symbol("y"))));
                    tag += "/identity";
                } else if (shape == 2) { // swap
                    sigma.push_back(std::make_pair(B(symbol("x")), B(symbol("y"))));
                    sigma.push_back(std::make_pair(B(symbol("y")), B(symbol("x"))));
                    tag += "/swap";
                } else if (shape < 6) { // several keys at once
                    int n = 2 + (int)g.r.below(2);
                    for (int j = 0; j < n; j++)
                        sigma.push_back(std::make_pair(B(symbol(names[j])), image(g, (int)g.r.below(4), kinds)));
                    tag += "/multi";
                } else {
                    int kind = (int)g.r.below(4);
                    sigma.push_back(std::make_pair(B(symbol(names[g.r.below(10) < 7 ? 0 : 1])), image(g, kind, kinds)));
                    tag += kind == 0 ? "/num" : kind == 1 ? "/sym" : "/expr";
                }
            } catch (const std::exception &) {
                stat("gen_exception");
                continue;
            }
            emit_subs(g, MODES[g.r.below(10) < 5 ? 0 : 1 + g.r.below(3)], e, sigma, tag);
        }
    }
    // expression keys: a subterm of e, a whole Add term, a power (SubsVisitor's exponent path)
    for (int i = 0; i < 90 * scale; i++) {
        try {
            int kinds = g.r.coin() ? K_ELEM : 0;
            B e = kinds ? gexpr(g, 3, kinds) : grat(g, 3);
            vec_basic st;
            subterms(e, st);
            if (st.size() < 3)
                continue;
            B k = st[1 + g.r.below(st.size() - 1)];
            if (is_a_Number(*k) || is_a<Symbol>(*k))
                continue;
            Pairs sigma;
            bool ident = g.r.coin(1, 8);
            sigma.push_back(std::make_pair(k, ident ? k : (g.r.coin() ? B(symbol("w")) : image(g, (int)g.r.below(3), kinds))));
            if (g.r.coin(1, 4))
                sigma.push_back(std::make_pair(B(symbol("x")), image(g, (int)g.r.below(3), kinds)));
            emit_subs(g, MODES[g.r.below(4)], e, sigma, ident ? "exprkey/identity" : "exprkey/subterm");
        } catch (const std::exception &) {
            stat("gen_exception");
        }
    }
    for (int i = 0; i < 40 * scale; i++) {
        try {
            // x**a inside e with key x**b
            B x = symbol(names[g.r.below(2)]);
            long a = g.r.range(2, 6), b = g.r.range(2, 3);
            B e = add(mul(pow(x, integer(a)), gsym(g)), add(pow(x, integer(a * b)), grat(g, 1)));
            if (g.r.coin(1, 3))
                e = add(e, pow(x, mul(integer(a), symbol("z"))));
            B key = g.r.coin(1, 3) ? pow(x, symbol("z")) : pow(x, integer(b));
            Pairs sigma;
            sigma.push_back(std::make_pair(key, g.r.coin(2, 3) ? B(symbol("w")) : image(g, 1 + (int)g.r.below(2), 0)));
            emit_subs(g, MODES[g.r.below(10) < 6 ? 0 : 1 + g.r.below(3)], e, sigma, "exprkey/pow");
        } catch (const std::exception &) {
            stat("gen_exception");
        }
    }
    // number keys (a coefficient of an Add term, the constant, a Mul coefficient, an exponent, a function argument)
    // together with symbol keys
    for (int i = 0; i < 80 * scale; i++) {
        try {
            unsigned fam = (unsigned)g.r.below(4);
            int kinds = fam == 0 ? 0 : fam == 1 ? K_ELEM : fam == 2 ? (K_ELEM | K_RAD) : (K_ELEM | K_FSYM);
            B e;
            if (g.r.coin(1, 3)) {
                // a sum with explicit numeric coefficients on terms that contain the symbols
                vec_basic ts;
                int n = 2 + (int)g.r.below(3);
                for (int k = 0; k < n; k++)
                    ts.push_back(mul(gnum(g), kinds ? gexpr(g, 1, kinds) : grat(g, 1)));
                ts.push_back(gnum(g));
                if (kinds & K_ELEM)
                    ts.push_back(sin(gsym(g)));
                e = add(ts);
            } else
                e = kinds ? gexpr(g, 3, kinds) : grat(g, 3);
            vec_basic nums;
            collect_numbers(*e, nums);
            if (nums.empty() || is_a_Number(*e))
                continue;
            Pairs sigma;
            int nn = 1 + (int)g.r.below(2);
            for (int k = 0; k < nn; k++) {
                B key = nums[g.r.below(nums.size())];
                if (eq(*key, *zero))
                    continue;
                B img = g.r.coin(3, 5) ? B(symbol(k == 0 ? "a" : "b")) : image(g, (int)g.r.below(3), kinds & ~K_FSYM);
                sigma.push_back(std::make_pair(key, img));
            }
            if (sigma.empty())
                continue;
            int ns = (int)g.r.below(3);
            for (int k = 0; k < ns; k++)
                sigma.push_back(std::make_pair(B(symbol(names[k])), image(g, (int)g.r.below(4), kinds & ~K_FSYM)));
            emit_subs(g, MODES[g.r.below(4)], e, sigma, ns ? "numkey/with-symbols" : "numkey/alone");
        } catch (const std::exception &) {
            stat("gen_exception");
        }
    }
    // Derivative / Subs inside e: subs only
    for (int i = 0; i < 120 * scale; i++) {
        try {
            B e1 = binder_expr(g, K_FSYM | K_ELEM);
            if (!has_kind(*e1, is_binder))
                continue;
            Pairs sigma;
            unsigned shape = (unsigned)g.r.below(10);
            if (shape < 2) {
                sigma.push_back(std::make_pair(B(symbol("x")), B(symbol("y"))));
                sigma.push_back(std::make_pair(B(symbol("z")), B(symbol("y"))));
            } else if (shape < 4) {
                for (int j = 0; j < 2; j++)
                    sigma.push_back(std::make_pair(B(symbol(names[j])), image(g, (int)g.r.below(3), K_ELEM)));
            } else
                sigma.push_back(std::make_pair(B(symbol(names[g.r.below(3)])), image(g, (int)g.r.below(4), K_ELEM)));
            emit_subs(g, "subs", e1, sigma, "binder");
        } catch (const std::exception &) {
            stat("gen_exception");
        }
    }
}
