// Independent evaluators for the C10 / C11 oracles (differentiation, substitution).
//
// Nothing here calls the library's diff / subs / eval: expressions are walked through their stored
// fields and evaluated in one of the scalar types
//     Q            exact rationals (rational-function fragment; FunctionSymbols get polynomial bodies)
//     T            real floating point (double / long double) with explicit domain checks
//     complex<T>   principal branches (elementary functions only)
// and in forward-mode dual numbers Dual<N> over any of them (nested for Derivative nodes):
//     Symbol            environment lookup
//     FunctionSymbol    a fixed polynomial body per (name, arity)  -> chain rule is really exercised
//     Derivative(a, s…) the dual part of evaluating `a` with the symbol s seeded  (nesting depth <= MAXD)
//     Subs(a, v…, p…)   evaluation of `a` in the environment extended by v ↦ value(p)
// Unsup = outside what is implemented (case skipped, counted); Sing = the point is singular / outside
// the real domain / too close to a pole (point discarded, counted).
#ifndef VERIF_C10_EVAL_H
#define VERIF_C10_EVAL_H
#include "common.h"
#include "sexp.h"
#include <cmath>
#include <complex>
#include <set>
#include <symengine/derivative.h>
#include <symengine/subs.h>
#include <symengine/visitor.h>

namespace dev
{
using namespace SymEngine;
typedef RCP<const Basic> B;
typedef rational_class Q;

struct Unsup {
    std::string why;
    explicit Unsup(const std::string &w) : why(w) {}
};
struct Sing {
    std::string why;
    explicit Sing(const std::string &w) : why(w) {}
};

enum Fid {
    F_NONE, F_SIN, F_COS, F_TAN, F_COT, F_SEC, F_CSC, F_ASIN, F_ACOS, F_ATAN, F_ACOT, F_ASEC, F_ACSC,
    F_SINH, F_COSH, F_TANH, F_COTH, F_SECH, F_CSCH, F_ASINH, F_ACOSH, F_ATANH, F_ACOTH, F_ASECH, F_ACSCH,
    F_LOG, F_EXP, F_SQRT, F_ABS, F_SIGN, F_ERF, F_ERFC, F_GAMMA, F_LOGGAMMA, F_LAMBERTW,
    F_ATAN2, F_BETA, F_ZETA, F_POLYGAMMA, F_LOWERGAMMA, F_UPPERGAMMA
};

inline Fid fid_of(TypeID t)
{
    switch (t) {
        case SYMENGINE_SIN: return F_SIN;
        case SYMENGINE_COS: return F_COS;
        case SYMENGINE_TAN: return F_TAN;
        case SYMENGINE_COT: return F_COT;
        case SYMENGINE_SEC: return F_SEC;
        case SYMENGINE_CSC: return F_CSC;
        case SYMENGINE_ASIN: return F_ASIN;
        case SYMENGINE_ACOS: return F_ACOS;
        case SYMENGINE_ATAN: return F_ATAN;
        case SYMENGINE_ACOT: return F_ACOT;
        case SYMENGINE_ASEC: return F_ASEC;
        case SYMENGINE_ACSC: return F_ACSC;
        case SYMENGINE_SINH: return F_SINH;
        case SYMENGINE_COSH: return F_COSH;
        case SYMENGINE_TANH: return F_TANH;
        case SYMENGINE_COTH: return F_COTH;
        case SYMENGINE_SECH: return F_SECH;
        case SYMENGINE_CSCH: return F_CSCH;
        case SYMENGINE_ASINH: return F_ASINH;
        case SYMENGINE_ACOSH: return F_ACOSH;
        case SYMENGINE_ATANH: return F_ATANH;
        case SYMENGINE_ACOTH: return F_ACOTH;
        case SYMENGINE_ASECH: return F_ASECH;
        case SYMENGINE_ACSCH: return F_ACSCH;
        case SYMENGINE_LOG: return F_LOG;
        case SYMENGINE_ABS: return F_ABS;
        case SYMENGINE_SIGN: return F_SIGN;
        case SYMENGINE_ERF: return F_ERF;
        case SYMENGINE_ERFC: return F_ERFC;
        case SYMENGINE_GAMMA: return F_GAMMA;
        case SYMENGINE_LOGGAMMA: return F_LOGGAMMA;
        case SYMENGINE_LAMBERTW: return F_LAMBERTW;
        case SYMENGINE_ATAN2: return F_ATAN2;
        case SYMENGINE_BETA: return F_BETA;
        case SYMENGINE_ZETA: return F_ZETA;
        case SYMENGINE_POLYGAMMA: return F_POLYGAMMA;
        case SYMENGINE_LOWERGAMMA: return F_LOWERGAMMA;
        case SYMENGINE_UPPERGAMMA: return F_UPPERGAMMA;
        default: return F_NONE;
    }
}
inline bool is_fn2(Fid f)
{
    return f >= F_ATAN2;
}

inline uint64_t strhash(const std::string &s, uint64_t salt = 0)
{
    uint64_t h = 1469598103934665603ULL ^ (salt * 0x9E3779B97F4A7C15ULL);
    for (unsigned char c : s) {
        h ^= c;
        h *= 1099511628211ULL;
    }
    h ^= h >> 29;
    h *= 0xBF58476D1CE4E5B9ULL;
    h ^= h >> 32;
    return h;
}

// ------------------------------------------------------------------ base scalars
template <class T>
inline T mpz_to(const integer_class &z)
{
    if (mp_fits_slong_p(z))
        return (T)mp_get_si(z);
    std::ostringstream ss;
    ss << z;
    return (T)strtold(ss.str().c_str(), nullptr);
}

template <class N>
struct Ops;

// ---- exact rationals
template <>
struct Ops<Q> {
    static Q fromRat(const Q &q) { return q; }
    static Q fromLong(long n) { return Q(integer_class(n)); }
    static Q fromDouble(double) { throw Unsup("float-in-exact"); }
    static Q fromCplx(const Q &, const Q &) { throw Unsup("complex-in-exact"); }
    static Q cnst(const std::string &n) { throw Unsup("constant-in-exact:" + n); }
    static bool isz(const Q &a) { return a == 0; }
    static Q inv(const Q &a)
    {
        if (a == 0)
            throw Sing("div0");
        return Q(integer_class(1)) / a;
    }
    static Q fn1(Fid f, const Q &a)
    {
        if (f == F_ABS) {
            if (a == 0)
                throw Sing("abs0");
            return a < 0 ? Q(-a) : a;
        }
        if (f == F_SIGN) {
            if (a == 0)
                throw Sing("sign0");
            return Q(integer_class(a < 0 ? -1 : 1));
        }
        throw Unsup("function-in-exact");
    }
    static Q fn2(Fid, const Q &, const Q &) { throw Unsup("function-in-exact"); }
    static Q powq(const Q &, const Q &) { throw Unsup("radical-in-exact"); }
    static Q powg(const Q &, const Q &) { throw Unsup("symbolic-power-in-exact"); }
    static void guard(const Q &a)
    {
        if (mpz_sizeinbase(get_mpz_t(get_num(a)), 2) + mpz_sizeinbase(get_mpz_t(get_den(a)), 2) > 200000)
            throw Unsup("exact-too-big");
    }
};

// ---- special functions on the reals (T = double / long double)
template <class T>
struct Spec {
    static T pi() { return (T)3.141592653589793238462643383279502884L; }
    // psi^(n)(x), n >= 0 integer, x > 0
    static T polygamma(int n, T x)
    {
        if (n < 0 || n > 8)
            throw Unsup("polygamma-order");
        if (!(x > (T)1e-3))
            throw Sing("polygamma-domain");
        static const long double Bn[] = {1.0L / 6, -1.0L / 30, 1.0L / 42, -1.0L / 30, 5.0L / 66,
                                         -691.0L / 2730, 7.0L / 6, -3617.0L / 510};
        T acc = 0;
        T nf = 1; // n!
        for (int i = 2; i <= n; i++)
            nf *= i;
        T sgn = (n % 2 == 0) ? (T)-1 : (T)1; // (-1)^(n+1)
        while (x < (T)30) {
            if (n == 0)
                acc -= 1 / x;
            else
                acc += sgn * nf / std::pow(x, (T)(n + 1));
            x += 1;
        }
        T r;
        if (n == 0) {
            r = std::log(x) - 1 / (2 * x);
            T x2 = x * x, p = x2;
            for (int j = 1; j <= 8; j++) {
                r -= (T)Bn[j - 1] / (2 * j * p);
                p *= x2;
            }
        } else {
            T nm1f = nf / n; // (n-1)!
            T s = nm1f / std::pow(x, (T)n) + nf / (2 * std::pow(x, (T)(n + 1)));
            // B_2j (2j+n-1)! / ((2j)! x^(2j+n))
            for (int j = 1; j <= 8; j++) {
                T c = 1; // (2j+n-1)!/(2j)!
                for (int k = 2 * j + 1; k <= 2 * j + n - 1; k++)
                    c *= k;
                s += (T)Bn[j - 1] * c / std::pow(x, (T)(2 * j + n));
            }
            r = sgn * s;
        }
        return acc + r;
    }
    // Hurwitz zeta, s > 1, a > 0
    static T zeta(T s, T a)
    {
        if (!(s > (T)1.05) || !(a > (T)1e-3) || s > 60)
            throw Sing("zeta-domain");
        static const long double Bn[] = {1.0L / 6, -1.0L / 30, 1.0L / 42, -1.0L / 30, 5.0L / 66,
                                         -691.0L / 2730, 7.0L / 6, -3617.0L / 510};
        const int N = 25;
        T sum = 0;
        for (int k = 0; k < N; k++)
            sum += std::pow(a + k, -s);
        T w = a + N;
        sum += std::pow(w, 1 - s) / (s - 1) + std::pow(w, -s) / 2;
        // sum_j B_2j/(2j)! * s(s+1)...(s+2j-2) * w^(-s-2j+1)
        T rising = s; // s(s+1)...(s+2j-2)
        T fact = 2;   // (2j)!
        for (int j = 1; j <= 8; j++) {
            sum += (T)Bn[j - 1] / fact * rising * std::pow(w, -s - 2 * j + 1);
            rising *= (s + 2 * j - 1) * (s + 2 * j);
            fact *= (2 * j + 1) * (2 * j + 2);
        }
        return sum;
    }
    static T lowergamma(T s, T x)
    {
        if (!(s > (T)1e-2) || !(x > (T)1e-6) || x > 30 || s > 40)
            throw Sing("lowergamma-domain");
        T term = 1 / s, sum = term;
        for (int k = 1; k < 2000; k++) {
            term *= x / (s + k);
            sum += term;
            if (std::fabs(term) < std::fabs(sum) * (T)1e-22)
                break;
        }
        return std::pow(x, s) * std::exp(-x) * sum;
    }
    static T lambertw(T v)
    {
        if (!(v > (T)-0.3) || v > 1e6)
            throw Sing("lambertw-domain");
        T w = v < 1 ? v / (1 + v) * (T)1.2 : std::log(v) - std::log(std::log(v) + 1);
        if (v < (T)-0.2)
            w = -0.5;
        for (int i = 0; i < 60; i++) {
            T e = std::exp(w), f = w * e - v;
            T dw = f / (e * (w + 1) - (w + 2) * f / (2 * w + 2));
            w -= dw;
            if (std::fabs(dw) <= std::fabs(w) * (T)1e-20 + (T)1e-30)
                break;
        }
        return w;
    }
};

template <class T>
struct RealOps {
    static T fromRat(const Q &q) { return mpz_to<T>(get_num(q)) / mpz_to<T>(get_den(q)); }
    static T fromLong(long n) { return (T)n; }
    static T fromDouble(double d) { return (T)d; }
    static T fromCplx(const Q &, const Q &) { throw Sing("complex-number-at-real-point"); }
    static T cnst(const std::string &n)
    {
        if (n == "pi")
            return (T)3.141592653589793238462643383279502884L;
        if (n == "E")
            return (T)2.718281828459045235360287471352662498L;
        if (n == "EulerGamma")
            return (T)0.577215664901532860606512090082402431L;
        if (n == "Catalan")
            return (T)0.915965594177219015054603514932384110774L;
        if (n == "GoldenRatio")
            return (T)1.618033988749894848204586834365638118L;
        throw Unsup("constant:" + n);
    }
    static bool isz(const T &a) { return a == 0; }
    static T chk(T v)
    {
        if (!(std::fabs(v) < (T)1e60))
            throw Sing("overflow");
        return v;
    }
    static T inv(const T &a)
    {
        if (!(std::fabs(a) > (T)1e-9))
            throw Sing("div0");
        return chk(1 / a);
    }
    static T fn1(Fid f, const T &v)
    {
        const T m = (T)1e-3; // margin around singular points
        switch (f) {
            case F_SIN: return std::sin(v);
            case F_COS: return std::cos(v);
            case F_TAN:
                if (std::fabs(std::cos(v)) < m)
                    throw Sing("tan-pole");
                return std::tan(v);
            case F_COT:
                if (std::fabs(std::sin(v)) < m)
                    throw Sing("cot-pole");
                return std::cos(v) / std::sin(v);
            case F_SEC:
                if (std::fabs(std::cos(v)) < m)
                    throw Sing("sec-pole");
                return 1 / std::cos(v);
            case F_CSC:
                if (std::fabs(std::sin(v)) < m)
                    throw Sing("csc-pole");
                return 1 / std::sin(v);
            case F_ASIN:
                if (!(std::fabs(v) < 1 - m))
                    throw Sing("asin-domain");
                return std::asin(v);
            case F_ACOS:
                if (!(std::fabs(v) < 1 - m))
                    throw Sing("acos-domain");
                return std::acos(v);
            case F_ATAN: return std::atan(v);
            case F_ACOT:
                if (!(std::fabs(v) > m))
                    throw Sing("acot-jump");
                return std::atan(1 / v);
            case F_ASEC:
                if (!(std::fabs(v) > 1 + m))
                    throw Sing("asec-domain");
                return std::acos(1 / v);
            case F_ACSC:
                if (!(std::fabs(v) > 1 + m))
                    throw Sing("acsc-domain");
                return std::asin(1 / v);
            case F_SINH: return chk(std::sinh(v));
            case F_COSH: return chk(std::cosh(v));
            case F_TANH: return std::tanh(v);
            case F_COTH:
                if (!(std::fabs(v) > m))
                    throw Sing("coth-pole");
                return 1 / std::tanh(v);
            case F_SECH: return 1 / std::cosh(v);
            case F_CSCH:
                if (!(std::fabs(v) > m))
                    throw Sing("csch-pole");
                return 1 / std::sinh(v);
            case F_ASINH: return std::asinh(v);
            case F_ACOSH:
                if (!(v > 1 + m))
                    throw Sing("acosh-domain");
                return std::acosh(v);
            case F_ATANH:
                if (!(std::fabs(v) < 1 - m))
                    throw Sing("atanh-domain");
                return std::atanh(v);
            case F_ACOTH:
                if (!(std::fabs(v) > 1 + m))
                    throw Sing("acoth-domain");
                return std::atanh(1 / v);
            case F_ASECH:
                if (!(v > m && v < 1 - m))
                    throw Sing("asech-domain");
                return std::acosh(1 / v);
            case F_ACSCH:
                if (!(std::fabs(v) > m))
                    throw Sing("acsch-pole");
                return std::asinh(1 / v);
            case F_LOG:
                if (!(v > m))
                    throw Sing("log-domain");
                return std::log(v);
            case F_EXP:
                if (!(std::fabs(v) < 100))
                    throw Sing("exp-range");
                return std::exp(v);
            case F_SQRT:
                if (!(v > m))
                    throw Sing("sqrt-domain");
                return std::sqrt(v);
            case F_ABS:
                if (!(std::fabs(v) > m))
                    throw Sing("abs-kink");
                return std::fabs(v);
            case F_SIGN:
                if (!(std::fabs(v) > m))
                    throw Sing("sign-jump");
                return v < 0 ? (T)-1 : (T)1;
            case F_ERF: return std::erf(v);
            case F_ERFC: return std::erfc(v);
            case F_GAMMA:
                if (!(v > m) || v > 40)
                    throw Sing("gamma-domain");
                return std::tgamma(v);
            case F_LOGGAMMA:
                if (!(v > m) || v > 1e6)
                    throw Sing("loggamma-domain");
                return std::lgamma(v);
            case F_LAMBERTW: return Spec<T>::lambertw(v);
            default: throw Unsup("fn1");
        }
    }
    static T fn2(Fid f, const T &a, const T &b)
    {
        switch (f) {
            case F_ATAN2:
                if (!(a * a + b * b > (T)1e-6) || (b < 0 && std::fabs(a) < (T)1e-3))
                    throw Sing("atan2-cut");
                return std::atan2(a, b);
            case F_BETA:
                if (!(a > (T)1e-3 && b > (T)1e-3) || a > 40 || b > 40)
                    throw Sing("beta-domain");
                return std::exp(std::lgamma(a) + std::lgamma(b) - std::lgamma(a + b));
            case F_ZETA: return Spec<T>::zeta(a, b);
            case F_POLYGAMMA: {
                T r = std::floor(a + (T)0.5);
                if (std::fabs(a - r) > (T)1e-12 || r < 0)
                    throw Unsup("polygamma-noninteger-order");
                return Spec<T>::polygamma((int)r, b);
            }
            case F_LOWERGAMMA: return Spec<T>::lowergamma(a, b);
            case F_UPPERGAMMA:
                if (!(a > (T)1e-2) || a > 40)
                    throw Sing("uppergamma-domain");
                return std::tgamma(a) - Spec<T>::lowergamma(a, b);
            default: throw Unsup("fn2");
        }
    }
    static T powq(const T &a, const Q &q)
    {
        if (!(a > (T)1e-6))
            throw Sing("radical-of-nonpositive");
        return chk(std::pow(a, fromRat(q)));
    }
    static T powg(const T &a, const T &b)
    {
        if (!(a > (T)1e-6))
            throw Sing("power-of-nonpositive");
        if (std::fabs(b * std::log(a)) > 100)
            throw Sing("power-range");
        return chk(std::pow(a, b));
    }
    static void guard(const T &a) { chk(a); }
};
template <>
struct Ops<double> : RealOps<double> {
};
template <>
struct Ops<long double> : RealOps<long double> {
};

// ---- complex numbers, principal branches, elementary functions only
template <class T>
struct CxOps {
    typedef std::complex<T> C;
    static C fromRat(const Q &q) { return C(RealOps<T>::fromRat(q), 0); }
    static C fromLong(long n) { return C((T)n, 0); }
    static C fromDouble(double d) { return C((T)d, 0); }
    static C fromCplx(const Q &re, const Q &im) { return C(RealOps<T>::fromRat(re), RealOps<T>::fromRat(im)); }
    static C cnst(const std::string &n) { return C(RealOps<T>::cnst(n), 0); }
    static bool isz(const C &a) { return a.real() == 0 && a.imag() == 0; }
    static C chk(const C &v)
    {
        if (!(std::abs(v) < (T)1e60))
            throw Sing("overflow");
        return v;
    }
    static C inv(const C &a)
    {
        if (!(std::abs(a) > (T)1e-9))
            throw Sing("div0");
        return chk(C(1, 0) / a);
    }
    // keep away from the cut (-inf, 0] of log / sqrt / non-integer powers
    static void offcut(const C &w, const char *what)
    {
        if (!(std::abs(w) > (T)1e-6))
            throw Sing(std::string(what) + "-branch-point");
        if (w.real() < 0 && std::fabs(w.imag()) < (T)1e-3 * std::abs(w))
            throw Sing(std::string(what) + "-cut");
    }
    static C csqrt(const C &w, const char *what)
    {
        offcut(w, what);
        return std::sqrt(w);
    }
    static C fn1(Fid f, const C &v)
    {
        const T m = (T)1e-3;
        const C one(1, 0);
        switch (f) {
            case F_SIN: return chk(std::sin(v));
            case F_COS: return chk(std::cos(v));
            case F_TAN:
                if (std::abs(std::cos(v)) < m)
                    throw Sing("tan-pole");
                return chk(std::sin(v) / std::cos(v));
            case F_COT:
                if (std::abs(std::sin(v)) < m)
                    throw Sing("cot-pole");
                return chk(std::cos(v) / std::sin(v));
            case F_SEC:
                if (std::abs(std::cos(v)) < m)
                    throw Sing("sec-pole");
                return chk(one / std::cos(v));
            case F_CSC:
                if (std::abs(std::sin(v)) < m)
                    throw Sing("csc-pole");
                return chk(one / std::sin(v));
            case F_ASIN:
            case F_ACOS:
                offcut(one - v * v, "asin"); // cuts: real |v| > 1
                return f == F_ASIN ? std::asin(v) : std::acos(v);
            case F_ATAN:
                offcut(one + v * v, "atan"); // cuts: imaginary |v| > 1
                return std::atan(v);
            case F_ACOT:
                return fn1(F_ATAN, inv(v));
            case F_ASEC: return fn1(F_ACOS, inv(v));
            case F_ACSC: return fn1(F_ASIN, inv(v));
            case F_SINH: return chk(std::sinh(v));
            case F_COSH: return chk(std::cosh(v));
            case F_TANH:
                if (std::abs(std::cosh(v)) < m)
                    throw Sing("tanh-pole");
                return chk(std::sinh(v) / std::cosh(v));
            case F_COTH:
                if (std::abs(std::sinh(v)) < m)
                    throw Sing("coth-pole");
                return chk(std::cosh(v) / std::sinh(v));
            case F_SECH:
                if (std::abs(std::cosh(v)) < m)
                    throw Sing("sech-pole");
                return chk(one / std::cosh(v));
            case F_CSCH:
                if (std::abs(std::sinh(v)) < m)
                    throw Sing("csch-pole");
                return chk(one / std::sinh(v));
            case F_ASINH:
                offcut(one + v * v, "asinh");
                return std::asinh(v);
            case F_ACOSH:
                offcut(v - one, "acosh");
                offcut(v + one, "acosh");
                return std::acosh(v);
            case F_ATANH:
                offcut(one - v * v, "atanh");
                return std::atanh(v);
            case F_ACOTH: return fn1(F_ATANH, inv(v));
            case F_ASECH: return fn1(F_ACOSH, inv(v));
            case F_ACSCH: return fn1(F_ASINH, inv(v));
            case F_LOG:
                offcut(v, "log");
                return std::log(v);
            case F_EXP:
                if (!(std::fabs(v.real()) < 100))
                    throw Sing("exp-range");
                return std::exp(v);
            case F_SQRT: return csqrt(v, "sqrt");
            default: throw Unsup("complex-special-function");
        }
    }
    static C fn2(Fid, const C &, const C &) { throw Unsup("complex-special-function"); }
    static C powq(const C &a, const Q &q)
    {
        offcut(a, "radical");
        return chk(std::exp(fromRat(q) * std::log(a)));
    }
    static C powg(const C &a, const C &b)
    {
        offcut(a, "power");
        C t = b * std::log(a);
        if (!(std::fabs(t.real()) < 100))
            throw Sing("power-range");
        return chk(std::exp(t));
    }
    static void guard(const C &a) { chk(a); }
};
template <>
struct Ops<std::complex<double>> : CxOps<double> {
};
template <>
struct Ops<std::complex<long double>> : CxOps<long double> {
};

// ------------------------------------------------------------------ dual numbers
template <class N>
struct Dual {
    N v, d;
};
template <class N>
inline Dual<N> operator+(const Dual<N> &a, const Dual<N> &b)
{
    Dual<N> r = {a.v + b.v, a.d + b.d};
    return r;
}
template <class N>
inline Dual<N> operator-(const Dual<N> &a, const Dual<N> &b)
{
    Dual<N> r = {a.v - b.v, a.d - b.d};
    return r;
}
template <class N>
inline Dual<N> operator*(const Dual<N> &a, const Dual<N> &b)
{
    Dual<N> r = {a.v * b.v, a.v * b.d + a.d * b.v};
    return r;
}

template <class N>
inline N ipow(const N &b, long n)
{
    if (n < 0)
        return Ops<N>::inv(ipow(b, -n));
    N r = Ops<N>::fromLong(1), p = b;
    while (n) {
        if (n & 1)
            r = r * p;
        n >>= 1;
        if (n)
            p = p * p;
    }
    Ops<N>::guard(r);
    return r;
}

// when set, d/dv acosh(v) is taken as derivative.cpp codes it, 1/sqrt(v^2-1) (wrong sign for Re v < 0);
// used only to *classify* an oracle failure as the known acosh defect
static bool g_acosh_as_coded = false;

// f'(v) for the one-argument functions, written in the arithmetic of N (the mathematical
// derivative on the principal branch, *not* a transcription of derivative.cpp)
template <class N>
inline N d1(Fid f, const N &v)
{
    typedef Ops<N> O;
    const N one = O::fromLong(1), zero = O::fromLong(0);
    switch (f) {
        case F_SIN: return O::fn1(F_COS, v);
        case F_COS: return zero - O::fn1(F_SIN, v);
        case F_TAN: {
            N t = O::fn1(F_TAN, v);
            return one + t * t;
        }
        case F_COT: {
            N t = O::fn1(F_COT, v);
            return zero - (one + t * t);
        }
        case F_SEC: return O::fn1(F_SEC, v) * O::fn1(F_TAN, v);
        case F_CSC: return zero - O::fn1(F_CSC, v) * O::fn1(F_COT, v);
        case F_ASIN: return O::inv(O::fn1(F_SQRT, one - v * v));
        case F_ACOS: return zero - O::inv(O::fn1(F_SQRT, one - v * v));
        case F_ATAN: return O::inv(one + v * v);
        case F_ACOT: return zero - O::inv(one + v * v);
        case F_ASEC: return O::inv(v * v * O::fn1(F_SQRT, one - O::inv(v * v)));
        case F_ACSC: return zero - O::inv(v * v * O::fn1(F_SQRT, one - O::inv(v * v)));
        case F_SINH: return O::fn1(F_COSH, v);
        case F_COSH: return O::fn1(F_SINH, v);
        case F_TANH: {
            N t = O::fn1(F_TANH, v);
            return one - t * t;
        }
        case F_COTH: {
            N t = O::fn1(F_COTH, v);
            return one - t * t;
        }
        case F_SECH: return zero - O::fn1(F_SECH, v) * O::fn1(F_TANH, v);
        case F_CSCH: return zero - O::fn1(F_CSCH, v) * O::fn1(F_COTH, v);
        case F_ASINH: return O::inv(O::fn1(F_SQRT, v * v + one));
        // principal branch: 1/(sqrt(v-1) sqrt(v+1)), which is 1/sqrt(v^2-1) only for Re v > 0
        case F_ACOSH:
            if (g_acosh_as_coded)
                return O::inv(O::fn1(F_SQRT, v * v - one));
            return O::inv(O::fn1(F_SQRT, v - one) * O::fn1(F_SQRT, v + one));
        case F_ATANH: return O::inv(one - v * v);
        case F_ACOTH: return O::inv(one - v * v);
        case F_ASECH: {
            N w = O::inv(v);
            return zero - w * w * O::inv(O::fn1(F_SQRT, w - one) * O::fn1(F_SQRT, w + one));
        }
        case F_ACSCH: return zero - O::inv(v * v * O::fn1(F_SQRT, one + O::inv(v * v)));
        case F_LOG: return O::inv(v);
        case F_EXP: return O::fn1(F_EXP, v);
        case F_SQRT: return O::inv(O::fromLong(2) * O::fn1(F_SQRT, v));
        case F_ABS: return O::fn1(F_SIGN, v);
        case F_SIGN: return zero;
        case F_ERF:
            return O::fromLong(2) * O::fn1(F_EXP, zero - v * v) * O::inv(O::fn1(F_SQRT, O::cnst("pi")));
        case F_ERFC:
            return zero - O::fromLong(2) * O::fn1(F_EXP, zero - v * v) * O::inv(O::fn1(F_SQRT, O::cnst("pi")));
        case F_GAMMA: return O::fn1(F_GAMMA, v) * O::fn2(F_POLYGAMMA, zero, v);
        case F_LOGGAMMA: return O::fn2(F_POLYGAMMA, zero, v);
        case F_LAMBERTW: {
            N w = O::fn1(F_LAMBERTW, v);
            return w * O::inv(v * (one + w));
        }
        default: throw Unsup("d1");
    }
}

template <class N>
struct Ops<Dual<N>> {
    typedef Dual<N> D;
    typedef Ops<N> O;
    static D mk(const N &v, const N &d)
    {
        D r = {v, d};
        return r;
    }
    static D lift(const N &v) { return mk(v, O::fromLong(0)); }
    static D fromRat(const Q &q) { return lift(O::fromRat(q)); }
    static D fromLong(long n) { return lift(O::fromLong(n)); }
    static D fromDouble(double d) { return lift(O::fromDouble(d)); }
    static D fromCplx(const Q &a, const Q &b) { return lift(O::fromCplx(a, b)); }
    static D cnst(const std::string &n) { return lift(O::cnst(n)); }
    static bool isz(const D &a) { return O::isz(a.v) && O::isz(a.d); }
    static D inv(const D &a)
    {
        N i = O::inv(a.v);
        return mk(i, O::fromLong(0) - i * i * a.d);
    }
    static D fn1(Fid f, const D &a)
    {
        N v = O::fn1(f, a.v);
        if (O::isz(a.d))
            return mk(v, a.d);
        return mk(v, d1<N>(f, a.v) * a.d);
    }
    static D fn2(Fid f, const D &a, const D &b)
    {
        N v = O::fn2(f, a.v, b.v);
        N d = O::fromLong(0);
        const N one = O::fromLong(1);
        switch (f) {
            case F_ATAN2: { // atan2(y = a, x = b)
                N r = O::inv(a.v * a.v + b.v * b.v);
                d = b.v * r * a.d - a.v * r * b.d;
                break;
            }
            case F_BETA: {
                N pab = O::fn2(F_POLYGAMMA, O::fromLong(0), a.v + b.v);
                if (!O::isz(a.d))
                    d = d + v * (O::fn2(F_POLYGAMMA, O::fromLong(0), a.v) - pab) * a.d;
                if (!O::isz(b.d))
                    d = d + v * (O::fn2(F_POLYGAMMA, O::fromLong(0), b.v) - pab) * b.d;
                break;
            }
            case F_ZETA:
                if (!O::isz(a.d))
                    throw Unsup("d/ds-zeta");
                if (!O::isz(b.d))
                    d = (O::fromLong(0) - a.v) * O::fn2(F_ZETA, a.v + one, b.v) * b.d;
                break;
            case F_POLYGAMMA:
                if (!O::isz(a.d))
                    throw Unsup("d/dn-polygamma");
                if (!O::isz(b.d))
                    d = O::fn2(F_POLYGAMMA, a.v + one, b.v) * b.d;
                break;
            case F_LOWERGAMMA:
            case F_UPPERGAMMA:
                if (!O::isz(a.d))
                    throw Unsup("d/ds-incomplete-gamma");
                if (!O::isz(b.d)) {
                    d = O::powg(b.v, a.v - one) * O::fn1(F_EXP, O::fromLong(0) - b.v) * b.d;
                    if (f == F_UPPERGAMMA)
                        d = O::fromLong(0) - d;
                }
                break;
            default: throw Unsup("fn2-dual");
        }
        return mk(v, d);
    }
    static D powq(const D &a, const Q &q)
    {
        N p = O::powq(a.v, q);
        if (O::isz(a.d))
            return mk(p, a.d);
        Q q1 = q - Q(integer_class(1));
        return mk(p, O::fromRat(q) * O::powq(a.v, q1) * a.d);
    }
    static D powg(const D &a, const D &b)
    {
        N p = O::powg(a.v, b.v);
        N d = O::fromLong(0);
        if (!O::isz(b.d))
            d = d + p * O::fn1(F_LOG, a.v) * b.d;
        if (!O::isz(a.d))
            d = d + p * b.v * O::inv(a.v) * a.d;
        return mk(p, d);
    }
    static void guard(const D &a)
    {
        O::guard(a.v);
        O::guard(a.d);
    }
};

// ------------------------------------------------------------------ FunctionSymbol bodies
// name/arity dependent polynomial with small integer coefficients, asymmetric in its arguments
template <class N>
inline N fbody(const std::string &name, const std::vector<N> &a)
{
    typedef Ops<N> O;
    long k = 2 + (long)(strhash(name) % 3);
    if (a.empty())
        return O::fromLong(k);
    N s = O::fromLong(0), p = O::fromLong(1);
    for (size_t i = 0; i < a.size(); i++) {
        s = s + O::fromLong(k + (long)i) * ipow(a[i], 3 + (long)(i % 2));
        p = p * a[i];
    }
    return s + p * (a[0] + O::fromLong(k)) + O::fromLong(k) * a[a.size() - 1];
}

// ------------------------------------------------------------------ the evaluator
static const int MAXD = 4;

template <class N, int Depth>
struct Ev;

template <class N, int Depth>
struct DerivEval {
    typedef std::map<std::string, N> Env;
    static N run(const Basic &arg, const std::vector<std::string> &syms, size_t k, const Env &env)
    {
        if (k == 0)
            return Ev<N, Depth>::eval(arg, env);
        std::map<std::string, Dual<N>> env2;
        for (typename Env::const_iterator it = env.begin(); it != env.end(); ++it)
            env2[it->first] = Ops<Dual<N>>::lift(it->second);
        typename std::map<std::string, Dual<N>>::iterator it = env2.find(syms[k - 1]);
        if (it == env2.end())
            throw Unsup("derivative-wrt-unbound-symbol");
        it->second.d = Ops<N>::fromLong(1);
        Dual<N> r = DerivEval<Dual<N>, Depth + 1>::run(arg, syms, k - 1, env2);
        return r.d;
    }
};
template <class N>
struct DerivEval<N, MAXD> {
    typedef std::map<std::string, N> Env;
    static N run(const Basic &arg, const std::vector<std::string> &, size_t k, const Env &env)
    {
        if (k == 0)
            return Ev<N, MAXD>::eval(arg, env);
        throw Unsup("derivative-order");
    }
};

template <class N, int Depth>
struct Ev {
    typedef std::map<std::string, N> Env;
    typedef Ops<N> O;

    static N power(const Basic &base, const Basic &ex, const Env &env)
    {
        if (is_a<Integer>(ex)) {
            const integer_class &n = down_cast<const Integer &>(ex).as_integer_class();
            if (!mp_fits_slong_p(n) || mp_get_si(n) > 4096 || mp_get_si(n) < -4096)
                throw Unsup("huge-exponent");
            return ipow(eval(base, env), mp_get_si(n));
        }
        if (is_a<Rational>(ex))
            return O::powq(eval(base, env), down_cast<const Rational &>(ex).as_rational_class());
        if (is_a<Constant>(base) && down_cast<const Constant &>(base).get_name() == "E")
            return O::fn1(F_EXP, eval(ex, env));
        return O::powg(eval(base, env), eval(ex, env));
    }

    static N eval(const Basic &b, const Env &env)
    {
        switch (b.get_type_code()) {
            case SYMENGINE_INTEGER: return O::fromRat(Q(down_cast<const Integer &>(b).as_integer_class()));
            case SYMENGINE_RATIONAL: return O::fromRat(down_cast<const Rational &>(b).as_rational_class());
            case SYMENGINE_COMPLEX: {
                const Complex &c = down_cast<const Complex &>(b);
                return O::fromCplx(c.real_, c.imaginary_);
            }
            case SYMENGINE_REAL_DOUBLE: return O::fromDouble(down_cast<const RealDouble &>(b).i);
            case SYMENGINE_SYMBOL: {
                typename Env::const_iterator it = env.find(down_cast<const Symbol &>(b).get_name());
                if (it == env.end())
                    throw Unsup("free-symbol-without-value");
                return it->second;
            }
            case SYMENGINE_CONSTANT: return O::cnst(down_cast<const Constant &>(b).get_name());
            case SYMENGINE_ADD: {
                const Add &a = down_cast<const Add &>(b);
                N s = eval(*a.get_coef(), env);
                for (const auto &p : a.get_dict())
                    s = s + eval(*p.second, env) * eval(*p.first, env);
                O::guard(s);
                return s;
            }
            case SYMENGINE_MUL: {
                const Mul &m = down_cast<const Mul &>(b);
                N s = eval(*m.get_coef(), env);
                for (const auto &p : m.get_dict())
                    s = s * power(*p.first, *p.second, env);
                O::guard(s);
                return s;
            }
            case SYMENGINE_POW: {
                const Pow &p = down_cast<const Pow &>(b);
                return power(*p.get_base(), *p.get_exp(), env);
            }
            case SYMENGINE_FUNCTIONSYMBOL: {
                const FunctionSymbol &f = down_cast<const FunctionSymbol &>(b);
                std::vector<N> a;
                for (const auto &x : f.get_args())
                    a.push_back(eval(*x, env));
                N r = fbody<N>(f.get_name(), a);
                O::guard(r);
                return r;
            }
            case SYMENGINE_DERIVATIVE: {
                const Derivative &d = down_cast<const Derivative &>(b);
                std::vector<std::string> syms;
                for (const auto &s : d.get_symbols()) {
                    if (!is_a<Symbol>(*s))
                        throw Unsup("derivative-wrt-non-symbol");
                    syms.push_back(down_cast<const Symbol &>(*s).get_name());
                }
                return DerivEval<N, Depth>::run(*d.get_arg(), syms, syms.size(), env);
            }
            case SYMENGINE_SUBS: {
                const Subs &s = down_cast<const Subs &>(b);
                Env env2 = env;
                for (const auto &p : s.get_dict()) {
                    if (!is_a<Symbol>(*p.first))
                        throw Unsup("subs-of-non-symbol");
                    env2[down_cast<const Symbol &>(*p.first).get_name()] = eval(*p.second, env);
                }
                return eval(*s.get_arg(), env2);
            }
            default: break;
        }
        Fid f = fid_of(b.get_type_code());
        if (f == F_NONE)
            throw Unsup("node:" + type_code_name(b.get_type_code()));
        vec_basic args = b.get_args();
        if (is_fn2(f)) {
            if (args.size() != 2)
                throw Unsup("arity");
            return O::fn2(f, eval(*args[0], env), eval(*args[1], env));
        }
        if (args.size() != 1)
            throw Unsup("arity");
        return O::fn1(f, eval(*args[0], env));
    }
};

// ------------------------------------------------------------------ helpers shared by the harnesses
inline void collect_symbols(const Basic &b, std::set<std::string> &out)
{
    if (is_a<Symbol>(b))
        out.insert(down_cast<const Symbol &>(b).get_name());
    for (const auto &a : b.get_args())
        collect_symbols(*a, out);
}

// does the tree contain a node of one of these kinds
inline bool has_kind(const Basic &b, bool (*pred)(const Basic &))
{
    if (pred(b))
        return true;
    for (const auto &a : b.get_args())
        if (has_kind(*a, pred))
            return true;
    return false;
}
inline bool is_binder(const Basic &b)
{
    return is_a<Derivative>(b) || is_a<Subs>(b);
}
inline bool is_fsym(const Basic &b)
{
    return is_a<FunctionSymbol>(b);
}
// a Subs node that sends two of its variables to the same symbol: differentiating / substituting it runs into
// the rename clash of SubsVisitor::bvisit(const Derivative &) (docs/C11.md, D-C11-1)
inline bool is_clash_subs(const Basic &b)
{
    if (!is_a<Subs>(b))
        return false;
    const map_basic_basic &d = down_cast<const Subs &>(b).get_dict();
    for (auto i = d.begin(); i != d.end(); ++i)
        for (auto j = std::next(i); j != d.end(); ++j)
            if (is_a<Symbol>(*i->second) && eq(*i->second, *j->second))
                return true;
    return false;
}
inline bool is_acosh(const Basic &b)
{
    return is_a<ACosh>(b);
}

// deterministic sample points: small "generic" values derived from a hash
inline Q pointQ(uint64_t h)
{
    static const long nums[] = {2, 3, 5, 7, -2, -3, -5, 4, -7, 9, 11, -4};
    static const long dens[] = {3, 5, 7, 2, 9, 11, 4, 13};
    long n = nums[h % 12], d = dens[(h >> 8) % 8];
    Q q = Q(integer_class(n)) / Q(integer_class(d));
    return q;
}
// positive reals in (0.25, 2.4)
inline long double pointR(uint64_t h)
{
    return 0.25L + (long double)(h % 100003) / 100003.0L * 2.15L;
}
inline std::complex<long double> pointC(uint64_t h)
{
    long double re = 0.3L + (long double)(h % 100003) / 100003.0L * 1.6L;
    long double im = 0.2L + (long double)((h >> 20) % 100003) / 100003.0L * 0.8L;
    if ((h >> 45) & 1)
        re = -re;
    if ((h >> 46) & 1)
        im = -im;
    return std::complex<long double>(re, im);
}

template <class T>
inline T cabsT(const T &x)
{
    return std::fabs(x);
}
template <class T>
inline T cabsT(const std::complex<T> &x)
{
    return std::abs(x);
}

} // namespace dev
#endif
