// C27: set operations have pointwise membership semantics.
//
// Op line:   <verb> <expr> [<point>]
//   verbs    eval <expr>            evaluate, print the canonical dump of the resulting set
//            contains <expr> <q>    print T / F / U (unevaluated Contains)
//            sup <expr> | inf <expr>
//   <expr>   S-expression; every compound node is an *operation executed on the real library*:
//            (iv a b c|o c|o)   interval(a, b, left_open, right_open)     a, b in Q u {-oo, oo}
//            (fs q1 q2 ...)     finiteset({...})
//            empty univ reals rats ints nats nats0
//            (un A B ...)       free function set_union({A, B, ...})
//            (in A B ...)       free function set_intersection({A, B, ...})
//            (co U A)           free function set_complement(U, A)   (= A->set_complement(U) = U \ A)
//            (mu A B)           A->set_union(B)          (method)
//            (mi A B)           A->set_intersection(B)   (method)
//            (mc A B)           A->set_complement(B)     (method; = B \ A)
//            (bd A) (ir A) (cl A)   boundary, interior, closure
//
// Oracle (independent of the Lean model): a reference membership vector over a sample grid (all
// break points of the expression, all integers around them, all midpoints) is computed from the
// expression by plain boolean / order-topological semantics.  At every node the real result is
// (a) decoded structurally and compared with the reference  -> FAIL:op-<tag>
// (b) asked via contains() at every sample point; a definite answer must agree with (a) -> FAIL:contains
#include "common.h"
#include <symengine/sets.h>
#include <symengine/infinity.h>
#include <symengine/rational.h>
#include <symengine/integer.h>
#include <symengine/logic.h>
#include <algorithm>
#include <set>

using namespace SymEngine;

// Some defects of the set code are endless loops that allocate without bound ([2, oo) n Naturals) or endless
// recursion: cap the address space and the CPU time of the harness process so that such an op ends as
// E:BadAlloc / a crash that the runner attributes to the op, instead of exhausting the machine.
#include <sys/resource.h>
#include <unistd.h>
namespace
{
struct Limits {
    Limits()
    {
        struct rlimit a;
        a.rlim_cur = a.rlim_max = (rlim_t)3 << 30;
        setrlimit(RLIMIT_AS, &a);
        struct rlimit c;
        c.rlim_cur = c.rlim_max = 600;
        setrlimit(RLIMIT_CPU, &c);
    }
} g_limits;
} // namespace

// ------------------------------------------------------------------ tiny extended rationals
typedef long long ll;
static ll gcdll(ll a, ll b)
{
    if (a < 0)
        a = -a;
    if (b < 0)
        b = -b;
    while (b) {
        ll t = a % b;
        a = b;
        b = t;
    }
    return a;
}
struct Q {
    int inf; // -1, 0, +1
    ll n, d;
    Q() : inf(0), n(0), d(1) {}
    Q(ll nn, ll dd) : inf(0), n(nn), d(dd)
    {
        if (d < 0) {
            n = -n;
            d = -d;
        }
        ll g = gcdll(n, d);
        if (g > 1) {
            n /= g;
            d /= g;
        }
    }
    static Q infty(int s)
    {
        Q q;
        q.inf = s;
        return q;
    }
    bool isint() const
    {
        return inf == 0 && d == 1;
    }
};
static int cmpq(const Q &a, const Q &b)
{
    if (a.inf != b.inf || a.inf != 0)
        return a.inf < b.inf ? -1 : (a.inf > b.inf ? 1 : 0);
    __int128 l = (__int128)a.n * b.d, r = (__int128)b.n * a.d;
    return l < r ? -1 : (l > r ? 1 : 0);
}
static bool operator<(const Q &a, const Q &b)
{
    return cmpq(a, b) < 0;
}
static bool operator==(const Q &a, const Q &b)
{
    return cmpq(a, b) == 0;
}
static Q midq(const Q &a, const Q &b)
{
    return Q(a.n * b.d + b.n * a.d, 2 * a.d * b.d);
}
static std::string qstr(const Q &q)
{
    if (q.inf)
        return q.inf < 0 ? "-oo" : "oo";
    if (q.d == 1)
        return std::to_string(q.n);
    return std::to_string(q.n) + "/" + std::to_string(q.d);
}
static bool parseq(const std::string &s, Q &out)
{
    if (s == "oo" || s == "+oo") {
        out = Q::infty(1);
        return true;
    }
    if (s == "-oo") {
        out = Q::infty(-1);
        return true;
    }
    if (s.empty())
        return false;
    size_t sl = s.find('/');
    try {
        size_t pos;
        if (sl == std::string::npos) {
            ll n = std::stoll(s, &pos);
            if (pos != s.size())
                return false;
            out = Q(n, 1);
            return true;
        }
        ll n = std::stoll(s.substr(0, sl), &pos);
        if (pos != sl)
            return false;
        std::string ds = s.substr(sl + 1);
        ll d = std::stoll(ds, &pos);
        if (pos != ds.size() || d <= 0)
            return false;
        out = Q(n, d);
        return true;
    } catch (...) {
        return false;
    }
}
static RCP<const Number> qnum(const Q &q)
{
    if (q.inf > 0)
        return Inf;
    if (q.inf < 0)
        return NegInf;
    if (q.d == 1)
        return integer(q.n);
    return Rational::from_two_ints(q.n, q.d);
}
static bool numq(const Basic &b, Q &out)
{
    if (is_a<Integer>(b)) {
        out = Q(down_cast<const Integer &>(b).as_int(), 1);
        return true;
    }
    if (is_a<Rational>(b)) {
        const Rational &r = down_cast<const Rational &>(b);
        out = Q(mp_get_si(get_num(r.as_rational_class())), mp_get_si(get_den(r.as_rational_class())));
        return true;
    }
    if (is_a<Infty>(b)) {
        const Infty &i = down_cast<const Infty &>(b);
        if (i.is_positive_infinity()) {
            out = Q::infty(1);
            return true;
        }
        if (i.is_negative_infinity()) {
            out = Q::infty(-1);
            return true;
        }
    }
    return false;
}

// ------------------------------------------------------------------ expressions
struct Node {
    std::string tag;
    std::vector<Node> kids;
    std::vector<Q> nums;
    bool lo, ro;
    Node() : lo(false), ro(false) {}
};
static bool parse_expr(const std::vector<std::string> &t, size_t &i, Node &out)
{
    if (i >= t.size())
        return false;
    if (t[i] != "(") {
        if (t[i] == ")")
            return false;
        out.tag = t[i++];
        static const char *atoms[] = {"empty", "univ", "reals", "rats", "ints", "nats", "nats0"};
        for (auto a : atoms)
            if (out.tag == a)
                return true;
        return false;
    }
    i++;
    if (i >= t.size())
        return false;
    out.tag = t[i++];
    if (out.tag == "iv") {
        if (i + 4 >= t.size())
            return false;
        Q a, b;
        if (!parseq(t[i], a) || !parseq(t[i + 1], b))
            return false;
        if ((t[i + 2] != "c" && t[i + 2] != "o") || (t[i + 3] != "c" && t[i + 3] != "o"))
            return false;
        out.nums = {a, b};
        out.lo = t[i + 2] == "o";
        out.ro = t[i + 3] == "o";
        i += 4;
    } else if (out.tag == "fs") {
        while (i < t.size() && t[i] != ")") {
            Q a;
            if (!parseq(t[i], a))
                return false;
            out.nums.push_back(a);
            i++;
        }
    } else {
        while (i < t.size() && t[i] != ")") {
            Node k;
            if (!parse_expr(t, i, k))
                return false;
            out.kids.push_back(k);
        }
        size_t n = out.kids.size();
        const std::string &g = out.tag;
        if (g == "un" || g == "in") {
        } else if (g == "co" || g == "mu" || g == "mi" || g == "mc") {
            if (n != 2)
                return false;
        } else if (g == "bd" || g == "ir" || g == "cl") {
            if (n != 1)
                return false;
        } else
            return false;
    }
    if (i >= t.size() || t[i] != ")")
        return false;
    i++;
    return true;
}
static std::vector<std::string> tokenize(const std::string &s)
{
    std::vector<std::string> t;
    std::string cur;
    for (char c : s) {
        if (c == '(' || c == ')' || c == ' ') {
            if (!cur.empty())
                t.push_back(cur);
            cur.clear();
            if (c != ' ')
                t.push_back(std::string(1, c));
        } else
            cur.push_back(c);
    }
    if (!cur.empty())
        t.push_back(cur);
    return t;
}
static std::string node_str(const Node &n)
{
    if (n.tag == "iv")
        return "(iv " + qstr(n.nums[0]) + " " + qstr(n.nums[1]) + (n.lo ? " o" : " c") + (n.ro ? " o)" : " c)");
    if (n.tag == "fs") {
        std::string s = "(fs";
        for (auto &q : n.nums)
            s += " " + qstr(q);
        return s + ")";
    }
    if (n.kids.empty())
        return n.tag;
    std::string s = "(" + n.tag;
    for (auto &k : n.kids)
        s += " " + node_str(k);
    return s + ")";
}
static void collect_points(const Node &n, std::set<Q> &pts, bool &has_rats, bool &has_topo)
{
    for (auto &q : n.nums)
        if (!q.inf)
            pts.insert(q);
    if (n.tag == "rats")
        has_rats = true;
    if (n.tag == "bd" || n.tag == "ir" || n.tag == "cl")
        has_topo = true;
    for (auto &k : n.kids)
        collect_points(k, pts, has_rats, has_topo);
}

// ------------------------------------------------------------------ sample grid
// grid[0], grid[2], ... are "P points" (break points and integers), odd indices are midpoints.
struct Grid {
    std::vector<Q> pt;
    bool isP(size_t i) const
    {
        return i % 2 == 0;
    }
};
static ll floorq(const Q &q)
{
    ll f = q.n / q.d;
    if (q.n % q.d != 0 && q.n < 0)
        f--;
    return f;
}
static Grid make_grid(const std::set<Q> &bp)
{
    std::set<Q> P(bp);
    ll lo = 0, hi = 0;
    if (!bp.empty()) {
        lo = floorq(*bp.begin());
        hi = floorq(*bp.rbegin()) + 1;
    }
    for (ll k = lo - 2; k <= hi + 2; k++)
        P.insert(Q(k, 1));
    Grid g;
    const Q *prev = nullptr;
    for (auto &p : P) {
        if (prev)
            g.pt.push_back(midq(*prev, p));
        g.pt.push_back(p);
        prev = &p;
    }
    return g;
}
typedef std::vector<char> Bits;

// ------------------------------------------------------------------ canonical dump + structural semantics
static std::string dump(const Basic &s);
static std::string dump_num(const Basic &b)
{
    Q q;
    if (numq(b, q))
        return qstr(q);
    return "?" + b.__str__();
}
static std::string dump(const Basic &s)
{
    if (is_a<EmptySet>(s))
        return "empty";
    if (is_a<UniversalSet>(s))
        return "univ";
    if (is_a<Complexes>(s))
        return "complexes";
    if (is_a<Reals>(s))
        return "reals";
    if (is_a<Rationals>(s))
        return "rats";
    if (is_a<Integers>(s))
        return "ints";
    if (is_a<Naturals>(s))
        return "nats";
    if (is_a<Naturals0>(s))
        return "nats0";
    if (is_a<Interval>(s)) {
        const Interval &i = down_cast<const Interval &>(s);
        return "(iv " + dump_num(*i.get_start()) + " " + dump_num(*i.get_end()) + (i.get_left_open() ? " o" : " c")
               + (i.get_right_open() ? " o)" : " c)");
    }
    if (is_a<FiniteSet>(s)) {
        std::vector<Q> qs;
        std::vector<std::string> other;
        for (auto &e : down_cast<const FiniteSet &>(s).get_container()) {
            Q q;
            if (numq(*e, q))
                qs.push_back(q);
            else
                other.push_back("?" + e->__str__());
        }
        std::sort(qs.begin(), qs.end());
        std::sort(other.begin(), other.end());
        std::string o = "(fs";
        for (auto &q : qs)
            o += " " + qstr(q);
        for (auto &x : other)
            o += " " + x;
        return o + ")";
    }
    if (is_a<Union>(s) || is_a<Intersection>(s)) {
        std::vector<std::string> parts;
        const set_set &c = is_a<Union>(s) ? down_cast<const Union &>(s).get_container()
                                          : down_cast<const Intersection &>(s).get_container();
        for (auto &e : c)
            parts.push_back(dump(*e));
        std::sort(parts.begin(), parts.end());
        return std::string(is_a<Union>(s) ? "(un " : "(in ") + join(parts, " ") + ")";
    }
    if (is_a<Complement>(s)) {
        const Complement &c = down_cast<const Complement &>(s);
        return "(co " + dump(*c.get_universe()) + " " + dump(*c.get_container()) + ")";
    }
    return "?" + s.__str__();
}
// membership of grid points decoded from the *structure* of a result (not via contains())
static bool sem_struct(const Basic &s, const Grid &g, Bits &out)
{
    size_t n = g.pt.size();
    out.assign(n, 0);
    if (is_a<EmptySet>(s))
        return true;
    if (is_a<UniversalSet>(s) || is_a<Reals>(s) || is_a<Rationals>(s) || is_a<Complexes>(s)) {
        out.assign(n, 1);
        return true;
    }
    if (is_a<Integers>(s) || is_a<Naturals>(s) || is_a<Naturals0>(s)) {
        for (size_t i = 0; i < n; i++)
            out[i] = g.pt[i].isint()
                     && (is_a<Integers>(s) || (is_a<Naturals>(s) ? g.pt[i].n > 0 : g.pt[i].n >= 0));
        return true;
    }
    if (is_a<Interval>(s)) {
        const Interval &iv = down_cast<const Interval &>(s);
        Q a, b;
        if (!numq(*iv.get_start(), a) || !numq(*iv.get_end(), b))
            return false;
        for (size_t i = 0; i < n; i++) {
            int ca = cmpq(a, g.pt[i]), cb = cmpq(g.pt[i], b);
            out[i] = (ca < 0 || (ca == 0 && !iv.get_left_open())) && (cb < 0 || (cb == 0 && !iv.get_right_open()));
        }
        return true;
    }
    if (is_a<FiniteSet>(s)) {
        for (auto &e : down_cast<const FiniteSet &>(s).get_container()) {
            Q q;
            if (!numq(*e, q))
                return false;
            for (size_t i = 0; i < n; i++)
                if (g.pt[i] == q)
                    out[i] = 1;
        }
        return true;
    }
    if (is_a<Union>(s)) {
        for (auto &e : down_cast<const Union &>(s).get_container()) {
            Bits b;
            if (!sem_struct(*e, g, b))
                return false;
            for (size_t i = 0; i < n; i++)
                out[i] = out[i] | b[i];
        }
        return true;
    }
    if (is_a<Intersection>(s)) {
        out.assign(n, 1);
        for (auto &e : down_cast<const Intersection &>(s).get_container()) {
            Bits b;
            if (!sem_struct(*e, g, b))
                return false;
            for (size_t i = 0; i < n; i++)
                out[i] = out[i] & b[i];
        }
        return true;
    }
    if (is_a<Complement>(s)) {
        const Complement &c = down_cast<const Complement &>(s);
        Bits u, a;
        if (!sem_struct(*c.get_universe(), g, u) || !sem_struct(*c.get_container(), g, a))
            return false;
        for (size_t i = 0; i < n; i++)
            out[i] = u[i] & !a[i];
        return true;
    }
    return false;
}

// ------------------------------------------------------------------ evaluation with per-node oracle
struct Ctx {
    Grid grid;
    std::string *oracle;
    bool topo_ok; // the grid argument is valid for topological operators (no `rats` involved)
    long nodes;
};
static void fail(Ctx &c, const std::string &key, const std::string &detail)
{
    if (*c.oracle == "ok")
        *c.oracle = "FAIL:" + key + ":" + detail;
}
static std::string bits_diff(const Ctx &c, const Bits &got, const Bits &want)
{
    for (size_t i = 0; i < got.size(); i++)
        if (got[i] != want[i])
            return "point " + qstr(c.grid.pt[i]) + " in-result=" + std::to_string((int)got[i])
                   + " expected=" + std::to_string((int)want[i]);
    return "";
}
static void check_contains(Ctx &c, const RCP<const Set> &r, const Bits &structural, const std::string &what)
{
    for (size_t i = 0; i < c.grid.pt.size(); i++) {
        RCP<const Boolean> b;
        try {
            b = r->contains(qnum(c.grid.pt[i]));
        } catch (const VerifAssertError &) {
            throw;
        } catch (const std::exception &) {
            stat("contains_threw");
            continue; // no definite answer
        }
        stat("contains_calls");
        bool t = eq(*b, *boolTrue), f = eq(*b, *boolFalse);
        if (!t && !f) {
            stat("contains_unevaluated");
            continue;
        }
        if ((t ? 1 : 0) != structural[i]) {
            fail(c, "contains", "contains(" + qstr(c.grid.pt[i]) + ") on " + dump(*r) + " answered "
                                    + (t ? "True" : "False") + " but the set's structure says "
                                    + (structural[i] ? "member" : "non-member") + " [" + what + "]");
            return;
        }
    }
}
static RCP<const Set> eval(const Node &n, Ctx &c, Bits &ref)
{
    size_t N = c.grid.pt.size();
    RCP<const Set> r;
    const std::string &g = n.tag;
    c.nodes++;
    stat("node_" + g);
    if (g == "iv") {
        r = interval(qnum(n.nums[0]), qnum(n.nums[1]), n.lo, n.ro);
        ref.assign(N, 0);
        for (size_t i = 0; i < N; i++) {
            int ca = cmpq(n.nums[0], c.grid.pt[i]), cb = cmpq(c.grid.pt[i], n.nums[1]);
            ref[i] = (ca < 0 || (ca == 0 && !n.lo)) && (cb < 0 || (cb == 0 && !n.ro));
        }
    } else if (g == "fs") {
        set_basic sb;
        for (auto &q : n.nums)
            sb.insert(qnum(q));
        r = finiteset(sb);
        ref.assign(N, 0);
        for (size_t i = 0; i < N; i++)
            for (auto &q : n.nums)
                if (q == c.grid.pt[i])
                    ref[i] = 1;
    } else if (n.kids.empty()) {
        if (g == "empty")
            r = emptyset();
        else if (g == "univ")
            r = universalset();
        else if (g == "reals")
            r = reals();
        else if (g == "rats")
            r = rationals();
        else if (g == "ints")
            r = integers();
        else if (g == "nats")
            r = naturals();
        else if (g == "nats0")
            r = naturals0();
        else if (g == "un")
            r = set_union(set_set());
        else if (g == "in")
            r = set_intersection(set_set());
        else
            throw std::runtime_error("bad atom");
        ref.assign(N, 0);
        for (size_t i = 0; i < N; i++) {
            const Q &q = c.grid.pt[i];
            if (g == "univ" || g == "reals" || g == "rats" || g == "in")
                ref[i] = 1;
            else if (g == "ints")
                ref[i] = q.isint();
            else if (g == "nats")
                ref[i] = q.isint() && q.n > 0;
            else if (g == "nats0")
                ref[i] = q.isint() && q.n >= 0;
        }
    } else {
        std::vector<RCP<const Set>> ks;
        std::vector<Bits> kb(n.kids.size());
        for (size_t k = 0; k < n.kids.size(); k++)
            ks.push_back(eval(n.kids[k], c, kb[k]));
        ref.assign(N, 0);
        if (g == "un" || g == "mu") {
            for (auto &b : kb)
                for (size_t i = 0; i < N; i++)
                    ref[i] |= b[i];
            if (g == "un") {
                set_set ss(ks.begin(), ks.end());
                r = set_union(ss);
            } else
                r = ks[0]->set_union(ks[1]);
        } else if (g == "in" || g == "mi") {
            ref.assign(N, 1);
            for (auto &b : kb)
                for (size_t i = 0; i < N; i++)
                    ref[i] &= b[i];
            if (g == "in") {
                set_set ss(ks.begin(), ks.end());
                r = set_intersection(ss);
            } else
                r = ks[0]->set_intersection(ks[1]);
        } else if (g == "co") {
            for (size_t i = 0; i < N; i++)
                ref[i] = kb[0][i] & !kb[1][i];
            r = set_complement(ks[0], ks[1]);
        } else if (g == "mc") {
            for (size_t i = 0; i < N; i++)
                ref[i] = kb[1][i] & !kb[0][i];
            r = ks[0]->set_complement(ks[1]);
        } else { // bd ir cl
            const Bits &a = kb[0];
            Bits inter(N), clos(N);
            for (size_t i = 0; i < N; i++) {
                bool l = i > 0 ? a[i - 1] : a[i], rr = i + 1 < N ? a[i + 1] : a[i];
                if (c.grid.isP(i)) {
                    inter[i] = a[i] && l && rr;
                    clos[i] = a[i] || l || rr;
                } else {
                    inter[i] = clos[i] = a[i];
                }
            }
            for (size_t i = 0; i < N; i++)
                ref[i] = g == "ir" ? inter[i] : (g == "cl" ? clos[i] : (clos[i] && !inter[i]));
            if (g == "bd")
                r = boundary(*ks[0]);
            else if (g == "ir")
                r = interior(*ks[0]);
            else
                r = closure(*ks[0]);
            if (r.is_null())
                throw std::runtime_error("null result");
        }
    }
    // (a) structure of the result against the reference
    Bits st;
    if (!sem_struct(*r, c.grid, st)) {
        fail(c, "shape", "result outside the modelled fragment: " + r->__str__() + " for " + node_str(n));
        return r;
    }
    bool topo = g == "bd" || g == "ir" || g == "cl";
    if (!topo || c.topo_ok) {
        std::string d = bits_diff(c, st, ref);
        if (!d.empty())
            fail(c, "op-" + g, d + " node=" + node_str(n) + " result=" + dump(*r));
    } else {
        ref = st; // no independent reference (rationals involved): carry on with what the library says
    }
    // (b) contains() against the structure
    check_contains(c, r, st, node_str(n));
    return r;
}

// reference sup / inf from a membership vector over the grid
static std::string ref_sup(const Ctx &c, const Bits &b, bool sup)
{
    size_t N = b.size();
    bool any = false;
    for (auto x : b)
        any = any || x;
    if (!any)
        return "none";
    if (sup) {
        if (b[N - 1] || b[N - 2])
            return "oo";
        for (size_t i = N; i-- > 0;)
            if (b[i])
                return qstr(c.grid.isP(i) ? c.grid.pt[i] : c.grid.pt[i + 1]);
    } else {
        if (b[0] || b[1])
            return "-oo";
        for (size_t i = 0; i < N; i++)
            if (b[i])
                return qstr(c.grid.isP(i) ? c.grid.pt[i] : c.grid.pt[i - 1]);
    }
    return "none";
}

// per-op watchdog: an op that does not return within 20 s kills the process (SIGALRM); the runner then
// records CRASH:rc=-14 for exactly this op and carries on with the next one
struct Watchdog {
    Watchdog()
    {
        alarm(20);
    }
    ~Watchdog()
    {
        alarm(0);
    }
};

std::string hx_run(const std::string &line, std::string &oracle)
{
    Watchdog wd;
    size_t sp = line.find(' ');
    if (sp == std::string::npos)
        return "bad-op";
    std::string verb = line.substr(0, sp);
    auto toks = tokenize(line.substr(sp + 1));
    size_t i = 0;
    Node root;
    if (!parse_expr(toks, i, root))
        return "bad-op";
    Q point;
    bool has_point = false;
    if (i < toks.size()) {
        if (!parseq(toks[i], point) || i + 1 != toks.size())
            return "bad-op";
        has_point = true;
    }
    if ((verb == "contains") != has_point)
        return "bad-op";
    std::set<Q> bp;
    bool has_rats = false, has_topo = false;
    collect_points(root, bp, has_rats, has_topo);
    if (has_point && !point.inf)
        bp.insert(point);
    bp.insert(Q(0, 1)); // the number sets change at 0 and 1
    bp.insert(Q(1, 1));
    Ctx c;
    c.grid = make_grid(bp);
    c.oracle = &oracle;
    c.topo_ok = !has_rats;
    c.nodes = 0;
    Bits ref;
    RCP<const Set> r;
    try {
        r = eval(root, c, ref);
    } catch (const std::bad_alloc &) {
        oracle = "FAIL:resource:the operation allocates without bound (endless loop) in " + node_str(root);
        throw;
    }
    stat("grid_points", (long)c.grid.pt.size());
    if (verb == "eval")
        return dump(*r);
    if (verb == "contains") {
        RCP<const Boolean> b = r->contains(qnum(point));
        if (eq(*b, *boolTrue))
            return "T";
        if (eq(*b, *boolFalse))
            return "F";
        return "U";
    }
    if (verb == "sup" || verb == "inf") {
        RCP<const Basic> v = verb == "sup" ? sup(*r) : inf(*r);
        if (v.is_null())
            return "null";
        std::string got = dump_num(*v);
        if (oracle == "ok" && c.topo_ok) {
            std::string want = ref_sup(c, ref, verb == "sup");
            if (want != "none" && want != got)
                fail(c, verb, verb + " of " + dump(*r) + " returned " + got + " expected " + want);
        }
        return got;
    }
    return "bad-op";
}

// ------------------------------------------------------------------ generator
// The generated expressions stay inside the fragment on which the (repaired) library terminates and the Lean
// model mirrors it exactly:
//   * families "ivfs*": arbitrary trees (depth <= 3) of un/in/co/mu/mi/mc (and bd/ir/cl) over intervals with
//     rational or infinite end points, finite sets of rationals and the empty set;
//   * families "num*": the number sets and the universal set join
//       - at any depth below un / mu only (unions never create Complement / Intersection objects),
//       - as direct operands of one single co / mc / in / mi / mu node at the root (this is where Complement and
//         Intersection objects are created; they are inspected through the dump, contains(), sup, inf),
//       - as the operand of bd / ir / cl.
// Complement / Intersection objects are never fed back into set_union / set_complement: those methods are known
// to be wrong (docs/C27.md, findings N7-N9) or not to return at all; fixed reproducers live in corpus/C27.
static std::string gen_q(Rng &r)
{
    unsigned k = r.below(100);
    if (k < 60)
        return std::to_string(r.range(-3, 8));
    if (k < 80)
        return qstr(Q(r.range(-7, 17), 2));
    if (k < 92)
        return qstr(Q(r.range(-10, 25), 3));
    return qstr(Q(r.range(-13, 33), 4));
}
static std::string gen_iv(Rng &r, bool allow_inf)
{
    Q a, b;
    for (;;) {
        parseq(gen_q(r), a);
        parseq(gen_q(r), b);
        if (a < b)
            break;
    }
    if (allow_inf && r.coin(1, 10))
        a = Q::infty(-1);
    if (allow_inf && r.coin(1, 10))
        b = Q::infty(1);
    bool lo = r.coin(), ro = r.coin();
    if (a.inf && r.coin(3, 4))
        lo = true;
    if (b.inf && r.coin(3, 4))
        ro = true;
    return "(iv " + qstr(a) + " " + qstr(b) + (lo ? " o" : " c") + (ro ? " o)" : " c)");
}
static std::string gen_fs(Rng &r)
{
    int n = 1 + (int)r.below(r.coin(1, 4) ? 7 : 3);
    std::string s = "(fs";
    for (int i = 0; i < n; i++)
        s += " " + gen_q(r);
    return s + ")";
}
static std::string gen_numset(Rng &r)
{
    static const char *ns[] = {"univ", "reals", "ints", "nats", "nats0", "rats"};
    return ns[r.below(6)];
}
// iv / fs / empty
static std::string gen_atom(Rng &r, bool inf_ends)
{
    unsigned k = r.below(100);
    if (k < 55)
        return gen_iv(r, inf_ends);
    if (k < 93)
        return gen_fs(r);
    return "empty";
}
// trees without number sets
static std::string gen_ivfs(Rng &r, int depth, int max_depth, bool inf_ends, bool topo)
{
    if (depth >= max_depth || (depth > 0 && r.coin(1, 4)))
        return gen_atom(r, inf_ends);
    auto sub = [&]() { return gen_ivfs(r, depth + 1, max_depth, inf_ends, topo); };
    unsigned k = r.below(100);
    if (k < 20) {
        int n = 2 + (int)r.below(3);
        std::string s = "(un";
        for (int i = 0; i < n; i++)
            s += " " + sub();
        return s + ")";
    }
    if (k < 32) {
        int n = 2 + (int)r.below(2);
        std::string s = "(in";
        for (int i = 0; i < n; i++)
            s += " " + sub();
        return s + ")";
    }
    if (k < 47)
        return "(co " + sub() + " " + sub() + ")";
    if (k < 62)
        return "(mu " + sub() + " " + sub() + ")";
    if (k < 74)
        return "(mi " + sub() + " " + sub() + ")";
    if (k < 89 || !topo)
        return "(mc " + sub() + " " + sub() + ")";
    static const char *m[] = {"bd", "ir", "cl"};
    return std::string("(") + m[r.below(3)] + " " + sub() + ")";
}
// unions that may contain number sets at any depth
static std::string gen_numunion(Rng &r, int depth, int max_depth)
{
    if (depth >= max_depth || (depth > 0 && r.coin(1, 3)))
        return r.coin(2, 5) ? gen_numset(r) : gen_atom(r, true);
    auto sub = [&]() { return gen_numunion(r, depth + 1, max_depth); };
    if (r.coin()) {
        int n = 2 + (int)r.below(3);
        std::string s = "(un";
        for (int i = 0; i < n; i++)
            s += " " + sub();
        return s + ")";
    }
    return "(mu " + sub() + " " + sub() + ")";
}
static std::string with_verb(Rng &r, const std::string &e, std::string &tag)
{
    unsigned k = r.below(100);
    if (k < 64) {
        tag = "eval-" + tag;
        return "eval " + e;
    }
    if (k < 82) {
        tag = "contains-" + tag;
        return "contains " + e + " " + gen_q(r);
    }
    tag = "supinf-" + tag;
    return std::string(r.coin() ? "sup " : "inf ") + e;
}

// n-ary free-function calls set_intersection({...}) / set_union({...}) with 3..5 operands, most of them small
// finite sets over one shared pool of values (so that elements are in some operands and not in others: the
// element loop of the free set_intersection must AND over *all* finite sets and all other sets), occasionally
// one interval or Integers / Reals among them
static std::string gen_nary(Rng &r, std::string &tag)
{
    std::vector<std::string> pool;
    int np = 4 + (int)r.below(4);
    for (int i = 0; i < np; i++)
        pool.push_back(r.coin(1, 5) ? qstr(Q(r.range(-5, 13), 2)) : std::to_string(r.range(-2, 7)));
    bool inter = r.coin(7, 10);
    int nk = 3 + (int)r.below(3);
    int extra = r.coin(1, 3) ? (int)r.below(nk) : -1; // position of a non-finite operand
    std::string e = inter ? "(in" : "(un";
    for (int j = 0; j < nk; j++) {
        if (j == extra) {
            unsigned k = r.below(3);
            e += k == 0 ? " ints" : (k == 1 ? " reals" : " " + gen_iv(r, false));
            continue;
        }
        std::string f = "(fs";
        int cnt = 0;
        for (auto &v : pool)
            if (r.coin(3, 5)) {
                f += " " + v;
                cnt++;
            }
        if (!cnt)
            f += " " + r.pick(pool);
        e += " " + f + ")";
    }
    tag = std::string(inter ? "nary-in" : "nary-un") + std::to_string(nk) + (extra >= 0 ? "x" : "");
    return e + ")";
}

void hx_gen(Rng &r, const std::string &tier)
{
    bool th = tier == "thorough";
    r.s = r.next(); // the streams of consecutive seeds of common.h's Rng are shifts of each other: decorrelate
    // the confirmed defects D13 / D14 and their neighbours, always
    emit("eval (mc (iv 0 2 c c) (iv 5 7 c c))", "fixed-D13");
    emit("eval (co (iv 5 7 c c) (iv 0 2 c c))", "fixed-D13");
    emit("eval (mc (fs 1 2 3 10 1/2 -5) (iv 0 2 c c))", "fixed-D14");
    emit("eval (ir (iv -1 4 c c))", "fixed-D14");
    emit("eval (mc nats0 ints)", "fixed-N5");
    emit("contains (mi (iv 0 7 o o) rats) -2", "fixed-N6");
    emit("eval (in ints (iv 6 oo c o))", "fixed-N2");
    emit("eval (bd (un (iv 0 1 c o) (iv 1 2 c c)))", "fixed-N3");
    emit("eval (mu (un (fs -3 6) (iv 4 5 c c)) (fs 1))", "fixed-N10");
    emit("eval (un (mu nats0 (iv 3 oo c o)) nats reals)", "fixed-N11");
    // n-ary intersections: an element of the first and the last finite set that a middle one lacks
    emit("eval (in (fs 1 2) (fs 2) (fs 1 2 3))", "fixed-nary");
    emit("eval (in (fs 1 2 3) (fs 2 3) (fs 1 3 4) (fs 1 2 3 5))", "fixed-nary");
    emit("eval (in (fs 0 1/2 4) (fs 0 4) (fs 1/2 4 5) (iv 0 5 c c))", "fixed-nary");
    emit("eval (un (fs 1 2) (fs 2 7) (iv 0 1 c o) (fs 1/2 9))", "fixed-nary");
    for (int i = 0, m = th ? 2500 : 500; i < m; i++) {
        std::string tag;
        std::string e = gen_nary(r, tag);
        if (r.coin(4, 5))
            emit("eval " + e, "eval-" + tag);
        else
            emit("contains " + e + " " + gen_q(r), "contains-" + tag);
    }
    int n = th ? 9000 : 1500;
    for (int i = 0; i < n; i++) {
        unsigned k = r.below(100);
        std::string e, tag;
        if (k < 45) { // interval / finite set trees
            int md = 1 + (int)r.below(3);
            bool inf = r.coin(1, 3);
            e = gen_ivfs(r, 0, md, inf, false);
            tag = std::string("ivfs") + (inf ? "-inf" : "") + "-d" + std::to_string(md);
        } else if (k < 57) { // with topological operators
            // finite end points only: boundary([a, oo)) is the FiniteSet {a, oo} (extended reals)
            e = gen_ivfs(r, 0, 1 + (int)r.below(3), false, true);
            if (r.coin()) {
                static const char *m[] = {"bd", "ir", "cl"};
                e = std::string("(") + m[r.below(3)] + " " + e + ")";
            }
            tag = "ivfs-topo";
        } else if (k < 72) { // unions with number sets
            e = gen_numunion(r, 0, 1 + (int)r.below(3));
            tag = "num-union";
        } else if (k < 94) { // one operation on atoms including number sets
            static const char *ops[] = {"co", "mc", "in", "mi", "mu", "un"};
            std::string o = ops[r.below(6)];
            auto at = [&]() { return r.coin(1, 2) ? gen_numset(r) : gen_atom(r, true); };
            int nk = (o == "in" || o == "un") ? 2 + (int)r.below(2) : 2;
            e = "(" + o;
            for (int j = 0; j < nk; j++)
                e += " " + at();
            e += ")";
            tag = "num-d1";
        } else { // topological operators on a number set
            static const char *m[] = {"bd", "ir", "cl"};
            e = std::string("(") + m[r.below(3)] + " " + gen_numset(r) + ")";
            tag = "num-topo";
        }
        std::string line = with_verb(r, e, tag);
        emit(line, tag);
    }
}
