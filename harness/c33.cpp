// C33: the prime sieve yields exactly the primes after any call history.
// Op line:  hist <op>;<op>;...   (see lean/Drv/C33.lean for the op syntax)
#include "common.h"
#include <symengine/prime_sieve.h>
#include <memory>

using SymEngine::Sieve;

// independent reference: plain sieve of Eratosthenes, grown on demand
static std::vector<char> g_comp(2, 1);
static void ref_grow(unsigned n)
{
    if (g_comp.size() > n)
        return;
    size_t N = std::max<size_t>(n + 1, g_comp.size() * 2);
    g_comp.assign(N, 0);
    g_comp[0] = g_comp[1] = 1;
    for (size_t i = 2; i * i < N; i++)
        if (!g_comp[i])
            for (size_t j = i * i; j < N; j += i)
                g_comp[j] = 1;
}
static bool ref_prime(unsigned n)
{
    ref_grow(n);
    return !g_comp[n];
}

static std::string listStr(const std::vector<unsigned> &v)
{
    std::string o;
    if (v.size() > 30) { // digest: count, sum, polynomial hash mod 1e9+7
        unsigned long long sum = 0, h = 0;
        for (unsigned x : v) {
            sum += x;
            h = (h * 31 + x) % 1000000007ULL;
        }
        return "#" + std::to_string(v.size()) + ":" + std::to_string(sum) + ":" + std::to_string(h);
    }
    for (size_t i = 0; i < v.size(); i++) {
        if (i)
            o += ",";
        o += std::to_string(v[i]);
    }
    return o;
}

std::string hx_run(const std::string &line, std::string &oracle)
{
    auto w = split(line, ' ');
    if (w.size() != 2 || w[0] != "hist")
        return "bad-op";
    // fresh-process-equivalent state
    Sieve::set_clear(true);
    Sieve::set_sieve_size(32);
    Sieve::clear();
    std::map<unsigned, std::unique_ptr<Sieve::iterator>> iters;
    struct ItInfo {
        unsigned limit, last; // last prime the iterator is known to have advanced over
        bool amb;             // limit+1 is prime and was returned: advanced (cached) or end marker?
    };
    std::map<unsigned, ItInfo> itinfo;
    std::vector<std::string> outs;
    for (auto &t : split(w[1], ';')) {
        std::vector<unsigned> out;
        if (t == "c") {
            Sieve::clear();
        } else if (t.compare(0, 2, "sc") == 0) {
            Sieve::set_clear(std::stoul(t.substr(2)) != 0);
        } else if (t.compare(0, 2, "ss") == 0) {
            Sieve::set_sieve_size(std::stoul(t.substr(2)));
        } else if (t.compare(0, 2, "in") == 0) {
            auto p = split(t.substr(2), ',');
            unsigned slot = std::stoul(p[0]), lim = std::stoul(p[1]);
            iters.erase(slot);
            iters[slot].reset(lim ? new Sieve::iterator(lim) : new Sieve::iterator());
            itinfo[slot] = ItInfo{lim, 0, false};
        } else if (t.compare(0, 2, "ix") == 0) {
            auto p = split(t.substr(2), ',');
            unsigned slot = std::stoul(p[0]), cnt = std::stoul(p[1]);
            if (iters.count(slot)) {
                for (unsigned k = 0; k < cnt; k++) {
                    unsigned v = iters[slot]->next_prime();
                    out.push_back(v);
                    // oracle (the contract every caller `while ((p = next_prime()) <= limit)` relies on,
                    // and what SymVerif.C33.IterRun states): the value is the next prime after the last
                    // one returned (the iterator advances; a cached prime may exceed the limit), or the
                    // end marker limit+1, allowed only when that next prime exceeds the non-zero limit.
                    auto &inf = itinfo[slot];
                    auto next_after = [](unsigned q) {
                        unsigned e = q + 1;
                        while (!ref_prime(e))
                            e++;
                        return e;
                    };
                    unsigned expect = next_after(inf.last);
                    if (inf.amb && v != expect) { // it did advance over limit+1 earlier
                        inf.last = expect;
                        inf.amb = false;
                        expect = next_after(inf.last);
                    }
                    bool advance = v == expect;
                    bool stop = inf.limit && expect > inf.limit && v == inf.limit + 1;
                    if (!advance && !stop && oracle == "ok")
                        oracle = "FAIL:iter:next_prime returned " + std::to_string(v) + " expected "
                                 + std::to_string(expect)
                                 + (inf.limit && expect > inf.limit ? " or " + std::to_string(inf.limit + 1) : "")
                                 + " at op " + t;
                    if (advance && stop) { // limit+1 is itself the next prime: cached => advanced, else end marker
                        inf.amb = true;
                        stat("iter_ambiguous_end");
                    } else if (advance)
                        inf.last = v;
                    if (stop)
                        stat("iter_end_markers");
                    else if (inf.limit && v > inf.limit)
                        stat("iter_cached_beyond_limit");
                }
                stat("iter_calls", cnt);
            }
        } else if (t.compare(0, 2, "id") == 0) {
            unsigned slot = std::stoul(t.substr(2));
            iters.erase(slot);
            itinfo.erase(slot);
        } else if (t[0] == 'g') {
            unsigned lim = std::stoul(t.substr(1));
            Sieve::generate_primes(out, lim);
            std::vector<unsigned> ref;
            for (unsigned n = 2; n <= lim; n++)
                if (ref_prime(n))
                    ref.push_back(n);
            if (out != ref && oracle == "ok") {
                size_t i = 0;
                while (i < out.size() && i < ref.size() && out[i] == ref[i])
                    i++;
                oracle = "FAIL:gen:generate_primes(" + std::to_string(lim) + ") differs from the primes at position "
                         + std::to_string(i) + " got " + (i < out.size() ? std::to_string(out[i]) : "end")
                         + " expected " + (i < ref.size() ? std::to_string(ref[i]) : "end");
            }
            stat("gen_calls");
            stat("primes_checked", (long)out.size());
        } else
            return "bad-op";
        outs.push_back(listStr(out));
    }
    iters.clear();
    return join(outs, "|");
}

static std::string rand_hist(Rng &r, int len, unsigned maxlim, bool small_seg)
{
    std::vector<std::string> ops;
    unsigned seg_bits = 32 * 8192;
    std::vector<unsigned> live;
    for (int i = 0; i < len; i++) {
        unsigned k = r.below(100);
        if (k < 35) {
            // limits straddling segment boundaries: multiples of 2*segment bits +- small
            unsigned lim;
            if (r.coin(1, 2)) {
                unsigned m = 1 + r.below(std::max(1u, maxlim / (2 * seg_bits)));
                long base = 31 + (long)m * 2 * seg_bits + r.range(-4, 4);
                // the cached prefix moves `start`; sample around several candidates
                lim = (unsigned)std::max<long>(2, std::min<long>(base, maxlim));
            } else
                lim = (unsigned)r.below(maxlim + 1);
            ops.push_back("g" + std::to_string(lim));
        } else if (k < 45)
            ops.push_back("c");
        else if (k < 55)
            ops.push_back("sc" + std::to_string(r.below(2)));
        else if (k < 65) {
            unsigned kib = small_seg ? 1 + r.below(3) : (r.coin() ? 32 : 1 + r.below(8));
            seg_bits = kib * 8192;
            ops.push_back("ss" + std::to_string(kib));
        } else if (k < 75) {
            unsigned slot = r.below(3);
            unsigned lim = r.coin() ? 0 : (unsigned)r.below(maxlim / 4 + 50);
            ops.push_back("in" + std::to_string(slot) + "," + std::to_string(lim));
            live.push_back(slot);
        } else if (k < 93) {
            unsigned slot = live.empty() ? 0 : r.pick(live);
            ops.push_back("ix" + std::to_string(slot) + "," + std::to_string(1 + r.below(r.coin(1, 4) ? 400 : 30)));
        } else {
            unsigned slot = r.below(3);
            ops.push_back("id" + std::to_string(slot));
        }
    }
    return "hist " + join(ops, ";");
}

void hx_gen(Rng &r, const std::string &tier)
{
    bool th = tier == "thorough";
    // the boundary family: one generate_primes with a small sieve, every limit near k*2*segment
    for (unsigned kib : {1u, 2u}) {
        unsigned seg = kib * 8192;
        for (unsigned m = 1; m <= (th ? 12u : 4u); m++)
            for (int d = -3; d <= 3; d++)
                emit("hist ss" + std::to_string(kib) + ";g" + std::to_string(30 + m * 2 * seg + d), "boundary");
    }
    // the same boundaries from a warm cache: `start` is (largest prime <= L0) + 1, not 30
    for (unsigned L0 : {100u, 5000u}) {
        unsigned p = L0;
        while (!ref_prime(p))
            p--;
        for (unsigned m = 1; m <= (th ? 6u : 2u); m++)
            for (int d = -3; d <= 3; d++)
                emit("hist sc0;ss1;g" + std::to_string(L0) + ";g" + std::to_string(p + m * 2 * 8192 + d),
                     "boundary-warm");
    }
    emit("hist g1;g2;g3;g29;g30;g31;g0", "tiny");
    emit("hist sc0;g1000;g10;g2000;c;g5", "noclear");
    emit("hist in0,0;ix0,12;g100;ix0,5;c;ix0,5", "stale-iter");
    emit("hist in0,50;ix0,20", "iter-limit");
    // a limited iterator over a cache that already extends beyond its limit (returns cached primes > limit)
    emit("hist sc0;g1000;in0,50;ix0,20;in1,30;ix1,14;in2,996;ix2,170", "iter-limit-cached");
    // the end marker limit+1 is itself prime (30+1, 996+1): cold and warm
    emit("hist in0,30;ix0,13;sc0;g100;ix0,3;in1,30;ix1,13", "iter-limit-cached");
    // iterators interleaved with clears by generate_primes (stale reads of _primes[_index-1])
    emit("hist in0,0;in1,0;ix0,300;g7;ix1,40;ix0,40;c;ix1,400;ix0,1;id0;ix1,3", "stale-iter");
    emit("hist ss1;in0,0;ix0,2000;g3;ix0,2000;g3;ix0,100", "stale-iter");
    // constructing into an occupied slot destroys (=> clears under) the old iterator
    emit("hist in0,0;ix0,100;in1,50;ix1,16;in0,0;ix1,3;sc0;in0,0;ix0,50;in0,7;ix1,3;ix0,6", "iter-recreate");
    int n = th ? 600 : 120;
    for (int i = 0; i < n; i++) {
        int len = 2 + (int)r.below(th ? 40 : 12);
        bool small = r.coin(2, 3);
        unsigned maxlim = small ? 120000 : (th ? 3000000 : 700000);
        emit(rand_hist(r, len, maxlim, small), small ? "hist-smallseg" : "hist-defaultseg");
    }
}
