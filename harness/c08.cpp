// C08: function constructors' automatic evaluation preserves value.
//
// Op lines (operands are canonical dumps of real objects, see sexp.h):
//   trig <Fn> <arg> | <key> <key> ...    Fn in Sin Cos Tan Cot Csc Sec; after `|`: the Add-dictionary keys occurring
//                                         in <arg> plus pi, in the order of the library's map_basic_num (the order
//                                         could_extract_minus looks at) -- a parameter of the Lean model
//   par  <Fn> <arg> | <key> ...           parity rewrites through handle_minus: Sinh Csch Cosh Sech Tanh Coth ASinh
//                                         ACsch ATanh ACoth Erf Erfc Abs
//   inv  <Fn> <arg>                       ASin ACos ASec ACsc ATan ACot (table lookups)
//   atan2 <num> <den>
//   num  <Fn> <arg> ...                   exact-number evaluation: Floor Ceiling Truncate Sign Abs Conjugate Gamma
//                                         KroneckerDelta LeviCivita Max Min PrimePi Primorial Log
//   tab  sin|cst|tct <i>                  entry i of the special-angle tables (initialiser lists copied verbatim from
//                                         functions.cpp into c08_gen.h by the translator)
//   ora  <Fn> <arg> ...                   every other constructor/argument shape: property oracle only (the Lean
//                                         driver answers SKIP)
// Output: the canonical dump of the result; for `trig` and `tab sin`, when the result is a closed form in
// Q(sqrt2, sqrt3), its exact coordinates `V a b c d` (= a + b*sqrt2 + c*sqrt3 + d*sqrt6) instead.
//
// Oracle (independent of the Lean model and of the library's own evaluators): the result and the arguments are
// evaluated by the numeric evaluator below (std:: functions and textbook series written here); the function is
// applied *numerically to the evaluated arguments* and compared with the evaluated result at random rational
// points (and one complex point where every function involved is analytic), relative tolerance 1e-9 + 1e-12.
// Points near singularities, branch cuts and jumps are discarded by a perturbation test.  Integer-valued functions
// at exact arguments are compared exactly (GMP / brute force).
#include "common.h"
#include "sexp.h"
#include "c08_gen.h"
#include <symengine/ntheory_funcs.h>
#include <symengine/ntheory.h>
#include <complex>
#include <cmath>
#include <set>
#include <functional>

using namespace SymEngine;
typedef std::complex<double> cd;

// ============================================================== exact arithmetic in Q(sqrt2, sqrt3)
struct S4 {
    rational_class a, b, c, d; // a + b*sqrt2 + c*sqrt3 + d*sqrt6
    S4() : a(0), b(0), c(0), d(0) {}
    explicit S4(const rational_class &q) : a(q), b(0), c(0), d(0) {}
};
static S4 s4add(const S4 &x, const S4 &y)
{
    S4 r;
    r.a = x.a + y.a, r.b = x.b + y.b, r.c = x.c + y.c, r.d = x.d + y.d;
    return r;
}
static S4 s4mul(const S4 &x, const S4 &y)
{
    S4 r;
    r.a = x.a * y.a + 2 * (x.b * y.b) + 3 * (x.c * y.c) + 6 * (x.d * y.d);
    r.b = x.a * y.b + x.b * y.a + 3 * (x.c * y.d + x.d * y.c);
    r.c = x.a * y.c + x.c * y.a + 2 * (x.b * y.d + x.d * y.b);
    r.d = x.a * y.d + x.d * y.a + x.b * y.c + x.c * y.b;
    return r;
}
static bool s4inv(const S4 &x, S4 &out)
{
    S4 c3 = x;
    c3.c = -x.c, c3.d = -x.d;
    S4 n3 = s4mul(x, c3); // in Q(sqrt2)
    rational_class n = n3.a * n3.a - 2 * (n3.b * n3.b);
    if (n == 0)
        return false;
    S4 c2 = n3;
    c2.b = -n3.b, c2.d = -n3.d;
    S4 t = s4mul(c3, c2);
    rational_class inv = rational_class(1) / n;
    out.a = t.a * inv, out.b = t.b * inv, out.c = t.c * inv, out.d = t.d * inv;
    return true;
}
static bool rat_sqrt(const rational_class &q, rational_class &out)
{
    if (q < 0)
        return false;
    integer_class n = get_num(q), d = get_den(q), sn, sd;
    sn = mp_sqrt(n), sd = mp_sqrt(d);
    if (sn * sn != n || sd * sd != d)
        return false;
    out = rational_class(sn, sd);
    return true;
}
static bool s4sqrt_rat(const rational_class &q, S4 &out)
{
    rational_class s;
    out = S4();
    if (rat_sqrt(q, s)) {
        out.a = s;
        return true;
    }
    if (rat_sqrt(q / 2, s)) {
        out.b = s;
        return true;
    }
    if (rat_sqrt(q / 3, s)) {
        out.c = s;
        return true;
    }
    if (rat_sqrt(q / 6, s)) {
        out.d = s;
        return true;
    }
    return false;
}
static bool s4pow_int(S4 x, long n, S4 &out)
{
    if (n < 0) {
        if (!s4inv(x, x))
            return false;
        n = -n;
    }
    out = S4(rational_class(1));
    for (long i = 0; i < n; i++)
        out = s4mul(out, x);
    return true;
}
// exact value of a constant expression tree, if it lies in Q(sqrt2, sqrt3)
static bool s4_pow(const Basic &bs, const Basic &ex, S4 &out);
static bool to_s4(const Basic &b, S4 &out)
{
    if (is_a<Integer>(b)) {
        out = S4(rational_class(down_cast<const Integer &>(b).as_integer_class()));
        return true;
    }
    if (is_a<Rational>(b)) {
        out = S4(down_cast<const Rational &>(b).as_rational_class());
        return true;
    }
    if (is_a<Add>(b)) {
        const Add &a = down_cast<const Add &>(b);
        S4 acc, t, c;
        if (!to_s4(*a.get_coef(), acc))
            return false;
        for (auto &p : a.get_dict()) {
            if (!to_s4(*p.first, t) || !to_s4(*p.second, c))
                return false;
            acc = s4add(acc, s4mul(t, c));
        }
        out = acc;
        return true;
    }
    if (is_a<Mul>(b)) {
        const Mul &m = down_cast<const Mul &>(b);
        S4 acc, t;
        if (!to_s4(*m.get_coef(), acc))
            return false;
        for (auto &p : m.get_dict()) {
            if (!s4_pow(*p.first, *p.second, t))
                return false;
            acc = s4mul(acc, t);
        }
        out = acc;
        return true;
    }
    if (is_a<Pow>(b)) {
        const Pow &p = down_cast<const Pow &>(b);
        return s4_pow(*p.get_base(), *p.get_exp(), out);
    }
    return false;
}
static bool s4_pow(const Basic &bs, const Basic &ex, S4 &out)
{
    S4 base;
    if (!to_s4(bs, base))
        return false;
    if (is_a<Integer>(ex)) {
        const Integer &e = down_cast<const Integer &>(ex);
        if (mp_abs(e.as_integer_class()) > 64)
            return false;
        return s4pow_int(base, (long)e.as_int(), out);
    }
    if (is_a<Rational>(ex)) {
        rational_class e = down_cast<const Rational &>(ex).as_rational_class();
        if (get_den(e) != 2 || base.b != 0 || base.c != 0 || base.d != 0)
            return false;
        S4 rt;
        if (!s4sqrt_rat(base.a, rt))
            return false;
        if (mp_abs(get_num(e)) > 64)
            return false;
        return s4pow_int(rt, (long)mp_get_si(get_num(e)), out);
    }
    return false;
}
static std::string s4str(const S4 &s)
{
    return "V " + vsexp::rat_str(s.a) + " " + vsexp::rat_str(s.b) + " " + vsexp::rat_str(s.c) + " "
           + vsexp::rat_str(s.d);
}

// ============================================================== numeric evaluator (the oracle's semantics)
struct Unsup : std::exception {
    std::string why;
    explicit Unsup(const std::string &w) : why(w) {}
    const char *what() const noexcept override
    {
        return why.c_str();
    }
};
typedef std::map<std::string, cd> Env;
static const double PI = 3.14159265358979323846, EULER = 0.57721566490153286061, CATALAN = 0.91596559417721901505,
                    GOLDEN = 1.61803398874989484820;
static const double INF = std::numeric_limits<double>::infinity();

static bool is_real(cd z)
{
    return std::abs(z.imag()) <= 1e-13 * (1 + std::abs(z.real()));
}
static double need_real(cd z, const char *fn)
{
    if (!is_real(z))
        throw Unsup(std::string(fn) + " at a non-real point");
    return z.real();
}
static bool is_int(double x)
{
    return std::floor(x) == x;
}
static cd norm0(cd z) // results on the real axis are reached "from above": no negative zero imaginary parts
{
    double re = z.real(), im = z.imag();
    if (im == 0)
        im = 0.0;
    if (re == 0)
        re = 0.0;
    return cd(re, im);
}

static double digamma_pos(double x) // x > 0
{
    double r = 0;
    while (x < 10) {
        r -= 1 / x;
        x += 1;
    }
    double f = 1 / (x * x);
    return r + std::log(x) - 0.5 / x
           - f * (1.0 / 12 - f * (1.0 / 120 - f * (1.0 / 252 - f * (1.0 / 240 - f * (1.0 / 132 - f * (691.0 / 32760 - f / 12))))));
}
static double digamma(double x)
{
    if (x <= 0 && is_int(x))
        return INF;
    if (x > 0)
        return digamma_pos(x);
    return digamma_pos(1 - x) - PI / std::tan(PI * x);
}
static const double B2[] = {1.0 / 6, -1.0 / 30, 1.0 / 42, -1.0 / 30, 5.0 / 66, -691.0 / 2730, 7.0 / 6, -3617.0 / 510,
                            43867.0 / 798, -174611.0 / 330};
// Hurwitz zeta, real s != 1; a > 0, or a <= 0 with s a non-positive integer (polynomial case)
static double hurwitz(double s, double a)
{
    if (s == 1)
        return INF;
    double head = 0;
    if (s <= 0 && is_int(s) && s >= -20) {
        // zeta(-n, a) = -B_{n+1}(a)/(n+1), the Bernoulli polynomial (exact closed form, every real a)
        static const long double BN[] = {1.0L, -0.5L, 1.0L / 6, 0, -1.0L / 30, 0, 1.0L / 42, 0, -1.0L / 30, 0, 5.0L / 66, 0,
                                         -691.0L / 2730, 0, 7.0L / 6, 0, -3617.0L / 510, 0, 43867.0L / 798, 0,
                                         -174611.0L / 330, 0};
        int m = (int)(-s) + 1;
        long double acc = 0, binom = 1; // binom = C(m, k)
        for (int k = 0; k <= m; k++) {
            acc += binom * BN[k] * std::pow((long double)a, (long double)(m - k));
            binom = binom * (m - k) / (k + 1);
        }
        return (double)(-acc / m);
    }
    if (a <= 0)
        throw Unsup("zeta(s, a) with a <= 0 and s not a non-positive integer");
    const int N = 14;
    double sum = head;
    for (int k = 0; k < N; k++)
        sum += std::pow(k + a, -s);
    double w = N + a;
    sum += std::pow(w, 1 - s) / (s - 1) + 0.5 * std::pow(w, -s);
    double fact = 1, rising = s; // rising = s(s+1)...(s+2j-2)
    for (int j = 1; j <= 10; j++) {
        fact *= (2 * j - 1) * (2 * j);
        double term = B2[j - 1] / fact * rising * std::pow(w, -s - 2 * j + 1);
        sum += term;
        rising *= (s + 2 * j - 1) * (s + 2 * j);
    }
    return sum;
}
static double polygamma_num(double n, double x)
{
    if (!(n >= 0 && is_int(n)))
        throw Unsup("polygamma of non-integer order");
    if (x <= 0 && is_int(x))
        return INF;
    if (n == 0)
        return digamma(x);
    double fact = std::tgamma(n + 1), sgn = ((long)n % 2) ? 1 : -1; // (-1)^(n+1)
    double corr = 0;
    while (x < 0) { // psi_n(x) = psi_n(x+1) - (-1)^n n!/x^(n+1)
        corr -= -sgn * fact / std::pow(x, n + 1);
        x += 1;
    }
    return sgn * fact * hurwitz(n + 1, x) + corr;
}
static double upper_cf(double s, double x) // modified Lentz, x > 0
{
    const double tiny = 1e-300;
    double b = x + 1 - s, c = 1 / tiny, d = 1 / b, h = d;
    for (int i = 1; i < 2000; i++) {
        double an = -i * (i - s);
        b += 2;
        d = an * d + b;
        if (std::abs(d) < tiny)
            d = tiny;
        c = b + an / c;
        if (std::abs(c) < tiny)
            c = tiny;
        d = 1 / d;
        double del = d * c;
        h *= del;
        if (std::abs(del - 1) < 1e-16)
            break;
    }
    return std::exp(-x + s * std::log(x)) * h;
}
static double lower_series(double s, double x) // s not in {0,-1,-2,...}, x >= 0
{
    double term = 1 / s, sum = term;
    for (int k = 1; k < 5000; k++) {
        term *= x / (s + k);
        sum += term;
        if (std::abs(term) < 1e-17 * std::abs(sum))
            break;
    }
    return std::pow(x, s) * std::exp(-x) * sum;
}
static double expint_e1(double x) // x > 0 small
{
    double sum = 0, term = 1;
    for (int k = 1; k < 200; k++) {
        term *= -x / k;
        sum += term / k;
    }
    return -EULER - std::log(x) - sum;
}
static double upper_gamma(double s, double x)
{
    if (x < 0)
        throw Unsup("uppergamma at negative x");
    if (x == 0) {
        if (s > 0)
            return std::tgamma(s);
        return INF;
    }
    if (x > 40)
        throw Unsup("uppergamma: x too large for the reference");
    if (x >= 2)
        return upper_cf(s, x);
    if (s > 0 && !(is_int(s) && s <= 0))
        return std::tgamma(s) - lower_series(s, x);
    // s <= 0, small x: recurrence upwards from (0,1]
    if (s == 0)
        return expint_e1(x);
    return (upper_gamma(s + 1, x) - std::pow(x, s) * std::exp(-x)) / s;
}
static double lower_gamma(double s, double x)
{
    if (x < 0)
        throw Unsup("lowergamma at negative x");
    if (s <= 0 && is_int(s))
        return INF;
    if (x > 40)
        throw Unsup("lowergamma: x too large for the reference");
    if (x < 2 || x < s + 1)
        return lower_series(s, x);
    return std::tgamma(s) - upper_cf(s, x);
}
static double lambertw_num(double x)
{
    if (x < -1 / M_E - 1e-15)
        throw Unsup("lambertw below -1/e");
    if (x == 0)
        return 0;
    double w = x < 1 ? (x < -0.25 ? -1 + std::sqrt(2 * (M_E * x + 1)) : x) : std::log(x) - std::log(std::log(x) + 1);
    for (int i = 0; i < 100; i++) {
        double e = std::exp(w), f = w * e - x;
        double d = e * (w + 1) - (w + 2) * f / (2 * w + 2);
        if (d == 0)
            break;
        double nw = w - f / d;
        if (std::abs(nw - w) < 1e-16 * (1 + std::abs(nw))) {
            w = nw;
            break;
        }
        w = nw;
    }
    return w;
}
static cd cgamma(cd z)
{
    if (is_real(z)) {
        double x = z.real();
        if (x <= 0 && is_int(x))
            return INF;
        return std::tgamma(x);
    }
    static const double g = 7;
    static const double co[] = {0.99999999999980993,  676.5203681218851,     -1259.1392167224028,
                                771.32342877765313,   -176.61502916214059,   12.507343278686905,
                                -0.13857109526572012, 9.9843695780195716e-6, 1.5056327351493116e-7};
    if (z.real() < 0.5)
        return PI / (std::sin(PI * z) * cgamma(1.0 - z));
    z -= 1.0;
    cd x = co[0];
    for (int i = 1; i < 9; i++)
        x += co[i] / (z + (double)i);
    cd t = z + g + 0.5;
    return std::sqrt(2 * PI) * std::pow(t, z + 0.5) * std::exp(-t) * x;
}
static bool is_prime_small(long n)
{
    if (n < 2)
        return false;
    for (long p = 2; p * p <= n; p++)
        if (n % p == 0)
            return false;
    return true;
}

// the function library: value of the mathematical function `name` at numeric arguments
static cd apply_fn(const std::string &name, const std::vector<cd> &a)
{
    auto A = [&](size_t i) -> cd {
        if (i >= a.size())
            throw Unsup("arity of " + name);
        return a[i];
    };
    const cd one1(1.0, 0.0);
    if (name == "Sin")
        return std::sin(A(0));
    if (name == "Cos")
        return std::cos(A(0));
    if (name == "Tan")
        return std::tan(A(0));
    if (name == "Cot")
        return std::cos(A(0)) / std::sin(A(0));
    if (name == "Csc")
        return one1 / std::sin(A(0));
    if (name == "Sec")
        return one1 / std::cos(A(0));
    if (name == "ASin")
        return std::asin(norm0(A(0)));
    if (name == "ACos")
        return std::acos(norm0(A(0)));
    if (name == "ATan")
        return std::atan(norm0(A(0)));
    if (name == "ACot")
        return std::atan(norm0(one1 / A(0)));
    if (name == "ASec")
        return std::acos(norm0(one1 / A(0)));
    if (name == "ACsc")
        return std::asin(norm0(one1 / A(0)));
    if (name == "Sinh")
        return std::sinh(A(0));
    if (name == "Cosh")
        return std::cosh(A(0));
    if (name == "Tanh")
        return std::tanh(A(0));
    if (name == "Coth")
        return std::cosh(A(0)) / std::sinh(A(0));
    if (name == "Csch")
        return one1 / std::sinh(A(0));
    if (name == "Sech")
        return one1 / std::cosh(A(0));
    if (name == "ASinh")
        return std::asinh(norm0(A(0)));
    if (name == "ACosh")
        return std::acosh(norm0(A(0)));
    if (name == "ATanh")
        return std::atanh(norm0(A(0)));
    if (name == "ACoth")
        return std::atanh(norm0(one1 / A(0)));
    if (name == "ASech")
        return std::acosh(norm0(one1 / A(0)));
    if (name == "ACsch")
        return std::asinh(norm0(one1 / A(0)));
    if (name == "Log") {
        if (A(0) == cd(0.0, 0.0))
            return INF;
        return std::log(norm0(A(0)));
    }
    if (name == "Exp")
        return std::exp(A(0));
    if (name == "Abs")
        return std::abs(A(0));
    if (name == "Sign") {
        if (A(0) == cd(0.0, 0.0))
            return 0.0;
        return A(0) / std::abs(A(0));
    }
    if (name == "Conjugate")
        return std::conj(A(0));
    if (name == "Floor")
        return cd(std::floor(A(0).real()), std::floor(A(0).imag()));
    if (name == "Ceiling")
        return cd(std::ceil(A(0).real()), std::ceil(A(0).imag()));
    if (name == "Truncate")
        return cd(std::trunc(A(0).real()), std::trunc(A(0).imag()));
    if (name == "Gamma")
        return cgamma(A(0));
    if (name == "LogGamma") {
        double x = need_real(A(0), "loggamma");
        if (x <= 0) {
            if (is_int(x))
                return INF;
            throw Unsup("loggamma at a negative point");
        }
        return std::lgamma(x);
    }
    if (name == "Erf")
        return std::erf(need_real(A(0), "erf"));
    if (name == "Erfc")
        return std::erfc(need_real(A(0), "erfc"));
    if (name == "LambertW")
        return lambertw_num(need_real(A(0), "lambertw"));
    if (name == "Zeta") {
        double s = need_real(A(0), "zeta"), aa = a.size() > 1 ? need_real(A(1), "zeta") : 1.0;
        return hurwitz(s, aa);
    }
    if (name == "Dirichlet_eta") {
        double s = need_real(A(0), "dirichlet_eta");
        if (s == 1)
            return std::log(2.0);
        return (1 - std::pow(2.0, 1 - s)) * hurwitz(s, 1.0);
    }
    if (name == "PolyGamma")
        return polygamma_num(need_real(A(0), "polygamma"), need_real(A(1), "polygamma"));
    if (name == "LowerGamma")
        return lower_gamma(need_real(A(0), "lowergamma"), need_real(A(1), "lowergamma"));
    if (name == "UpperGamma")
        return upper_gamma(need_real(A(0), "uppergamma"), need_real(A(1), "uppergamma"));
    if (name == "Beta") {
        double x = need_real(A(0), "beta"), y = need_real(A(1), "beta");
        bool px = x <= 0 && is_int(x), py = y <= 0 && is_int(y), pxy = x + y <= 0 && is_int(x + y);
        if ((px || py) && !pxy)
            return INF;
        if (pxy && !(px || py))
            return 0.0;
        if (px || py)
            throw Unsup("beta at a pole of numerator and denominator");
        return std::tgamma(x) * std::tgamma(y) / std::tgamma(x + y);
    }
    if (name == "ATan2") {
        double y = need_real(A(0), "atan2"), x = need_real(A(1), "atan2");
        if (x == 0 && y == 0)
            return NAN;
        return std::atan2(y, x);
    }
    if (name == "Max" || name == "Min") {
        if (a.empty())
            throw Unsup("empty max/min");
        double m = need_real(a[0], "max");
        for (auto &z : a) {
            double v = need_real(z, "max");
            m = name == "Max" ? std::max(m, v) : std::min(m, v);
        }
        return m;
    }
    if (name == "KroneckerDelta")
        return std::abs(A(0) - A(1)) < 1e-12 ? 1.0 : 0.0;
    if (name == "LeviCivita") {
        cd r = 1.0;
        double f = 1;
        for (size_t i = 0; i < a.size(); i++) {
            for (size_t j = i + 1; j < a.size(); j++)
                r *= (a[j] - a[i]);
            if (i > 0)
                f *= (double)i;
            r /= f;
        }
        return r;
    }
    if (name == "PrimePi" || name == "Primorial") {
        double x = need_real(A(0), "primepi");
        if (x > 1e5)
            throw Unsup("primepi reference range");
        double cnt = 0, prod = 1;
        for (long p = 2; p <= (long)std::floor(x); p++)
            if (is_prime_small(p))
                cnt += 1, prod *= (double)p;
        return name == "PrimePi" ? cnt : prod;
    }
    if (name == "UnevaluatedExpr")
        return A(0);
    throw Unsup("no reference for " + name);
}

static cd ev(const Basic &b, const Env &env);
static cd ev_pow(const Basic &bs, const Basic &ex, const Env &env)
{
    if (eq(ex, *one))
        return ev(bs, env);
    cd e = ev(ex, env);
    if (eq(bs, *E))
        return std::exp(e);
    cd base = norm0(ev(bs, env));
    if (base == cd(0.0, 0.0)) {
        if (e.real() > 0)
            return 0.0;
        if (e == cd(0.0, 0.0))
            return 1.0;
        return INF;
    }
    if (is_a<Integer>(ex) && std::abs(e.real()) <= 64) {
        long n = (long)e.real();
        cd r = 1.0, bb = n < 0 ? cd(1.0, 0.0) / base : base;
        for (long i = 0; i < std::labs(n); i++)
            r *= bb;
        return r;
    }
    return std::pow(base, e);
}
static cd ev(const Basic &b, const Env &env)
{
    switch (b.get_type_code()) {
        case SYMENGINE_INTEGER:
            return mp_get_d(down_cast<const Integer &>(b).as_integer_class());
        case SYMENGINE_RATIONAL:
            return mp_get_d(down_cast<const Rational &>(b).as_rational_class());
        case SYMENGINE_COMPLEX: {
            const Complex &c = down_cast<const Complex &>(b);
            return cd(mp_get_d(c.real_), mp_get_d(c.imaginary_));
        }
        case SYMENGINE_REAL_DOUBLE:
            return down_cast<const RealDouble &>(b).i;
        case SYMENGINE_COMPLEX_DOUBLE:
            return down_cast<const ComplexDouble &>(b).i;
        case SYMENGINE_INFTY: {
            const Infty &i = down_cast<const Infty &>(b);
            if (i.is_negative_infinity())
                return -INF;
            return INF; // oo and zoo
        }
        case SYMENGINE_NOT_A_NUMBER:
            return NAN;
        case SYMENGINE_SYMBOL: {
            auto it = env.find(down_cast<const Symbol &>(b).get_name());
            if (it == env.end())
                throw Unsup("unbound symbol");
            return it->second;
        }
        case SYMENGINE_CONSTANT: {
            const std::string &n = down_cast<const Constant &>(b).get_name();
            if (n == "pi")
                return PI;
            if (n == "E")
                return M_E;
            if (n == "EulerGamma")
                return EULER;
            if (n == "Catalan")
                return CATALAN;
            if (n == "GoldenRatio")
                return GOLDEN;
            throw Unsup("constant " + n);
        }
        case SYMENGINE_ADD: {
            const Add &a = down_cast<const Add &>(b);
            cd s = ev(*a.get_coef(), env);
            for (auto &p : a.get_dict())
                s += ev(*p.first, env) * ev(*p.second, env);
            return s;
        }
        case SYMENGINE_MUL: {
            const Mul &m = down_cast<const Mul &>(b);
            cd s = ev(*m.get_coef(), env);
            for (auto &p : m.get_dict())
                s *= ev_pow(*p.first, *p.second, env);
            return s;
        }
        case SYMENGINE_POW: {
            const Pow &p = down_cast<const Pow &>(b);
            return ev_pow(*p.get_base(), *p.get_exp(), env);
        }
        case SYMENGINE_FUNCTIONSYMBOL:
        case SYMENGINE_DERIVATIVE:
        case SYMENGINE_SUBS:
            throw Unsup("opaque node");
        default:
            break;
    }
    if (is_a_Boolean(b) || is_a_Set(b))
        throw Unsup("boolean/set node");
    std::vector<cd> av;
    for (auto &x : b.get_args())
        av.push_back(ev(*x, env));
    return apply_fn(type_code_name(b.get_type_code()), av);
}

// functions whose reference is implemented on the complex plane (complex sample points allowed)
static bool complex_ok(const std::string &n)
{
    static const std::set<std::string> s
        = {"Sin",  "Cos",  "Tan",   "Cot",   "Csc",   "Sec",   "ASin",  "ACos",  "ATan",  "ACot", "ASec",
           "ACsc", "Sinh", "Cosh",  "Tanh",  "Coth",  "Csch",  "Sech",  "ASinh", "ACosh", "ATanh", "ACoth",
           "ASech", "ACsch", "Log", "Exp",   "Abs",   "Sign",  "Conjugate", "Gamma"};
    return s.count(n) > 0;
}
static bool analytic(const std::string &n)
{
    return complex_ok(n) && n != "Abs" && n != "Sign" && n != "Conjugate";
}
static void collect_fns(const Basic &b, std::set<std::string> &out, std::set<std::string> &syms)
{
    if (is_a<Symbol>(b))
        syms.insert(down_cast<const Symbol &>(b).get_name());
    if (!is_a_Number(b) && !is_a<Symbol>(b) && !is_a<Constant>(b) && !is_a<Add>(b) && !is_a<Mul>(b) && !is_a<Pow>(b))
        out.insert(type_code_name(b.get_type_code()));
    for (auto &x : b.get_args())
        collect_fns(*x, out, syms);
}
static std::string cstr(cd z)
{
    char buf[96];
    snprintf(buf, sizeof buf, "%.15g%+.15gi", z.real(), z.imag());
    return buf;
}
static bool finite_c(cd z)
{
    return std::isfinite(z.real()) && std::isfinite(z.imag());
}
static bool nan_c(cd z)
{
    return std::isnan(z.real()) || std::isnan(z.imag());
}

// deterministic sample points derived from the op text (hx_run has no Rng)
static uint64_t fnv(const std::string &s)
{
    uint64_t h = 1469598103934665603ULL;
    for (unsigned char c : s)
        h = (h ^ c) * 1099511628211ULL;
    return h;
}

// The property oracle for one constructor call.
static void value_oracle(const std::string &fn, const vec_basic &args, const RCP<const Basic> &res,
                         const std::string &op, std::string &oracle)
{
    std::set<std::string> fns, syms;
    for (auto &a : args)
        collect_fns(*a, fns, syms);
    collect_fns(*res, fns, syms);
    fns.insert(fn);
    bool cplx = true;
    for (auto &f : fns)
        if (!complex_ok(f))
            cplx = false;
    Rng r(fnv(op));
    int npts = syms.empty() ? 1 : 4;
    bool trivial_same = false;
    { // the result is literally fn(args): nothing was rewritten
        if (type_code_name(res->get_type_code()) == fn) {
            vec_basic ra = res->get_args();
            if (ra.size() == args.size()) {
                trivial_same = true;
                for (size_t i = 0; i < ra.size(); i++)
                    if (!eq(*ra[i], *args[i]))
                        trivial_same = false;
            }
        }
    }
    if (trivial_same) {
        stat("oracle_unevaluated_results");
        return;
    }
    stat("oracle_rewritten_results");
    for (int k = 0; k < npts; k++) {
        Env env;
        bool cpoint = cplx && k == npts - 1 && !syms.empty();
        static const int dens[] = {3, 5, 7, 11, 13};
        for (auto &s : syms) {
            int d = dens[r.below(5)];
            double re = (double)r.range(-3 * d, 3 * d) / d;
            if (is_int(re * 2))
                re += 1.0 / (d * 17);
            double im = 0;
            if (cpoint) {
                int d2 = dens[r.below(5)];
                im = (double)r.range(1, 2 * d2) / d2 * (r.coin() ? 1 : -1);
            }
            env[s] = cd(re, im);
        }
        try {
            std::vector<cd> av;
            for (auto &a : args)
                av.push_back(norm0(ev(*a, env)));
            cd expect = apply_fn(fn, av);
            cd got = ev(*res, env);
            if (nan_c(expect)) {
                stat("oracle_points_discarded_nan");
                continue;
            }
            // conditioning: the function must be stable under tiny perturbations of the arguments
            bool stable = true;
            std::vector<cd> dirs = {cd(1, 0), cd(-1, 0)};
            if (analytic(fn)) {
                dirs.push_back(cd(0, 1));
                dirs.push_back(cd(0, -1));
            }
            for (size_t i = 0; i < av.size() && stable; i++)
                for (auto &dir : dirs) {
                    std::vector<cd> pv = av;
                    pv[i] = norm0(av[i] + dir * (1e-7 * (1 + std::abs(av[i]))));
                    cd pe;
                    try {
                        pe = apply_fn(fn, pv);
                    } catch (Unsup &) {
                        continue;
                    }
                    if (finite_c(expect) != finite_c(pe)
                        || (finite_c(expect) && std::abs(pe - expect) > 1e-4 * (1 + std::abs(expect)))) {
                        stable = false;
                        break;
                    }
                }
            if (!stable) {
                stat("oracle_points_discarded_illconditioned");
                continue;
            }
            if (nan_c(got)) {
                if (finite_c(expect) && std::abs(expect) < 1e8) {
                    oracle = "FAIL:value-" + fn + ":result evaluates to nan, expected " + cstr(expect);
                    return;
                }
                stat("oracle_points_discarded_nan");
                continue;
            }
            if (!finite_c(expect)) {
                if (finite_c(got)) {
                    oracle = "FAIL:value-" + fn + ":result " + cstr(got) + " is finite, the function is infinite there";
                    return;
                }
                stat("oracle_points_checked_infinite");
                continue;
            }
            if (!finite_c(got)) {
                oracle = "FAIL:value-" + fn + ":result is infinite, expected " + cstr(expect);
                return;
            }
            if (std::abs(expect) > 1e12) {
                stat("oracle_points_discarded_huge");
                continue;
            }
            double tol = 1e-9 * std::max(std::abs(expect), std::abs(got)) + 1e-12;
            if (std::abs(got - expect) > tol) {
                std::string pt;
                for (auto &kv : env)
                    pt += kv.first + "=" + cstr(kv.second) + " ";
                oracle = "FAIL:value-" + fn + ":result " + cstr(got) + " expected " + cstr(expect)
                         + (pt.empty() ? "" : " at " + pt);
                return;
            }
            stat(cpoint ? "oracle_points_checked_complex" : "oracle_points_checked_real");
        } catch (Unsup &u) {
            stat("oracle_points_unsupported");
        }
    }
}

// ------------------------------------------------------------------ exact oracles (integer-valued functions)
static bool exact_oracle(const std::string &fn, const vec_basic &args, const RCP<const Basic> &res, std::string &oracle)
{
    auto fail = [&](const std::string &w) {
        oracle = "FAIL:exact-" + fn + ":" + w + " got " + vsexp::dump(*res);
        return true;
    };
    if ((fn == "Floor" || fn == "Ceiling" || fn == "Truncate") && args.size() == 1
        && (is_a<Integer>(*args[0]) || is_a<Rational>(*args[0]))) {
        rational_class q = is_a<Integer>(*args[0])
                               ? rational_class(down_cast<const Integer &>(*args[0]).as_integer_class())
                               : down_cast<const Rational &>(*args[0]).as_rational_class();
        integer_class n = get_num(q), d = get_den(q), t = n / d; // truncated
        integer_class fl = t, ce = t;
        if (t * d != n) {
            if (n < 0)
                fl = t - 1;
            else
                ce = t + 1;
        }
        integer_class want = fn == "Floor" ? fl : fn == "Ceiling" ? ce : t;
        stat("exact_checks");
        if (!is_a<Integer>(*res) || down_cast<const Integer &>(*res).as_integer_class() != want)
            return fail("expected " + vsexp::int_str(want));
        return true;
    }
    if (fn == "Sign" && args.size() == 1 && (is_a<Integer>(*args[0]) || is_a<Rational>(*args[0]))) {
        const Number &n = down_cast<const Number &>(*args[0]);
        long want = n.is_zero() ? 0 : n.is_negative() ? -1 : 1;
        stat("exact_checks");
        if (!eq(*res, *integer(want)))
            return fail("expected " + std::to_string(want));
        return true;
    }
    if ((fn == "PrimePi" || fn == "Primorial") && args.size() == 1
        && (is_a<Integer>(*args[0]) || is_a<Rational>(*args[0]))) {
        double x = mp_get_d(is_a<Integer>(*args[0])
                                ? rational_class(down_cast<const Integer &>(*args[0]).as_integer_class())
                                : down_cast<const Rational &>(*args[0]).as_rational_class());
        if (x > 20000 || (fn == "Primorial" && x <= 0))
            return false;
        integer_class cnt(0), prod(1);
        for (long p = 2; p <= (long)std::floor(x); p++)
            if (is_prime_small(p))
                cnt += 1, prod *= p;
        integer_class want = fn == "PrimePi" ? cnt : prod;
        stat("exact_checks");
        if (!is_a<Integer>(*res) || down_cast<const Integer &>(*res).as_integer_class() != want)
            return fail("expected " + vsexp::int_str(want));
        return true;
    }
    if (fn == "LeviCivita") {
        // a permutation of 0..n-1 or 1..n: the sign of the permutation; a repeated index: 0
        std::vector<long> v;
        for (auto &a : args) {
            if (!is_a<Integer>(*a))
                return false;
            v.push_back((long)down_cast<const Integer &>(*a).as_int());
        }
        std::vector<long> s = v;
        std::sort(s.begin(), s.end());
        bool dup = false;
        for (size_t i = 1; i < s.size(); i++)
            if (s[i] == s[i - 1])
                dup = true;
        bool perm = !s.empty() && (s[0] == 0 || s[0] == 1);
        for (size_t i = 1; i < s.size(); i++)
            if (s[i] != s[i - 1] + 1)
                perm = false;
        if (!dup && !perm)
            return false;
        long want = 0;
        if (!dup) {
            long inv = 0;
            for (size_t i = 0; i < v.size(); i++)
                for (size_t j = i + 1; j < v.size(); j++)
                    if (v[i] > v[j])
                        inv++;
            want = inv % 2 ? -1 : 1;
        }
        stat("exact_checks");
        if (!eq(*res, *integer(want)))
            return fail("expected " + std::to_string(want));
        return true;
    }
    if (fn == "KroneckerDelta" && args.size() == 2 && is_a_Number(*args[0]) && is_a_Number(*args[1])
        && down_cast<const Number &>(*args[0]).is_exact() && down_cast<const Number &>(*args[1]).is_exact()) {
        long want = eq(*args[0], *args[1]) ? 1 : 0;
        stat("exact_checks");
        if (!eq(*res, *integer(want)))
            return fail("expected " + std::to_string(want));
        return true;
    }
    return false;
}

// ------------------------------------------------------------------ running one op
static RCP<const Basic> call_fn(const std::string &fn, const vec_basic &a)
{
    if (fn == "Exp")
        return exp(a.at(0));
    if (fn == "Zeta" && a.size() == 1)
        return zeta(a[0]);
    return vsexp::build_named(fn, a);
}

std::string hx_run(const std::string &line, std::string &oracle)
{
    std::vector<vsexp::Node> nodes = vsexp::parse_all(line);
    if (nodes.size() < 2 || !nodes[0].is_atom())
        return "bad-op";
    const std::string fam = nodes[0].atom;
    if (fam == "tab") {
        if (nodes.size() != 3)
            return "bad-op";
        const std::string which = nodes[1].atom;
        size_t i = std::stoul(nodes[2].atom);
        Env env;
        if (which == "sin") {
            auto t = c08gen::sin_table();
            if (i >= t.size())
                return "bad-op";
            cd v = ev(*t[i], env), w = std::sin(PI * (double)i / 12);
            if (std::abs(v - w) > 1e-12)
                oracle = "FAIL:table-sin:entry " + std::to_string(i) + " is " + cstr(v) + ", sin(pi*" + std::to_string(i)
                         + "/12) = " + cstr(w);
            stat("table_entries_checked");
            S4 s;
            if (to_s4(*t[i], s))
                return s4str(s);
            return vsexp::dump(*t[i]);
        }
        c08gen::pairs_t t = which == "cst" ? c08gen::inverse_cst() : c08gen::inverse_tct();
        if (which != "cst" && which != "tct")
            return "bad-op";
        if (i >= t.size())
            return "bad-op";
        cd k = ev(*t[i].first, env), v = ev(*t[i].second, env);
        cd f = which == "cst" ? std::asin(k) : std::atan(k);
        if (std::abs(f - PI / v) > 1e-12)
            oracle = "FAIL:table-" + which + ":entry " + std::to_string(i) + ": " + (which == "cst" ? "asin(" : "atan(")
                     + cstr(k) + ") = " + cstr(f) + " but the table says pi/" + cstr(v) + " = " + cstr(PI / v);
        stat("table_entries_checked");
        return vsexp::dump(*t[i].first) + " => " + vsexp::dump(*t[i].second);
    }
    std::string fn;
    size_t first = 2;
    if (fam == "atan2") {
        fn = "ATan2";
        first = 1;
    } else {
        if (!nodes[1].is_atom())
            return "bad-op";
        fn = nodes[1].atom;
    }
    vec_basic args;
    for (size_t k = first; k < nodes.size(); k++) {
        if (nodes[k].is_atom() && nodes[k].kids.empty() && nodes[k].atom == "|")
            break;
        args.push_back(vsexp::build(nodes[k]));
    }
    if (args.empty() && fn != "Max" && fn != "Min" && fn != "LeviCivita")
        return "bad-op";
    RCP<const Basic> res;
    try {
        res = call_fn(fn, args);
    } catch (const SymEngine::VerifAssertError &e) {
        // a canonical-form / precondition assertion inside the constructor: one oracle key per function,
        // so that different defects are reported separately
        oracle = "FAIL:assert-" + fn + ":" + e.what();
        stat("calls_" + fam);
        return "E:Assert";
    }
    stat("calls_" + fam);
    if (!exact_oracle(fn, args, res, oracle))
        value_oracle(fn, args, res, line, oracle);
    if (fam == "trig") {
        S4 s;
        if (to_s4(*res, s))
            return s4str(s);
    }
    return vsexp::dump(*res);
}

// ------------------------------------------------------------------ generation
static RCP<const Basic> q_of(long n, long d)
{
    return Rational::from_two_ints(*integer(n), *integer(d));
}
static RCP<const Basic> sym(Rng &r)
{
    static const char *names[] = {"x", "y", "z"};
    return symbol(names[r.below(3)]);
}
static RCP<const Basic> rand_q(Rng &r, bool nonzero = false)
{
    while (true) {
        long d = r.coin(2, 3) ? 1 : r.range(2, 7), n = r.range(-9, 9);
        if (nonzero && n == 0)
            continue;
        return q_of(n, d);
    }
}
// an atom for the linear forms: symbol, product of symbols, power, opaque function application
static RCP<const Basic> rand_atom(Rng &r)
{
    unsigned k = r.below(100);
    if (k < 70)
        return sym(r);
    if (k < 80)
        return mul(symbol("x"), symbol("y"));
    if (k < 88)
        return pow(sym(r), integer(2));
    if (k < 94)
        return function_symbol("f", sym(r));
    return log(sym(r));
}
// r part of q*pi + r
static RCP<const Basic> rand_rest(Rng &r, std::string &shape)
{
    unsigned k = r.below(100);
    if (k < 16) {
        shape = "0";
        return zero;
    }
    if (k < 26) {
        shape = "num";
        return rand_q(r, true);
    }
    if (k < 42) {
        shape = "atom";
        return rand_atom(r);
    }
    if (k < 56) {
        shape = "c*atom";
        return mul(rand_q(r, true), rand_atom(r));
    }
    if (k < 92) {
        shape = "sum";
        RCP<const Basic> s = r.coin(1, 3) ? rand_q(r) : rcp_static_cast<const Basic>(zero);
        int n = 1 + (int)r.below(3);
        for (int i = 0; i < n; i++)
            s = add(s, mul(rand_q(r, true), rand_atom(r)));
        return s;
    }
    shape = "neg(sum)";
    RCP<const Basic> s = add(mul(rand_q(r, true), symbol("x")), mul(rand_q(r, true), symbol("y")));
    if (r.coin())
        s = add(s, rand_q(r, true));
    if (is_a<Add>(*s))
        return mul(minus_one, s); // Mul(-1, {Add: 1})
    return s;
}
static void collect_keys(const Basic &b, vec_basic &out)
{
    if (is_a<Add>(b)) {
        for (auto &p : down_cast<const Add &>(b).get_dict()) {
            out.push_back(p.first);
            collect_keys(*p.first, out);
        }
    } else if (is_a<Mul>(b)) {
        for (auto &p : down_cast<const Mul &>(b).get_dict())
            collect_keys(*p.first, out);
    }
}
// the keys of all Add dictionaries in `arg`, plus pi, in map_basic_num (RCPBasicKeyLess) order
static std::string order_hint(const RCP<const Basic> &arg)
{
    vec_basic ks;
    collect_keys(*arg, ks);
    ks.push_back(pi);
    if (!is_a_Number(*arg) && !is_a<Add>(*arg) && !is_a<Mul>(*arg))
        ks.push_back(arg);
    map_basic_num m;
    for (auto &k : ks)
        m[k] = one;
    std::string o;
    for (auto &p : m)
        o += " " + vsexp::dump(*p.first);
    return o;
}
static const char *TRIG[] = {"Sin", "Cos", "Tan", "Cot", "Csc", "Sec"};
static const char *PAR[] = {"Sinh", "Csch", "Cosh", "Sech", "Tanh", "Coth", "ASinh", "ACsch", "ATanh", "ACoth", "Erf", "Erfc", "Abs"};
static const char *INV[] = {"ASin", "ACos", "ASec", "ACsc", "ATan", "ACot"};

static void emit_trig(const std::string &fn, const RCP<const Basic> &arg, const std::string &tag)
{
    emit("trig " + fn + " " + vsexp::dump(*arg) + " |" + order_hint(arg), tag);
}
static void emit_par(const std::string &fn, const RCP<const Basic> &arg, const std::string &tag)
{
    emit("par " + fn + " " + vsexp::dump(*arg) + " |" + order_hint(arg), tag);
}
static void emit_inv(const std::string &fn, const RCP<const Basic> &arg, const std::string &tag)
{
    // after `|`: div(one, arg) as the library computes it (asec/acsc look that up)
    emit("inv " + fn + " " + vsexp::dump(*arg) + " | " + vsexp::dump(*div(one, arg)), tag);
}
static void emit_atan2(const RCP<const Basic> &num, const RCP<const Basic> &den, const std::string &tag)
{
    // after `|`: div(num, den) as the library computes it (the lookup key)
    emit("atan2 " + vsexp::dump(*num) + " " + vsexp::dump(*den) + " | " + vsexp::dump(*div(num, den)), tag);
}
static std::string dumps(const vec_basic &v)
{
    std::string o;
    for (auto &a : v)
        o += " " + vsexp::dump(*a);
    return o;
}

void hx_gen(Rng &r, const std::string &tier)
{
    bool th = tier == "thorough";
    // ---- tables
    for (int i = 0; i < 24; i++)
        emit("tab sin " + std::to_string(i), "table");
    for (size_t i = 0; i < c08gen::inverse_cst().size(); i++)
        emit("tab cst " + std::to_string(i), "table");
    for (size_t i = 0; i < c08gen::inverse_tct().size(); i++)
        emit("tab tct " + std::to_string(i), "table");
    // ---- every function at every multiple of pi/12 in three turns, and with a symbol
    for (auto fn : TRIG)
        for (int k = -24; k <= 48; k++) {
            emit_trig(fn, mul(q_of(k, 12), pi), "trig-table-angle");
            if (k % 2 == 0 || th)
                emit_trig(fn, add(mul(q_of(k, 12), pi), symbol("x")), "trig-shift-x");
        }
    static const long DENS[] = {1, 2, 3, 4, 5, 6, 10, 12};
    int n = th ? 12000 : 1500;
    for (int i = 0; i < n; i++) {
        std::string fn = TRIG[r.below(6)];
        long d = r.coin(4, 5) ? DENS[r.below(8)] : r.range(7, 30);
        long p = r.coin(1, 8) ? r.range(-200, 200) : r.range(-4 * d, 4 * d);
        std::string shape;
        RCP<const Basic> rest = rand_rest(r, shape);
        RCP<const Basic> arg;
        if (shape == "neg(sum)" && r.coin()) {
            // pi inside the negated sum: get_pi_shift does not see it
            RCP<const Basic> in = add(add(mul(q_of(p, d), pi), symbol("x")), mul(rand_q(r, true), symbol("y")));
            arg = is_a<Add>(*in) ? mul(minus_one, in) : in;
            shape = "neg(sum+pi)";
        } else if (shape == "neg(sum)")
            arg = rest; // adding a pi term to Mul(-1, {Add: 1}) nests an Add inside an Add (C03/C04 territory)
        else
            arg = add(mul(q_of(p, d), pi), rest);
        emit_trig(fn, arg, "trig-q" + std::string(d <= 12 ? std::to_string(d) : "rand") + "-" + shape);
    }
    // ---- parity family
    n = th ? 4000 : 600;
    for (int i = 0; i < n; i++) {
        std::string fn = PAR[r.below(13)];
        std::string shape;
        RCP<const Basic> rest = rand_rest(r, shape);
        if (r.coin(1, 6) && shape != "neg(sum)") {
            rest = add(rest, mul(rand_q(r, true), pi));
            shape += "+pi";
        }
        emit_par(fn, rest, "par-" + shape);
    }
    for (auto fn : PAR)
        for (long v : {0L, 1L, -1L, 2L, -2L})
            emit_par(fn, integer(v), "par-int");
    // ---- inverse trigonometric lookups
    {
        vec_basic keys;
        for (auto &p : c08gen::inverse_cst())
            keys.push_back(p.first);
        for (auto &p : c08gen::inverse_tct())
            keys.push_back(p.first);
        for (auto &k : keys)
            for (auto fn : INV) {
                emit_inv(fn, k, "inv-key");
                emit_inv(fn, div(one, k), "inv-reciprocal-key");
            }
        for (auto fn : INV) {
            for (long v : {0L, 1L, -1L, 2L, -3L})
                emit_inv(fn, integer(v), "inv-int");
            for (int i = 0; i < (th ? 60 : 12); i++) {
                RCP<const Basic> a;
                unsigned k = r.below(4);
                if (k == 0)
                    a = rand_q(r, true);
                else if (k == 1)
                    a = mul(rand_q(r, true), sqrt(integer(r.pick(std::vector<long>{2, 3, 5, 6}))));
                else if (k == 2)
                    a = sym(r);
                else
                    a = add(rand_q(r), mul(rand_q(r, true), sqrt(integer(r.pick(std::vector<long>{2, 3, 5})))));
                emit_inv(fn, a, "inv-other");
            }
        }
        // atan2: quotient in the table, all sign combinations; zero arguments
        for (auto &p : c08gen::inverse_tct())
            for (long s : {1L, -1L, 2L, -3L}) {
                RCP<const Basic> den = integer(s), num = mul(p.first, den);
                emit_atan2(num, den, "atan2-key");
            }
        for (long a : {0L, 1L, -1L, 2L})
            for (long b : {0L, 1L, -2L})
                if (a != 0 || b != 0)
                    emit_atan2(integer(a), integer(b), "atan2-int");
        emit_atan2(symbol("x"), symbol("x"), "atan2-sym");
        emit_atan2(symbol("y"), symbol("x"), "atan2-sym");
        emit_atan2(mul(integer(-1), symbol("x")), symbol("x"), "atan2-sym");
        emit_atan2(zero, symbol("x"), "atan2-sym");
        emit_atan2(mul(sqrt(integer(3)), symbol("x")), symbol("x"), "atan2-sym");
    }
    // ---- exact numbers
    n = th ? 3000 : 500;
    static const char *NUM1[] = {"Floor", "Ceiling", "Truncate", "Sign", "Abs", "Conjugate"};
    for (int i = 0; i < n; i++) {
        std::string fn = NUM1[r.below(6)];
        RCP<const Basic> a;
        unsigned k = r.below(10);
        if (k < 5)
            a = q_of(r.range(-60, 60), r.range(1, 12));
        else if (k < 7)
            a = integer(r.range(-1000, 1000));
        else if (k < 8)
            a = integer(integer_class(r.range(-5, 5)) * integer_class("100000000000000000000"));
        else
            a = Complex::from_two_nums(*rcp_static_cast<const Number>(q_of(r.range(-9, 9), r.range(1, 4))),
                                       *rcp_static_cast<const Number>(q_of(r.range(-9, 9), r.range(1, 4))));
        emit("num " + fn + " " + vsexp::dump(*a), "num-" + fn);
    }
    for (long k = -31; k <= 31; k++) {
        emit("num Gamma " + vsexp::dump(*q_of(k, 2)), "num-Gamma");
    }
    for (long k = -3; k <= 25; k++)
        emit("num Gamma " + std::to_string(k), "num-Gamma");
    for (int i = 0; i < (th ? 300 : 60); i++) {
        long v = r.coin(1, 5) ? r.range(-5, 3) : r.range(0, 3000);
        emit("num PrimePi " + vsexp::dump(*(r.coin(1, 3) ? q_of(v * 2 + 1, 2) : rcp_static_cast<const Basic>(integer(v)))),
             "num-PrimePi");
        long w = r.range(1, 60);
        emit("num Primorial " + vsexp::dump(*(r.coin(1, 3) ? q_of(w * 2 + 1, 2) : rcp_static_cast<const Basic>(integer(w)))),
             "num-Primorial");
    }
    for (auto c : {"pi", "E", "EulerGamma", "Catalan", "GoldenRatio"})
        for (auto fn : {"Floor", "Ceiling", "Truncate", "Sign", "Abs", "Conjugate", "PrimePi", "Primorial"})
            emit(std::string("num ") + fn + " (k " + c + ")", "num-constant");
    for (int i = 0; i < (th ? 400 : 80); i++) {
        // levi-civita: permutations, repeated indices, arbitrary integers
        int len = 2 + (int)r.below(4);
        std::vector<long> v;
        unsigned kind = r.below(3);
        long base = r.below(2);
        for (int j = 0; j < len; j++)
            v.push_back(base + j);
        for (int j = len - 1; j > 0; j--)
            std::swap(v[j], v[r.below(j + 1)]);
        if (kind == 1)
            v[r.below(len)] = v[r.below(len)];
        if (kind == 2)
            for (auto &e : v)
                e = r.range(-4, 6);
        std::string o = "num LeviCivita";
        for (long e : v)
            o += " " + std::to_string(e);
        emit(o, kind == 0 ? "num-LeviCivita-perm" : kind == 1 ? "num-LeviCivita-dup" : "num-LeviCivita-any");
    }
    for (int i = 0; i < (th ? 300 : 60); i++) {
        RCP<const Basic> a = rand_q(r), b = r.coin(1, 3) ? a : rand_q(r);
        emit("num KroneckerDelta " + vsexp::dump(*a) + " " + vsexp::dump(*b), "num-KroneckerDelta");
        int len = 1 + (int)r.below(5);
        vec_basic v;
        for (int j = 0; j < len; j++)
            v.push_back(rand_q(r));
        emit(std::string("num ") + (r.coin() ? "Max" : "Min") + dumps(v), "num-MaxMin");
    }
    // ---- oracle-only: everything else
    n = th ? 4000 : 700;
    for (int i = 0; i < n; i++)
      try {
        unsigned k = r.below(24);
        RCP<const Basic> x = symbol("x"), y = symbol("y");
        std::string op, tag;
        auto half = [&]() { return q_of(2 * r.range(-6, 8) + 1, 2); };
        auto posq = [&]() { return q_of(r.range(1, 12), r.range(1, 5)); };
        switch (k) {
            case 0:
                op = "ora Zeta " + std::to_string(r.range(-8, 12)) + " " + std::to_string(r.range(1, 6)), tag = "ora-Zeta-int";
                break;
            case 1:
                op = "ora Zeta " + std::to_string(r.range(-8, 12)), tag = "ora-Zeta1";
                break;
            case 2:
                op = "ora Dirichlet_eta " + std::to_string(r.range(-6, 12)), tag = "ora-Dirichlet_eta";
                break;
            case 3:
                op = "ora PolyGamma " + std::to_string(r.range(0, 4)) + " "
                     + vsexp::dump(*(r.coin() ? q_of(r.range(1, 15), r.pick(std::vector<long>{1, 2, 3, 4})) : posq())),
                tag = "ora-PolyGamma";
                break;
            case 4:
                op = "ora PolyGamma 0 " + vsexp::dump(*q_of(r.range(-9, 9), r.pick(std::vector<long>{1, 2, 3}))), tag = "ora-PolyGamma-any";
                break;
            case 5:
                op = "ora LowerGamma " + vsexp::dump(*(r.coin() ? half() : rcp_static_cast<const Basic>(integer(r.range(1, 5))))) + " "
                     + vsexp::dump(*(r.coin() ? x : posq())),
                tag = "ora-LowerGamma";
                break;
            case 6:
                op = "ora UpperGamma " + vsexp::dump(*(r.coin() ? half() : rcp_static_cast<const Basic>(integer(r.range(-2, 5))))) + " "
                     + vsexp::dump(*(r.coin() ? x : posq())),
                tag = "ora-UpperGamma";
                break;
            case 7: {
                RCP<const Basic> a = r.coin() ? half() : rcp_static_cast<const Basic>(integer(r.range(-2, 6)));
                RCP<const Basic> b = r.coin() ? half() : rcp_static_cast<const Basic>(integer(r.range(-2, 6)));
                op = "ora Beta " + vsexp::dump(*a) + " " + vsexp::dump(*b), tag = "ora-Beta";
                break;
            }
            case 8:
                op = "ora Beta " + vsexp::dump(*posq()) + " " + vsexp::dump(*posq()), tag = "ora-Beta-q";
                break;
            case 9: {
                static const char *LW[] = {"0", "(k E)", "(s x)"};
                op = std::string("ora LambertW ") + LW[r.below(3)], tag = "ora-LambertW";
                if (r.coin(1, 3))
                    op = "ora LambertW " + vsexp::dump(*div(minus_one, E));
                else if (r.coin(1, 3))
                    op = "ora LambertW " + vsexp::dump(*div(log(integer(2)), integer(-2)));
                break;
            }
            case 10:
                op = "ora LogGamma " + std::to_string(r.range(-2, 8)), tag = "ora-LogGamma";
                break;
            case 11: {
                RCP<const Basic> a = r.coin() ? rand_q(r) : rcp_static_cast<const Basic>(Complex::from_two_nums(
                                                                *rcp_static_cast<const Number>(rand_q(r)),
                                                                *rcp_static_cast<const Number>(rand_q(r, true))));
                op = "ora Log " + vsexp::dump(*a), tag = "ora-Log-num";
                break;
            }
            case 12: {
                static const char *F3[] = {"Floor", "Ceiling", "Truncate"};
                RCP<const Basic> a = add(integer(r.range(-5, 5)), mul(rand_q(r, true), r.coin(1, 4) ? rcp_static_cast<const Basic>(pi) : sym(r)));
                if (r.coin(1, 3))
                    a = add(a, mul(rand_q(r, true), symbol("y")));
                op = std::string("ora ") + F3[r.below(3)] + " " + vsexp::dump(*a), tag = "ora-floor-sum";
                break;
            }
            case 13: {
                static const char *F3[] = {"Floor", "Ceiling", "Truncate", "Sign", "Abs"};
                RCP<const Basic> in = call_fn(F3[r.below(3)], {mul(rand_q(r, true), x)});
                op = std::string("ora ") + F3[r.below(5)] + " " + vsexp::dump(*in), tag = "ora-floor-nested";
                break;
            }
            case 14: {
                RCP<const Basic> a = mul(r.coin() ? rand_q(r, true) : rcp_static_cast<const Basic>(mul(rand_q(r, true), I)),
                                         r.coin() ? x : rcp_static_cast<const Basic>(mul(x, y)));
                op = std::string("ora ") + (r.coin() ? "Sign" : "Abs") + " " + vsexp::dump(*a), tag = "ora-sign-mul";
                break;
            }
            case 15: {
                // conjugate of products, integer powers, function applications
                static const char *CF[] = {"Sin", "Cos", "Tan", "Sinh", "Cosh", "Tanh", "Gamma", "Abs", "Sign"};
                RCP<const Basic> a;
                unsigned j = r.below(4);
                if (j == 0)
                    a = mul(mul(rand_q(r, true), I), mul(x, pow(y, integer(r.range(-2, 3)))));
                else if (j == 1)
                    a = pow(add(x, I), integer(r.range(-3, 3)));
                else if (j == 2)
                    a = call_fn(CF[r.below(9)], {add(x, mul(I, y))});
                else
                    a = conjugate(add(x, I));
                op = "ora Conjugate " + vsexp::dump(*a), tag = "ora-Conjugate";
                break;
            }
            case 16: {
                // floating arguments: every one-argument function
                static const char *FL[] = {"Sin",  "Cos",   "Tan",   "Cot",   "Csc",  "Sec",     "ASin",   "ACos",
                                           "ATan", "ACot",  "ASec",  "ACsc",  "Sinh", "Cosh",    "Tanh",   "Coth",
                                           "Csch", "Sech",  "ASinh", "ACosh", "ATanh", "ACoth",  "ASech",  "ACsch",
                                           "Log",  "Exp",   "Abs",   "Sign",  "Floor", "Ceiling", "Truncate", "Gamma",
                                           "Erf",  "Erfc"};
                static const double VAL[] = {0.5, 1.5, -2.25, 3.0, 0.1, -0.75, 10.0, 0.001, -0.3, 2.5};
                std::string f = FL[r.below(34)];
                op = "ora " + f + " " + vsexp::dump(*real_double(VAL[r.below(10)])), tag = "ora-float";
                break;
            }
            case 17: {
                static const char *FL[] = {"Sin", "Cos", "Tan", "Sinh", "Cosh", "Tanh", "ASin", "ACos", "ATan", "ASinh", "Log", "Exp", "Abs", "Sign"};
                static const double VAL[] = {0.5, 1.5, -2.25, 0.1, -0.75};
                op = std::string("ora ") + FL[r.below(14)] + " "
                     + vsexp::dump(*complex_double(std::complex<double>(VAL[r.below(5)], VAL[r.below(5)]))),
                tag = "ora-cfloat";
                break;
            }
            case 18: {
                // trig of inverse trig
                std::string f = TRIG[r.below(6)], g = INV[r.below(6)];
                op = "ora " + f + " " + vsexp::dump(*call_fn(g, {r.coin() ? x : rcp_static_cast<const Basic>(q_of(r.range(1, 5), 7))})),
                tag = "ora-trig-of-inverse";
                break;
            }
            case 19: {
                vec_basic v;
                int len = 2 + (int)r.below(4);
                for (int j = 0; j < len; j++) {
                    unsigned t = r.below(6);
                    v.push_back(t == 0 ? x : t == 1 ? y : t == 2 ? rcp_static_cast<const Basic>(real_double(r.range(-4, 4) * 0.5)) : rand_q(r));
                }
                if (r.coin(1, 3))
                    v.push_back(call_fn("Max", {x, integer(r.range(-3, 3)), y}));
                op = std::string("ora ") + (r.coin() ? "Max" : "Min") + dumps(v), tag = "ora-MaxMin";
                break;
            }
            case 20: {
                RCP<const Basic> a = add(x, integer(r.range(-2, 2))), b = r.coin() ? x : rcp_static_cast<const Basic>(add(y, rand_q(r)));
                op = "ora KroneckerDelta " + vsexp::dump(*a) + " " + vsexp::dump(*b), tag = "ora-KroneckerDelta";
                break;
            }
            case 21: {
                op = "ora Exp " + vsexp::dump(*(r.coin() ? rand_q(r) : rcp_static_cast<const Basic>(mul(rand_q(r, true), r.coin() ? x : rcp_static_cast<const Basic>(log(x)))))),
                tag = "ora-Exp";
                break;
            }
            case 22: {
                static const char *H[] = {"ASinh", "ACsch", "ACosh", "ATanh", "ACoth", "ASech", "Erf", "Erfc"};
                op = std::string("ora ") + H[r.below(8)] + " " + vsexp::dump(*rand_q(r)), tag = "ora-hyp-num";
                break;
            }
            default: {
                RCP<const Basic> a = q_of(r.range(-40, 40), r.pick(std::vector<long>{1, 2, 3, 4, 5}));
                op = "ora Gamma " + vsexp::dump(*a), tag = "ora-Gamma";
                break;
            }
        }
        emit(op, tag);
      } catch (std::exception &) {
        // a constructor used to *build* an operand raised (assertion / domain): not an op of this property
      }
}
