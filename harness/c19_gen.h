// Shared by harness/c19.cpp and harness/c20.cpp: allocation cap, hex helpers, a structural S-expression
// builder with optional maximal sharing, a random generator of real expressions over the serialisable
// classes, the pointer-sharing oracle and a tiny writer for hand-made streams.
#ifndef VERIF_C19_GEN_H
#define VERIF_C19_GEN_H
#include "common.h"
#include "sexp.h"
#include <symengine/visitor.h>
#include <symengine/matrix.h>
#include <symengine/eval_double.h>
#include <new>
#include <set>
#include <unistd.h>
#include <csetjmp>
#include <csignal>
#include <sys/personality.h>
#include <fstream>

// ---- memory guard -------------------------------------------------------------------------------
// A hostile length prefix makes cereal resize() a std::string / std::vector before reading the
// payload.  Every single allocation above HX_ALLOC_CAP fails with std::bad_alloc (a host with
// little memory); the Lean model (`Cfg.cap`, CodecDrv.harnessCap) uses the same number.
static const size_t HX_ALLOC_CAP = size_t(1) << 24;
void *operator new(size_t n)
{
    if (n > HX_ALLOC_CAP)
        throw std::bad_alloc();
    void *p = malloc(n ? n : 1);
    if (!p)
        throw std::bad_alloc();
    return p;
}
void *operator new[](size_t n)
{
    return operator new(n);
}
void operator delete(void *p) noexcept
{
    free(p);
}
void operator delete[](void *p) noexcept
{
    free(p);
}
void operator delete(void *p, size_t) noexcept
{
    free(p);
}
void operator delete[](void *p, size_t) noexcept
{
    free(p);
}

namespace c19
{
using namespace SymEngine;

// The generated op lines contain real dumps, i.e. real heap addresses.  To make `hx gen <seed>` reproducible the
// generator re-executes itself once with address-space randomisation switched off.
inline void fix_aslr()
{
    int p = personality(0xffffffff);
    if (p == -1 || (p & ADDR_NO_RANDOMIZE) || getenv("HX_NO_REEXEC"))
        return;
    if (personality(p | ADDR_NO_RANDOMIZE) == -1)
        return;
    std::ifstream f("/proc/self/cmdline", std::ios::binary);
    std::string all((std::istreambuf_iterator<char>(f)), std::istreambuf_iterator<char>());
    std::vector<std::string> args;
    size_t i = 0;
    while (i < all.size()) {
        size_t j = all.find('\0', i);
        if (j == std::string::npos)
            j = all.size();
        args.push_back(all.substr(i, j - i));
        i = j + 1;
    }
    if (args.empty())
        return;
    std::vector<char *> argv;
    for (auto &a : args)
        argv.push_back(const_cast<char *>(a.c_str()));
    argv.push_back(nullptr);
    setenv("HX_NO_REEXEC", "1", 1);
    execv("/proc/self/exe", argv.data());
}

inline std::string tohex(const std::string &b)
{
    static const char *d = "0123456789abcdef";
    std::string o;
    o.reserve(b.size() * 2);
    for (unsigned char c : b) {
        o.push_back(d[c >> 4]);
        o.push_back(d[c & 15]);
    }
    return o;
}
inline std::string unhex(const std::string &h)
{
    std::string o;
    auto v = [](char c) { return c <= '9' ? c - '0' : c - 'a' + 10; };
    for (size_t i = 0; i + 1 < h.size(); i += 2)
        o.push_back((char)(v(h[i]) * 16 + v(h[i + 1])));
    return o;
}

// ---- structural builder (vsexp::build plus Dummy, Piecewise, Complement, ImageSet, ConditionSet;
//      with `memo` equal subtrees become ONE object: maximal sharing) --------------------------------
typedef std::map<std::string, RCP<const Basic>> Memo;

inline std::string node_str(const vsexp::Node &n)
{
    if (n.kids.empty())
        return n.atom;
    std::string o = "(";
    for (size_t i = 0; i < n.kids.size(); i++)
        o += (i ? " " : "") + node_str(n.kids[i]);
    return o + ")";
}

inline RCP<const Basic> xbuild(const vsexp::Node &n, Memo *memo);

inline RCP<const Basic> xbuild1(const vsexp::Node &n, Memo *memo)
{
    using namespace vsexp;
    if (n.kids.empty())
        return build(n);
    const std::string &hd = n.kids[0].atom;
    if (hd == "C" || hd == "D" || hd == "CD" || hd == "s" || hd == "k")
        return build(n);
    if (hd == "d")
        return dummy(n.kids.at(1).atom, std::stoull(n.kids.at(2).atom));
    auto num = [&](const Node &k) {
        RCP<const Basic> b = xbuild(k, memo);
        if (!is_a_Number(*b))
            throw std::runtime_error("sexp: number expected");
        return rcp_static_cast<const Number>(b);
    };
    if (hd == "oo")
        return Infty::from_direction(num(n.kids.at(1)));
    if (hd == "+") {
        umap_basic_num d;
        for (size_t k = 2; k < n.kids.size(); k++)
            d[xbuild(n.kids[k].kids.at(0), memo)] = num(n.kids[k].kids.at(1));
        return Add::from_dict(num(n.kids.at(1)), std::move(d));
    }
    if (hd == "*") {
        map_basic_basic d;
        for (size_t k = 2; k < n.kids.size(); k++)
            d[xbuild(n.kids[k].kids.at(0), memo)] = xbuild(n.kids[k].kids.at(1), memo);
        return Mul::from_dict(num(n.kids.at(1)), std::move(d));
    }
    if (hd == "^")
        return make_rcp<const Pow>(xbuild(n.kids.at(1), memo), xbuild(n.kids.at(2), memo));
    vec_basic v;
    size_t first = hd == "F" ? 2 : 1;
    for (size_t k = first; k < n.kids.size(); k++)
        v.push_back(xbuild(n.kids[k], memo));
    if (hd == "F")
        return function_symbol(n.kids.at(1).atom, v);
    if (hd == "Piecewise") {
        PiecewiseVec pv;
        for (size_t k = 0; k + 1 < v.size(); k += 2)
            pv.push_back({v[k], as_bool(v[k + 1])});
        return make_rcp<const Piecewise>(std::move(pv));
    }
    if (hd == "Complement")
        return make_rcp<const Complement>(as_set(v.at(0)), as_set(v.at(1)));
    if (hd == "ImageSet")
        return make_rcp<const ImageSet>(v.at(0), v.at(1), as_set(v.at(2)));
    if (hd == "ConditionSet")
        return make_rcp<const ConditionSet>(v.at(0), as_bool(v.at(1)));
    if (hd == "Derivative") {
        multiset_basic ms;
        for (size_t k = 1; k < v.size(); k++)
            ms.insert(v[k]);
        return make_rcp<const Derivative>(v.at(0), ms);
    }
    return build_named(hd, v);
}

inline RCP<const Basic> xbuild(const vsexp::Node &n, Memo *memo)
{
    if (!memo)
        return xbuild1(n, memo);
    std::string key = node_str(n);
    auto it = memo->find(key);
    if (it != memo->end())
        return it->second;
    RCP<const Basic> b = xbuild1(n, memo);
    (*memo)[key] = b;
    return b;
}

inline RCP<const Basic> xparse(const std::string &s, bool share)
{
    size_t i = 0;
    vsexp::Node n = vsexp::parse_node(s, i);
    Memo m;
    return xbuild(n, share ? &m : nullptr);
}

// ---- pointer-sharing oracle: a -> b must be a function on object addresses ----------------------
struct ShareCheck {
    std::map<const Basic *, const Basic *> m;
    std::vector<RCP<const Basic>> keep;
    std::string fail;
    long shared = 0;
    void walk(const RCP<const Basic> &a, const RCP<const Basic> &b)
    {
        if (!fail.empty())
            return;
        auto it = m.find(a.get());
        if (it != m.end()) {
            shared++;
            if (it->second != b.get())
                fail = "object " + vsexp::dump(a) + " was one object before dumps and is two after loads";
            return;
        }
        m[a.get()] = b.get();
        if (a->get_type_code() != b->get_type_code()) {
            fail = "type differs";
            return;
        }
        if (is_a<Add>(*a)) {
            const Add &x = down_cast<const Add &>(*a), &y = down_cast<const Add &>(*b);
            walk(x.get_coef(), y.get_coef());
            for (auto &p : x.get_dict()) {
                auto q = y.get_dict().find(p.first);
                if (q == y.get_dict().end()) {
                    fail = "Add key lost";
                    return;
                }
                walk(p.first, q->first);
                walk(p.second, q->second);
            }
        } else if (is_a<Mul>(*a)) {
            const Mul &x = down_cast<const Mul &>(*a), &y = down_cast<const Mul &>(*b);
            walk(x.get_coef(), y.get_coef());
            for (auto &p : x.get_dict()) {
                auto q = y.get_dict().find(p.first);
                if (q == y.get_dict().end()) {
                    fail = "Mul key lost";
                    return;
                }
                walk(p.first, q->first);
                walk(p.second, q->second);
            }
        } else if (is_a<Pow>(*a)) {
            walk(down_cast<const Pow &>(*a).get_base(), down_cast<const Pow &>(*b).get_base());
            walk(down_cast<const Pow &>(*a).get_exp(), down_cast<const Pow &>(*b).get_exp());
        } else if (is_a<Infty>(*a)) {
            walk(down_cast<const Infty &>(*a).get_direction(), down_cast<const Infty &>(*b).get_direction());
        } else if (is_a<Interval>(*a) || is_a_Number(*a)) {
            // get_args() of these returns temporaries / singletons
        } else {
            vec_basic u = a->get_args(), v = b->get_args();
            if (u.size() != v.size()) {
                fail = "arity differs";
                return;
            }
            for (size_t i = 0; i < u.size(); i++)
                walk(u[i], v[i]);
        }
    }
};

inline bool has_nan_double(const Basic &b)
{
    if (is_a<RealDouble>(b))
        return std::isnan(down_cast<const RealDouble &>(b).i);
    if (is_a<ComplexDouble>(b)) {
        auto z = down_cast<const ComplexDouble &>(b).i;
        return std::isnan(z.real()) || std::isnan(z.imag());
    }
    if (is_a<Add>(b)) {
        const Add &x = down_cast<const Add &>(b);
        if (has_nan_double(*x.get_coef()))
            return true;
        for (auto &p : x.get_dict())
            if (has_nan_double(*p.first) || has_nan_double(*p.second))
                return true;
        return false;
    }
    if (is_a<Mul>(b)) {
        const Mul &x = down_cast<const Mul &>(b);
        if (has_nan_double(*x.get_coef()))
            return true;
        for (auto &p : x.get_dict())
            if (has_nan_double(*p.first) || has_nan_double(*p.second))
                return true;
        return false;
    }
    for (auto &a : b.get_args())
        if (has_nan_double(*a))
            return true;
    return false;
}

// ---- random real expressions over the serialisable classes --------------------------------------
struct ExprGen {
    Rng &r;
    explicit ExprGen(Rng &rr) : r(rr) {}
    double dbl()
    {
        static const uint64_t special[] = {0x0000000000000000ULL, 0x8000000000000000ULL, 0x3ff0000000000000ULL,
                                           0xbff0000000000000ULL, 0x7ff0000000000000ULL, 0xfff0000000000000ULL,
                                           0x7ff8000000000000ULL, 0x7ff8000000000123ULL, 0x7ff0000000000001ULL,
                                           0x0000000000000001ULL, 0x000fffffffffffffULL, 0x8000000000000001ULL,
                                           0x7fefffffffffffffULL, 0x3fb999999999999aULL, 0x400921fb54442d18ULL};
        uint64_t u = r.coin(1, 3) ? special[r.below(sizeof special / sizeof special[0])] : r.next();
        double d;
        memcpy(&d, &u, 8);
        return d;
    }
    RCP<const Integer> integer_()
    {
        unsigned k = r.below(10);
        if (k < 6)
            return integer(r.range(-9, 9));
        if (k < 8)
            return integer(r.range(-1000000, 1000000));
        std::string s = r.coin() ? "-" : "";
        s += char('1' + r.below(9));
        int n = 15 + (int)r.below(40);
        for (int i = 0; i < n; i++)
            s += char('0' + r.below(10));
        return integer(integer_class(s));
    }
    RCP<const Number> rational_()
    {
        RCP<const Integer> n = integer_(), d = integer_();
        if (d->is_zero())
            d = integer(7);
        return Rational::from_two_ints(*n, *d);
    }
    RCP<const Number> exact_real()
    {
        return r.coin() ? rcp_static_cast<const Number>(integer_()) : rational_();
    }
    RCP<const Number> number(bool allow_float = true)
    {
        unsigned k = r.below(allow_float ? 14 : 8);
        if (k < 4)
            return integer_();
        if (k < 6)
            return rational_();
        if (k < 8)
            return Complex::from_two_nums(*exact_real(), *exact_real());
        if (k < 11)
            return real_double(dbl());
        if (k < 13)
            return complex_double(std::complex<double>(dbl(), dbl()));
        switch (r.below(4)) {
            case 0:
                return Inf;
            case 1:
                return NegInf;
            case 2:
                return ComplexInf;
            default:
                return Nan;
        }
    }
    RCP<const Basic> symbol_()
    {
        static const char *names[] = {"x", "y", "z", "t", "alpha", "x_1", "a_very_long_symbol_name_0123456789"};
        unsigned k = r.below(10);
        if (k < 8)
            return symbol(names[r.below(7)]);
        if (k < 9)
            return dummy("d", 1 + r.below(50));
        std::string s;
        int n = 1 + (int)r.below(40);
        for (int i = 0; i < n; i++) {
            char c;
            do
                c = char(33 + r.below(94));
            while (c == '(' || c == ')');
            s += c;
        }
        return symbol(s);
    }
    RCP<const Basic> atom()
    {
        unsigned k = r.below(10);
        if (k < 5)
            return symbol_();
        if (k < 8)
            return number();
        switch (r.below(5)) {
            case 0:
                return pi;
            case 1:
                return E;
            case 2:
                return EulerGamma;
            case 3:
                return Catalan;
            default:
                return GoldenRatio;
        }
    }
    RCP<const Basic> onearg(const RCP<const Basic> &a)
    {
        switch (r.below(40)) {
            case 0: return sin(a);
            case 1: return cos(a);
            case 2: return tan(a);
            case 3: return cot(a);
            case 4: return csc(a);
            case 5: return sec(a);
            case 6: return asin(a);
            case 7: return acos(a);
            case 8: return asec(a);
            case 9: return acsc(a);
            case 10: return atan(a);
            case 11: return acot(a);
            case 12: return sinh(a);
            case 13: return csch(a);
            case 14: return cosh(a);
            case 15: return sech(a);
            case 16: return tanh(a);
            case 17: return coth(a);
            case 18: return asinh(a);
            case 19: return acsch(a);
            case 20: return acosh(a);
            case 21: return atanh(a);
            case 22: return acoth(a);
            case 23: return asech(a);
            case 24: return log(a);
            case 25: return abs(a);
            case 26: return sign(a);
            case 27: return floor(a);
            case 28: return ceiling(a);
            case 29: return truncate(a);
            case 30: return conjugate(a);
            case 31: return gamma(a);
            case 32: return loggamma(a);
            case 33: return erf(a);
            case 34: return erfc(a);
            case 35: return lambertw(a);
            case 36: return dirichlet_eta(a);
            case 37: return primepi(a);
            case 38: return primorial(a);
            default: return unevaluated_expr(a);
        }
    }
    RCP<const Basic> twoarg(const RCP<const Basic> &a, const RCP<const Basic> &b)
    {
        switch (r.below(7)) {
            case 0: return atan2(a, b);
            case 1: return zeta(a, b);
            case 2: return kronecker_delta(a, b);
            case 3: return polygamma(a, b);
            case 4: return lowergamma(a, b);
            case 5: return uppergamma(a, b);
            default: return beta(a, b);
        }
    }
    // symbolic (no floating point inside: keeps the known evaluation defects out of the generator)
    RCP<const Basic> sym_expr(int d)
    {
        if (d <= 0) {
            if (r.coin(2, 3))
                return symbol_();
            // small exact numbers only: gamma / primorial / zeta ... of a 40-digit integer never return
            if (r.coin())
                return integer(r.range(-9, 9));
            return Rational::from_two_ints(*integer(r.range(-9, 9)), *integer(r.range(1, 9)));
        }
        switch (r.below(12)) {
            case 0:
            case 1:
                return add(sym_expr(d - 1), sym_expr(d - 1));
            case 2:
            case 3:
                return mul(sym_expr(d - 1), sym_expr(d - 1));
            case 4:
                return pow(symbol_(), sym_expr(d - 1));
            case 5:
                return pow(add(symbol_(), sym_expr(d - 1)), rational_());
            case 6:
            case 7:
                return onearg(sym_expr(d - 1));
            case 8:
                return twoarg(sym_expr(d - 1), sym_expr(d - 1));
            case 9: {
                vec_basic v;
                int n = 1 + (int)r.below(4);
                for (int i = 0; i < n; i++)
                    v.push_back(sym_expr(d - 1));
                return function_symbol(r.coin() ? "f" : "g_2", v);
            }
            case 10: {
                vec_basic v;
                int n = 2 + (int)r.below(3);
                for (int i = 0; i < n; i++)
                    v.push_back(sym_expr(d - 1));
                unsigned k = r.below(3);
                return k == 0 ? max(v) : k == 1 ? min(v) : levi_civita(v);
            }
            default:
                return atom();
        }
    }
    RCP<const Boolean> boolean_(int d)
    {
        unsigned k = r.below(d <= 0 ? 6 : 11);
        switch (k) {
            case 0:
                return r.coin() ? boolTrue : boolFalse;
            case 1:
                return Eq(sym_expr(1), sym_expr(1));
            case 2:
                return Ne(sym_expr(1), sym_expr(1));
            case 3:
                return Le(sym_expr(1), symbol_());
            case 4:
                return Lt(symbol_(), sym_expr(1));
            case 5:
                return contains(symbol_(), set_(0));
            case 6:
                return logical_and({boolean_(d - 1), boolean_(d - 1), boolean_(d - 1)});
            case 7:
                return logical_or({boolean_(d - 1), boolean_(d - 1)});
            case 8:
                return logical_xor({boolean_(d - 1), boolean_(d - 1), boolean_(d - 1)});
            case 9:
                return logical_not(boolean_(d - 1));
            default:
                return Lt(sym_expr(1), sym_expr(1));
        }
    }
    RCP<const Set> set_(int d)
    {
        unsigned k = r.below(d <= 0 ? 8 : 13);
        switch (k) {
            case 0:
                return emptyset();
            case 1:
                return universalset();
            case 2:
                return reals();
            case 3:
                return rationals();
            case 4:
                return integers();
            case 5:
            case 6: {
                RCP<const Number> a = exact_real(), b = exact_real();
                if (eq(*a, *b))
                    b = addnum(b, one);
                if (!a->sub(*b)->is_negative())
                    std::swap(a, b);
                return interval(a, b, r.coin(), r.coin());
            }
            case 7: {
                set_basic s;
                int n = 1 + (int)r.below(4);
                for (int i = 0; i < n; i++)
                    s.insert(r.coin() ? sym_expr(0) : rcp_static_cast<const Basic>(exact_real()));
                return finiteset(s);
            }
            // built structurally: set_union / set_complement / imageset simplify recursively and do not
            // terminate for some operands (Rationals::set_union <-> set_union(set_set) recursion)
            case 8: {
                RCP<const Set> a = interval(integer(r.range(-9, 0)), integer(r.range(1, 9)), r.coin(), r.coin());
                RCP<const Set> b = finiteset({symbol_(), symbol("q")});
                return make_rcp<const Union>(set_set{a, b});
            }
            case 9:
                return make_rcp<const Complement>(r.coin() ? rcp_static_cast<const Set>(reals()) : rcp_static_cast<const Set>(integers()),
                                                  finiteset({symbol_(), integer(r.range(0, 5))}));
            case 10:
                return make_rcp<const ImageSet>(symbol("x"), add(mul(integer(2), symbol("x")), sym_expr(0)),
                                                r.coin() ? rcp_static_cast<const Set>(integers()) : rcp_static_cast<const Set>(reals()));
            case 11:
                return make_rcp<const ConditionSet>(symbol("x"), Lt(symbol("x"), sym_expr(0)));
            default:
                return make_rcp<const Complement>(reals(), finiteset({symbol_(), symbol_()}));
        }
    }
    RCP<const Basic> misc(int d)
    {
        switch (r.below(5)) {
            case 0: {
                PiecewiseVec pv;
                int n = 1 + (int)r.below(3);
                for (int i = 0; i < n; i++)
                    pv.push_back({sym_expr(d - 1), boolean_(1)});
                pv.push_back({sym_expr(0), boolTrue});
                return piecewise(pv);
            }
            case 1: {
                RCP<const Basic> x = symbol("x");
                RCP<const Basic> f = function_symbol("f", {x, symbol("y")});
                multiset_basic ms;
                int n = 1 + (int)r.below(3);
                for (int i = 0; i < n; i++)
                    ms.insert(x);
                return Derivative::create(f, ms);
            }
            case 2: {
                RCP<const Basic> x = symbol("x");
                RCP<const Basic> f = function_symbol("f", add(x, one));
                map_basic_basic m;
                m[x] = sym_expr(d - 1);
                return make_rcp<const Subs>(Derivative::create(f, {x}), m);
            }
            case 3:
                return boolean_(d);
            default:
                return set_(d);
        }
    }
    // ---- several non-real numbers in ONE object graph -------------------------------------------------
    // Complex::real_part()/imaginary_part() and ComplexDouble's hand *temporary* Rational / RealDouble objects to
    // the archive; so do Rational::get_num()/get_den().  Whether the archive keeps every temporary alive (so that
    // no address is reused while dumps runs) only shows with two or more such numbers in one stream.
    RCP<const Number> gauss_rational()
    {
        // a/b + (c/d) I with b, d >= 2 and gcd 1: both parts are Rational objects
        static const long dens[] = {2, 3, 4, 5, 6, 7, 8, 9, 11, 13};
        auto part = [&]() {
            long d = dens[r.below(10)], n;
            do
                n = r.range(-40, 40);
            while (n == 0 || std::abs(n) % d == 0 || (d % 2 == 0 && n % 2 == 0) || (d % 3 == 0 && n % 3 == 0));
            return Rational::from_two_ints(n, d);
        };
        return Complex::from_two_nums(*part(), *part());
    }
    RCP<const Number> nonreal(unsigned kind)
    {
        if (kind == 0)
            return gauss_rational();
        if (kind == 1)
            return complex_double(std::complex<double>(dbl(), dbl()));
        return r.coin() ? gauss_rational() : rcp_static_cast<const Number>(complex_double(std::complex<double>(dbl(), dbl())));
    }
    // `kind`: 0 Gaussian rationals, 1 ComplexDoubles, 2 mixed; `shape` selects where the numbers sit
    RCP<const Basic> multi_complex(unsigned kind, unsigned shape)
    {
        static const char *names[] = {"x", "y", "z", "t", "u", "v"};
        int k = 2 + (int)r.below(4);
        vec_basic nums;
        for (int i = 0; i < k; i++)
            nums.push_back(nonreal(kind));
        switch (shape % 7) {
            case 0: { // coefficients of a sum (and its constant term)
                RCP<const Basic> e = nonreal(kind);
                for (int i = 0; i < k; i++)
                    e = add(e, mul(nums[i], symbol(names[i])));
                return e;
            }
            case 1: { // exponents of a product, and its coefficient
                RCP<const Basic> e = nonreal(kind);
                for (int i = 0; i < k; i++)
                    e = mul(e, pow(symbol(names[i]), nums[i]));
                return e;
            }
            case 2: // function arguments
                return function_symbol("g", nums);
            case 3: { // set elements
                set_basic sb(nums.begin(), nums.end());
                return finiteset(sb);
            }
            case 4: { // nested: function of sums
                vec_basic a;
                for (int i = 0; i + 1 < k; i++)
                    a.push_back(add(mul(nums[i], symbol(names[i])), nums[i + 1]));
                return function_symbol("h", a);
            }
            case 5: // powers with non-real base and exponent, relational
                return Eq(pow(add(symbol("x"), nums[0]), nums[1]), mul(nums[k - 1], symbol("y")));
            default: { // plain Rationals next to each other (get_num/get_den temporaries)
                vec_basic a;
                for (int i = 0; i < k; i++)
                    a.push_back(Rational::from_two_ints(*integer(2 * r.range(1, 30) + 1), *integer(2 << r.below(5))));
                a.push_back(nums[0]);
                return function_symbol("q", a);
            }
        }
    }

    // The public API is called on random operands: a call that recurses without bound or does not return
    // (defects outside C19/C20) must not take the generator down.  SIGSEGV (on an alternate stack) and
    // SIGALRM abandon the expression under construction and the generator tries another one.
    static sigjmp_buf &jb()
    {
        static sigjmp_buf b;
        return b;
    }
    static void on_sig(int)
    {
        siglongjmp(jb(), 1);
    }
    static void install_guard()
    {
        static bool done = false;
        if (done)
            return;
        done = true;
        static char altstack[1 << 16];
        stack_t ss;
        ss.ss_sp = altstack;
        ss.ss_size = sizeof altstack;
        ss.ss_flags = 0;
        sigaltstack(&ss, nullptr);
        struct sigaction sa;
        memset(&sa, 0, sizeof sa);
        sa.sa_handler = on_sig;
        sa.sa_flags = SA_ONSTACK | SA_NODEFER;
        sigaction(SIGSEGV, &sa, nullptr);
        sigaction(SIGALRM, &sa, nullptr);
        sigaction(SIGABRT, &sa, nullptr); // "gmp: overflow in mpz type" aborts
        sigaction(SIGFPE, &sa, nullptr);  // integer division by zero inside the library
    }
    // anything serialisable
    RCP<const Basic> any(int d)
    {
        install_guard();
        for (int tries = 0; tries < 50; tries++) {
            if (sigsetjmp(jb(), 1) != 0) {
                alarm(0);
                stat("gen_abandoned");
                continue;
            }
            alarm(20);
            struct Disarm {
                ~Disarm()
                {
                    alarm(0);
                }
            } disarm;
            try {
                unsigned k = r.below(12);
                RCP<const Basic> e;
                if (k < 6)
                    e = sym_expr(d);
                else if (k < 8)
                    e = atom();
                else if (k < 9)
                    e = add(mul(number(), symbol_()), add(sym_expr(d - 1), number())); // floats / big numbers in a sum
                else if (k < 10)
                    e = mul(number(), mul(symbol_(), pow(symbol_(), number(false))));
                else
                    e = misc(d);
                e->dumps(); // serialisable?
                return e;
            } catch (const std::exception &) {
            }
        }
        return symbol("x");
    }
};

// ---- writer for hand-made streams -----------------------------------------------------------------
struct SB {
    uint64_t ctr = 0x5555000000001000ULL;
    static std::string u64(uint64_t v)
    {
        std::string o(8, '\0');
        for (int i = 0; i < 8; i++)
            o[i] = char((v >> (8 * i)) & 255);
        return o;
    }
    static std::string str(const std::string &s)
    {
        return u64(s.size()) + s;
    }
    static std::string hdr()
    {
        return std::string("\x01", 1) + std::string(1, char(SYMENGINE_MAJOR_VERSION)) + std::string(1, '\0')
               + std::string(1, char(SYMENGINE_MINOR_VERSION)) + std::string(1, '\0');
    }
    std::string node(int tc, const std::string &payload, uint64_t addr = 0)
    {
        if (!addr) {
            ctr += 0x10;
            addr = ctr;
        }
        return u64(addr) + std::string(1, '\x01') + std::string(1, char(tc)) + payload;
    }
    static std::string ref(uint64_t addr)
    {
        return u64(addr) + std::string(1, '\0');
    }
    std::string I(const std::string &digits)
    {
        return node(SYMENGINE_INTEGER, str(digits));
    }
    std::string I(long n)
    {
        return I(std::to_string(n));
    }
    std::string S(const std::string &name, uint64_t addr = 0)
    {
        return node(SYMENGINE_SYMBOL, str(name), addr);
    }
    std::string D(uint64_t bits)
    {
        return node(SYMENGINE_REAL_DOUBLE, u64(bits));
    }
    std::string R(long n, long d)
    {
        return node(SYMENGINE_RATIONAL, I(n) + I(d));
    }
    std::string dict(int tc, const std::string &coef, const std::vector<std::pair<std::string, std::string>> &ps)
    {
        std::string p = coef + u64(ps.size());
        for (auto &kv : ps)
            p += kv.first + kv.second;
        return node(tc, p);
    }
    std::string vec(const std::vector<std::string> &v)
    {
        std::string p = u64(v.size());
        for (auto &x : v)
            p += x;
        return p;
    }
};

} // namespace c19
#endif
