// Force-included (g++ -include) into every translation unit of the library
// when the verification machinery builds /repo's working tree.  It relies on
// the `#if !defined(SYMENGINE_ASSERT)` escape hatch that symengine_assert.h
// already offers, so no source change in /repo is required: a failed
// SYMENGINE_ASSERT throws SymEngine::VerifAssertError instead of abort()ing,
// which lets one harness process attribute the failed canonical-form check to
// the operation that caused it and carry on.
#ifndef SYMENGINE_VERIF_HOOKS_H
#define SYMENGINE_VERIF_HOOKS_H
#if defined(__cplusplus) && defined(SYMENGINE_VERIF_HOOKS)
#include <stdexcept>
#include <string>
namespace SymEngine
{
class VerifAssertError : public std::logic_error
{
public:
    explicit VerifAssertError(const std::string &w) : std::logic_error(w) {}
};
} // namespace SymEngine
#define SYMENGINE_VERIF_STR2(s) #s
#define SYMENGINE_VERIF_STR(s) SYMENGINE_VERIF_STR2(s)
#define SYMENGINE_ASSERT(cond)                                                 \
    {                                                                          \
        if (!(cond)) {                                                         \
            throw SymEngine::VerifAssertError(                                 \
                std::string(__FILE__) + ":" + SYMENGINE_VERIF_STR(__LINE__)    \
                + ": " + #cond);                                               \
        }                                                                      \
    }
#define SYMENGINE_ASSERT_MSG(cond, msg) SYMENGINE_ASSERT(cond)
#endif
#endif
