// C44: the alternative printers (LaTeX, MathML, Unicode, Julia, SBML) are total and well-formed.
//
// Op lines:
//   pr <printer> <e>    <printer> in latex|mathml|unicode|julia|sbml, <e> a canonical S-expression dump (sexp.h).
//                       output: the printed text (newline -> "\n", backslash -> "\\" only for unicode), or the
//                       exception token E:...
//   cat <k>             catalogue item k (classes the wire format cannot carry: polynomials, series, matrices,
//                       tuples, ...): output `name|latex=<st>|mathml=<st>|unicode=<st>|julia=<st>|sbml=<st>`
//                       with <st> = ok or the exception token
// Oracles (independent of the Lean side):
//   total       a printer may only fail with the documented exception: NotImplementedError, or (MathML)
//               SymEngineException("Error: not supported"); anything else (assertion, std::exception, crash) fails
//   mathml      strict XML well-formedness of the real output (own recursive-descent checker below)
//   latex       balanced { } groups, matched \left / \right with a valid delimiter, matched \begin / \end
//   unicode     all lines of the box have the same display width
//   sbml        parse_sbml(sbml(e)) is eq to e (doubles: after rounding to 15 digits) on the SBML fragment
#include "exprgen.h"
#include <symengine/printers.h>
#include <symengine/parser.h>
#include <symengine/parser/sbml/sbml_parser.h>
#include <symengine/real_double.h>
#include <symengine/complex_double.h>
#include <symengine/polys/uintpoly.h>
#include <symengine/polys/uratpoly.h>
#include <symengine/polys/uexprpoly.h>
#include <symengine/polys/msymenginepoly.h>
#include <symengine/fields.h>
#include <symengine/series_generic.h>
#include <symengine/matrices/identity_matrix.h>
#include <symengine/matrices/zero_matrix.h>
#include <symengine/matrices/diagonal_matrix.h>
#include <symengine/matrices/immutable_dense_matrix.h>
#include <symengine/matrices/matrix_symbol.h>
#include <symengine/matrices/matrix_add.h>
#include <symengine/matrices/matrix_mul.h>
#include <symengine/matrices/hadamard_product.h>
#include <symengine/matrices/trace.h>
#include <symengine/matrices/transpose.h>
#include <symengine/matrices/conjugate_matrix.h>
#include <symengine/tuple.h>
#include <symengine/ntheory_funcs.h>
#include <cmath>
#include <functional>

using namespace SymEngine;

// ------------------------------------------------------------------ XML well-formedness (strict subset of XML 1.0)
struct Xml {
    const std::string &s;
    size_t i = 0;
    std::string err;
    explicit Xml(const std::string &str) : s(str) {}
    static bool name_start(unsigned char c)
    {
        return isalpha(c) || c == '_' || c == ':' || c >= 0x80;
    }
    static bool name_char(unsigned char c)
    {
        return name_start(c) || isdigit(c) || c == '-' || c == '.';
    }
    bool fail(const std::string &m)
    {
        if (err.empty())
            err = m + " at offset " + std::to_string(i);
        return false;
    }
    bool name(std::string &out)
    {
        size_t j = i;
        if (j >= s.size() || !name_start((unsigned char)s[j]))
            return fail("name expected");
        while (j < s.size() && name_char((unsigned char)s[j]))
            j++;
        out = s.substr(i, j - i);
        i = j;
        return true;
    }
    void ws()
    {
        while (i < s.size() && (s[i] == ' ' || s[i] == '\t' || s[i] == '\n' || s[i] == '\r'))
            i++;
    }
    bool reference()
    { // after '&'
        size_t j = s.find(';', i);
        if (j == std::string::npos || j == i)
            return fail("unterminated entity reference");
        std::string r = s.substr(i, j - i);
        bool ok = r == "amp" || r == "lt" || r == "gt" || r == "quot" || r == "apos";
        if (!ok && r[0] == '#') {
            ok = r.size() > 1;
            bool hex = r.size() > 2 && r[1] == 'x';
            for (size_t k = hex ? 2 : 1; k < r.size(); k++)
                ok = ok && (hex ? isxdigit((unsigned char)r[k]) : isdigit((unsigned char)r[k]));
        }
        if (!ok)
            return fail("unknown entity &" + r + ";");
        i = j + 1;
        return true;
    }
    bool element(int depth)
    {
        if (depth > 5000)
            return fail("nesting too deep");
        if (i >= s.size() || s[i] != '<')
            return fail("'<' expected");
        i++;
        std::string nm;
        if (!name(nm))
            return false;
        std::vector<std::string> seen;
        while (true) {
            size_t before = i;
            ws();
            if (i < s.size() && s[i] == '/') {
                if (i + 1 < s.size() && s[i + 1] == '>') {
                    i += 2;
                    return true;
                }
                return fail("'/>' expected");
            }
            if (i < s.size() && s[i] == '>') {
                i++;
                break;
            }
            if (before == i)
                return fail("whitespace expected before attribute");
            std::string an;
            if (!name(an))
                return false;
            if (std::find(seen.begin(), seen.end(), an) != seen.end())
                return fail("duplicate attribute " + an);
            seen.push_back(an);
            ws();
            if (i >= s.size() || s[i] != '=')
                return fail("'=' expected");
            i++;
            ws();
            if (i >= s.size() || (s[i] != '"' && s[i] != '\''))
                return fail("quoted attribute value expected");
            char q = s[i++];
            while (i < s.size() && s[i] != q) {
                if (s[i] == '<')
                    return fail("'<' in attribute value");
                if (s[i] == '&') {
                    i++;
                    if (!reference())
                        return false;
                } else
                    i++;
            }
            if (i >= s.size())
                return fail("unterminated attribute value");
            i++;
        }
        // content
        while (true) {
            if (i >= s.size())
                return fail("unterminated element <" + nm + ">");
            if (s[i] == '<') {
                if (i + 1 < s.size() && s[i + 1] == '/') {
                    i += 2;
                    std::string en;
                    if (!name(en))
                        return false;
                    if (en != nm)
                        return fail("end tag </" + en + "> does not match <" + nm + ">");
                    ws();
                    if (i >= s.size() || s[i] != '>')
                        return fail("'>' expected in end tag");
                    i++;
                    return true;
                }
                if (!element(depth + 1))
                    return false;
            } else if (s[i] == '&') {
                i++;
                if (!reference())
                    return false;
            } else if (s[i] == '>' && i >= 2 && s[i - 1] == ']' && s[i - 2] == ']') {
                return fail("']]>' in character data");
            } else
                i++;
        }
    }
    bool document()
    {
        ws();
        if (!element(0))
            return false;
        ws();
        if (i != s.size())
            return fail("content after the root element");
        return true;
    }
};

// ------------------------------------------------------------------ LaTeX groups
static std::string latex_check(const std::string &s)
{
    std::vector<std::string> st; // "{", "left", "begin:<env>"
    static const char *delims[] = {"(", ")", "[", "]", "|", ".", "/", "<", ">", "\\{", "\\}", "\\|",
                                   "\\langle", "\\rangle", "\\lfloor", "\\rfloor", "\\lceil", "\\rceil",
                                   "\\vert", "\\Vert", "\\backslash", "\\uparrow", "\\downarrow"};
    auto delim_at = [&](size_t k) -> size_t {
        while (k < s.size() && s[k] == ' ')
            k++;
        size_t best = 0;
        for (const char *d : delims) {
            size_t n = strlen(d);
            if (s.compare(k, n, d) == 0 && n > best) {
                if (d[0] == '\\' && isalpha((unsigned char)d[1]) && k + n < s.size() && isalpha((unsigned char)s[k + n]))
                    continue;
                best = n;
            }
        }
        return best;
    };
    for (size_t i = 0; i < s.size(); i++) {
        char c = s[i];
        if (c == '\\') {
            size_t j = i + 1;
            if (j < s.size() && !isalpha((unsigned char)s[j])) { // control symbol: \{ \} \\ \; \: \| ...
                i = j;
                continue;
            }
            while (j < s.size() && isalpha((unsigned char)s[j]))
                j++;
            std::string cs = s.substr(i + 1, j - i - 1);
            if (cs == "left" || cs == "right") {
                if (delim_at(j) == 0)
                    return "DELIM:\\" + cs + " is not followed by a delimiter at offset " + std::to_string(i);
                if (cs == "left")
                    st.push_back("left");
                else {
                    if (st.empty() || st.back() != "left")
                        return "\\right without matching \\left at offset " + std::to_string(i);
                    st.pop_back();
                }
                // skip the delimiter itself (it may be an unescaped bracket or an escaped brace)
                size_t k = j;
                while (k < s.size() && s[k] == ' ')
                    k++;
                i = k + delim_at(j) - 1;
                continue;
            }
            if (cs == "begin" || cs == "end") {
                if (j >= s.size() || s[j] != '{')
                    return "\\" + cs + " without {environment}";
                size_t e = s.find('}', j);
                if (e == std::string::npos)
                    return "unterminated environment name";
                std::string env = s.substr(j + 1, e - j - 1);
                if (cs == "begin")
                    st.push_back("begin:" + env);
                else {
                    if (st.empty() || st.back() != "begin:" + env)
                        return "\\end{" + env + "} without matching \\begin at offset " + std::to_string(i);
                    st.pop_back();
                }
                i = e;
                continue;
            }
            i = j - 1;
            continue;
        }
        if (c == '{')
            st.push_back("{");
        else if (c == '}') {
            if (st.empty() || st.back() != "{")
                return "'}' without matching '{' at offset " + std::to_string(i);
            st.pop_back();
        }
    }
    if (!st.empty())
        return "unclosed " + st.back();
    return "";
}

// ------------------------------------------------------------------ unicode box
static size_t display_width(const std::string &line)
{
    size_t w = 0;
    for (unsigned char c : line)
        if ((c & 0xC0) != 0x80) // count code points (no wide / combining characters are emitted by the printer)
            w++;
    return w;
}

static std::string encode_lines(const std::string &s)
{
    std::string o;
    for (char c : s) {
        if (c == '\n')
            o += "\\n";
        else if (c == '\\')
            o += "\\\\";
        else if (c == '\t')
            o += "\\t";
        else
            o.push_back(c);
    }
    return o;
}

// ------------------------------------------------------------------ SBML fragment
static double round15(double d)
{
    if (!std::isfinite(d))
        return d;
    char buf[64];
    snprintf(buf, sizeof buf, "%.15g", d);
    return strtod(buf, nullptr);
}
static std::string round_dump(const std::string &s)
{
    std::string o;
    size_t i = 0;
    while (i < s.size()) {
        if (s.compare(i, 3, "(D ") == 0 && i + 20 <= s.size() && s[i + 19] == ')') {
            o += "(D " + vsexp::dbl_hex(round15(vsexp::hex_dbl(s.substr(i + 3, 16)))) + ")";
            i += 20;
        } else
            o.push_back(s[i++]);
    }
    return o;
}
static std::string lower(std::string s)
{
    std::transform(s.begin(), s.end(), s.begin(), ::tolower);
    return s;
}
// the classes / names for which parse_sbml(sbml(e)) is specified to give e back
static bool sbml_fragment(const Basic &b, std::string &why)
{
    static const std::set<std::string> reserved = {"pi", "exponentiale", "avogadro", "time", "inf", "infinity", "nan",
                                                   "notanumber", "true", "false"};
    switch (b.get_type_code()) {
        case SYMENGINE_INTEGER:
        case SYMENGINE_RATIONAL:
        case SYMENGINE_ADD:
        case SYMENGINE_MUL:
        case SYMENGINE_POW:
        case SYMENGINE_NOT_A_NUMBER:
        case SYMENGINE_BOOLEAN_ATOM:
        case SYMENGINE_AND:
        case SYMENGINE_OR:
        case SYMENGINE_XOR:
        case SYMENGINE_NOT:
        case SYMENGINE_EQUALITY:
        case SYMENGINE_UNEQUALITY:
        case SYMENGINE_LESSTHAN:
        case SYMENGINE_STRICTLESSTHAN:
        case SYMENGINE_PIECEWISE:
        case SYMENGINE_SIN:
        case SYMENGINE_COS:
        case SYMENGINE_TAN:
        case SYMENGINE_COT:
        case SYMENGINE_CSC:
        case SYMENGINE_SEC:
        case SYMENGINE_ASIN:
        case SYMENGINE_ACOS:
        case SYMENGINE_ASEC:
        case SYMENGINE_ACSC:
        case SYMENGINE_ATAN:
        case SYMENGINE_ACOT:
        case SYMENGINE_SINH:
        case SYMENGINE_CSCH:
        case SYMENGINE_COSH:
        case SYMENGINE_SECH:
        case SYMENGINE_TANH:
        case SYMENGINE_COTH:
        case SYMENGINE_ASINH:
        case SYMENGINE_ACSCH:
        case SYMENGINE_ACOSH:
        case SYMENGINE_ATANH:
        case SYMENGINE_ACOTH:
        case SYMENGINE_ASECH:
        case SYMENGINE_LOG:
        case SYMENGINE_ABS:
        case SYMENGINE_FLOOR:
        case SYMENGINE_CEILING:
        case SYMENGINE_GAMMA:
        case SYMENGINE_MAX:
        case SYMENGINE_MIN:
            break;
        case SYMENGINE_REAL_DOUBLE: {
            double d = down_cast<const RealDouble &>(b).i;
            // 0.0 as the coefficient of a sum is absorbed by add() when the text is re-read (exact 0): the constructors'
            // treatment of a floating zero is number semantics (C05/C06), not printing
            if (!std::isfinite(d) || d == 0) {
                why = "non-finite or zero double";
                return false;
            }
            break;
        }
        case SYMENGINE_INFTY:
            if (down_cast<const Infty &>(b).is_unsigned_infinity()) {
                why = "complex infinity has no SBML form";
                return false;
            }
            break;
        case SYMENGINE_SYMBOL: {
            const std::string &n = down_cast<const Symbol &>(b).get_name();
            if (reserved.count(lower(n))) {
                why = "reserved symbol name";
                return false;
            }
            bool ident = !n.empty() && (isalpha((unsigned char)n[0]) || n[0] == '_' || (unsigned char)n[0] >= 0x80);
            for (unsigned char c : n)
                ident = ident && (isalnum(c) || c == '_' || c >= 0x80);
            if (!ident) {
                why = "symbol name is not an identifier";
                return false;
            }
            break;
        }
        case SYMENGINE_CONSTANT:
            if (!eq(b, *pi) && !eq(b, *E)) {
                why = "constant without SBML name";
                return false;
            }
            break;
        case SYMENGINE_FUNCTIONSYMBOL: {
            // a user function: any name that is not one of the parser's own
            static const std::set<std::string> fn
                = {"sin",  "cos",  "tan",  "cot",  "csc",   "sec",    "sqrt", "abs",   "exp",       "floor", "ceil",
                   "ceiling", "ln", "log", "log10", "factorial", "root", "sqr", "minus", "divide", "pow",  "power",
                   "max",  "min",  "plus", "times", "not",  "eq",     "neq",  "geq",   "gt",        "leq",   "lt",
                   "xor",  "and",  "or",   "piecewise"};
            std::string n = lower(down_cast<const FunctionSymbol &>(b).get_name());
            bool ident = !n.empty() && (isalpha((unsigned char)n[0]) || n[0] == '_' || (unsigned char)n[0] >= 0x80);
            for (unsigned char c : n)
                ident = ident && (isalnum(c) || c == '_' || c >= 0x80);
            if (!ident || fn.count(n) || n.compare(0, 3, "arc") == 0 || n[0] == 'a') {
                why = "function symbol with a parser name or a non-identifier name";
                return false;
            }
            break;
        }
        default:
            why = "class " + type_code_name(b.get_type_code()) + " has no SBML form";
            return false;
    }
    for (auto &a : b.get_args())
        if (!sbml_fragment(*a, why))
            return false;
    return true;
}

// ------------------------------------------------------------------ running a printer
static std::string run_printer(const std::string &which, const Basic &e, std::string &status, std::string &oracle)
{
    std::string out;
    status = "ok";
    try {
        if (which == "latex")
            out = latex(e);
        else if (which == "mathml")
            out = mathml(e);
        else if (which == "unicode")
            out = unicode(e);
        else if (which == "julia")
            out = julia_str(e);
        else if (which == "sbml")
            out = sbml(e);
        else
            status = "bad-printer";
    } catch (const VerifAssertError &ex) {
        status = "E:Assert";
        if (oracle == "ok")
            oracle = "FAIL:total:" + which + " printer fired an assertion: " + ex.what();
    } catch (const NotImplementedError &ex) {
        status = "E:NotImplemented";
    } catch (const SymEngineException &ex) {
        status = exc_name(ex);
        bool documented = which == "mathml" && std::string(ex.what()) == "Error: not supported";
        // LatexPrinter::bvisit(const MatrixExpr...) / Tuple etc. document SymEngineException("...not supported")
        if (!documented && oracle == "ok")
            oracle = "FAIL:total:" + which + " printer threw " + status + " '" + ex.what() + "'";
    } catch (const std::exception &ex) {
        status = "E:Other";
        if (oracle == "ok")
            oracle = "FAIL:total:" + which + " printer threw std::exception '" + ex.what() + "'";
    }
    return out;
}

static void check_output(const std::string &which, const Basic &e, const std::string &sx, const std::string &out,
                         std::string &oracle)
{
    if (which == "mathml") {
        Xml x(out);
        stat("mathml_checked");
        if (!x.document() && oracle == "ok")
            oracle = "FAIL:mathml-malformed:" + x.err + " in " + out.substr(0, 300);
    } else if (which == "latex") {
        stat("latex_checked");
        std::string r = latex_check(out);
        if (!r.empty() && oracle == "ok") {
            if (r.compare(0, 6, "DELIM:") == 0)
                oracle = "FAIL:latex-delimiter:" + r.substr(6) + " in " + out.substr(0, 300);
            else
                oracle = "FAIL:latex-unbalanced:" + r + " in " + out.substr(0, 300);
        }
    } else if (which == "unicode") {
        stat("unicode_checked");
        auto lines = split(out, '\n');
        size_t w = display_width(lines[0]);
        for (auto &l : lines)
            if (display_width(l) != w && oracle == "ok")
                oracle = "FAIL:unicode-ragged:lines of different width (" + std::to_string(w) + " vs "
                         + std::to_string(display_width(l)) + ") in " + encode_lines(out).substr(0, 300);
        if (out.empty())
            stat("unicode_empty_output"); // UnicodePrinter::bvisit(const Constant &) ignores user constants
    } else if (which == "sbml") {
        std::string why;
        // a floating zero hides from get_args() when it is the coefficient of a sum (Add::get_args() skips a
        // coefficient that is_zero()): look at the dump as well
        bool float_zero = sx.find("(D 0000000000000000)") != std::string::npos
                          || sx.find("(D 8000000000000000)") != std::string::npos;
        if (float_zero || !sbml_fragment(e, why)) {
            stat("sbml_outside_fragment");
            return;
        }
        stat("sbml_roundtrips");
        RCP<const Basic> p;
        try {
            p = parse_sbml(out);
        } catch (const std::exception &ex) {
            if (oracle == "ok")
                oracle = "FAIL:sbml-roundtrip:parse_sbml threw '" + std::string(ex.what()) + "' on [" + out + "]";
            return;
        }
        RCP<const Basic> e15 = sx.empty() ? e.rcp_from_this() : vsexp::parse(round_dump(sx));
        if (!eq(*p, *e15)) {
            // the SBML text of gamma(x) is factorial(x - 1), re-read as gamma(x - 1 + 1): with doubles the last bit
            // may differ; "equal to the printed 15 significant digits" is then decided on the printed texts
            if (sx.find("(D ") != std::string::npos && p->__str__() == e15->__str__()) {
                stat("sbml_float_equal_to_15_digits");
                return;
            }
            if (oracle == "ok")
                oracle = "FAIL:sbml-roundtrip:parse_sbml(sbml(e)) != e: [" + out + "] gives " + vsexp::dump(*p);
        }
    } else if (which == "julia") {
        stat("julia_checked");
        if (out.empty() && oracle == "ok")
            oracle = "FAIL:total:julia printer returned an empty string";
    }
}

// ------------------------------------------------------------------ catalogue of classes the wire format cannot carry
struct CatItem {
    std::string name;
    std::function<RCP<const Basic>()> make;
};
static const std::vector<CatItem> &catalogue()
{
    static std::vector<CatItem> c;
    if (!c.empty())
        return c;
    RCP<const Symbol> x = symbol("x"), y = symbol("y");
    auto add_item = [&](const std::string &n, std::function<RCP<const Basic>()> f) { c.push_back({n, f}); };
    add_item("UIntPoly", [=] { return UIntPoly::from_dict(x, {{0, integer_class(1)}, {1, integer_class(-2)}, {3, integer_class(5)}}); });
    add_item("UIntPoly-zero", [=] { return UIntPoly::from_dict(x, {}); });
    add_item("URatPoly", [=] { return URatPoly::from_dict(x, {{0, rational_class(1, 2)}, {2, rational_class(-3, 4)}}); });
    add_item("UExprPoly", [=] { return UExprPoly::from_dict(x, {{0, Expression(y)}, {2, Expression(integer(3))}}); });
    add_item("MIntPoly", [=] { return MIntPoly::from_dict({x, y}, {{{1, 2}, integer_class(3)}, {{0, 0}, integer_class(-1)}}); });
    add_item("MExprPoly", [=] { return MExprPoly::from_dict({x, y}, {{{1, -1}, Expression(symbol("a"))}, {{0, 0}, Expression(integer(2))}}); });
    add_item("GaloisField", [=] { return GaloisField::from_vec(x, {integer_class(1), integer_class(2), integer_class(3)}, integer_class(5)); });
    add_item("UnivariateSeries", [=] { return UnivariateSeries::series(sin(x), "x", 5); });
    add_item("IdentityMatrix", [=] { return identity_matrix(integer(3)); });
    add_item("ZeroMatrix", [=] { return zero_matrix(integer(2), integer(3)); });
    add_item("DiagonalMatrix", [=] { return diagonal_matrix({x, integer(2), y}); });
    add_item("ImmutableDenseMatrix", [=] { return immutable_dense_matrix(2, 2, {x, integer(1), y, add(x, y)}); });
    add_item("MatrixSymbol", [=] { return matrix_symbol("A"); });
    add_item("MatrixAdd", [=] { return matrix_add({matrix_symbol("A"), matrix_symbol("B")}); });
    add_item("MatrixMul", [=] { return matrix_mul({matrix_symbol("A"), matrix_symbol("B")}); });
    add_item("HadamardProduct", [=] { return hadamard_product({matrix_symbol("A"), matrix_symbol("B")}); });
    add_item("Trace", [=] { return trace(matrix_symbol("A")); });
    add_item("Transpose", [=] { return transpose(matrix_symbol("A")); });
    add_item("ConjugateMatrix", [=] { return conjugate_matrix(matrix_symbol("A")); });
    add_item("Tuple", [=] { return tuple({x, integer(2), add(x, y)}); });
    add_item("Dummy", [=] { return dummy("d"); });
    add_item("Constant-user", [=] { return constant("myconst"); });
    add_item("Subs", [=] { return function_symbol("f", add(x, y))->diff(x)->subs({{x, integer(2)}}); });
    add_item("Derivative", [=] { return function_symbol("f", vec_basic{x, y})->diff(x)->diff(y); });
    add_item("Intersection", [=] { return set_intersection({interval(integer(0), integer(2)), conditionset(x, Lt(x, y))}); });
    add_item("Naturals", [=] { return naturals(); });
    add_item("Naturals0", [=] { return naturals0(); });
    add_item("UniversalSet", [=] { return universalset(); });
    add_item("Complement", [=] { return set_complement(reals(), finiteset({x})); });
    add_item("ImageSet", [=] { return imageset(x, mul(integer(2), x), integers()); });
    add_item("UnevaluatedExpr", [=] { return unevaluated_expr(add(x, integer(1))); });
    add_item("Not-Contains", [=] { return logical_not(contains(x, interval(integer(0), integer(1)))); });
    return c;
}

static RCP<const Basic> piecewise_from_seed(uint64_t seed);

std::string hx_run(const std::string &line, std::string &oracle)
{
    if (line.compare(0, 3, "pw ") == 0) {
        // pw <printer> <seed>: a Piecewise rebuilt from its seed (the wire format has no Piecewise)
        size_t sp = line.find(' ', 3);
        if (sp == std::string::npos)
            return "bad-op";
        std::string which = line.substr(3, sp - 3);
        RCP<const Basic> e = piecewise_from_seed(strtoull(line.c_str() + sp + 1, nullptr, 10));
        std::string st;
        std::string text = run_printer(which, *e, st, oracle);
        stat(which + (st == "ok" ? "_ok" : "_throws"));
        if (st != "ok")
            return st;
        check_output(which, *e, "", text, oracle);
        return encode_lines(text);
    }
    if (line.compare(0, 4, "cat ") == 0) {
        size_t k = std::stoul(line.substr(4));
        const auto &c = catalogue();
        if (k >= c.size())
            return "bad-op";
        RCP<const Basic> e = c[k].make();
        std::string out = c[k].name;
        for (const char *p : {"latex", "mathml", "unicode", "julia", "sbml"}) {
            std::string st;
            std::string text = run_printer(p, *e, st, oracle);
            if (st == "ok")
                check_output(p, *e, "", text, oracle);
            out += std::string("|") + p + "=" + st;
            stat(std::string("cat_") + p + "_" + (st == "ok" ? "ok" : "throws"));
        }
        return out;
    }
    if (line.compare(0, 3, "pr ") == 0) {
        size_t sp = line.find(' ', 3);
        if (sp == std::string::npos)
            return "bad-op";
        std::string which = line.substr(3, sp - 3), sx = line.substr(sp + 1);
        RCP<const Basic> e = vsexp::parse(sx);
        std::string st;
        std::string text = run_printer(which, *e, st, oracle);
        stat(which + (st == "ok" ? "_ok" : "_throws"));
        if (st != "ok")
            return st;
        check_output(which, *e, sx, text, oracle);
        return encode_lines(text);
    }
    return "bad-op";
}

// ------------------------------------------------------------------ generation
static void put_all(const RCP<const Basic> &e, const std::string &tag)
{
    std::string d = vsexp::dump(*e);
    for (const char *p : {"latex", "mathml", "unicode", "julia", "sbml"})
        emit(std::string("pr ") + p + " " + d, tag);
}

static RCP<const Boolean> rand_rel(Rng &r, const vgen::Opts &o, int depth)
{
    RCP<const Basic> a = vgen::rand_expr(r, o, depth), b = vgen::rand_expr(r, o, depth);
    for (int t = 0; t < 6; t++) {
        try {
            RCP<const Boolean> rel;
            switch (r.below(4)) {
                case 0:
                    rel = Eq(a, b);
                    break;
                case 1:
                    rel = Ne(a, b);
                    break;
                case 2:
                    rel = Le(a, b);
                    break;
                default:
                    rel = Lt(a, b);
            }
            if (is_a_Relational(*rel))
                return rel;
        } catch (const std::exception &) {
        }
        a = add(a, vgen::sym((int)r.below(3)));
    }
    return Lt(vgen::sym(0), vgen::sym(1));
}

static RCP<const Set> rand_set(Rng &r, int depth)
{
    RCP<const Basic> x = vgen::sym(0);
    // operands of the set operations: intervals, finite sets and the empty set only (the set algebra does not
    // terminate on several combinations with Integers / Rationals / Complexes / ConditionSet: C27 findings)
    static const unsigned inner[] = {0, 1, 0, 1, 0, 6};
    switch (depth == 2 ? r.below(12) : inner[r.below(6)]) {
        case 0:
            return interval(integer(r.range(-5, 0)), integer(r.range(1, 6)), r.coin(), r.coin());
        case 1:
            return finiteset({integer(r.range(-3, 3)), vgen::sym((int)r.below(3)), Rational::from_two_ints(1, 2)});
        case 2:
            return reals();
        case 3:
            return integers();
        case 4:
            return rationals();
        case 5:
            return complexes();
        case 6:
            return emptyset();
        case 7:
            return conditionset(x, Lt(x, integer(r.range(-3, 3))));
        case 8:
            return set_union({rand_set(r, 1), rand_set(r, 1)});
        case 9:
            return set_complement(rand_set(r, 1), rand_set(r, 1));
        case 10:
            return imageset(x, add(mul(integer(2), x), one), integers());
        default:
            return set_intersection({rand_set(r, 1), rand_set(r, 1)});
    }
}

void hx_gen(Rng &r, const std::string &tier)
{
    bool th = tier == "thorough";
    int N = th ? 10 : 1;
    for (size_t k = 0; k < catalogue().size(); k++)
        emit("cat " + std::to_string(k), "catalogue");
    RCP<const Basic> x = vgen::sym(0), y = vgen::sym(1), z = vgen::sym(2);
    // every leaf class
    for (auto e : {rcp_static_cast<const Basic>(integer(-7)), rcp_static_cast<const Basic>(integer(12345678901234LL)),
                   rcp_static_cast<const Basic>(Rational::from_two_ints(-3, 4)), rcp_static_cast<const Basic>(I),
                   rcp_static_cast<const Basic>(Complex::from_two_nums(*integer(1), *integer(-2))),
                   rcp_static_cast<const Basic>(Complex::from_two_nums(*Rational::from_two_ints(1, 2), *Rational::from_two_ints(-2, 3))),
                   rcp_static_cast<const Basic>(real_double(0.1)), rcp_static_cast<const Basic>(real_double(-2.5e-7)),
                   rcp_static_cast<const Basic>(real_double(1e22)),
                   rcp_static_cast<const Basic>(complex_double(std::complex<double>(1.5, -2.25))),
                   rcp_static_cast<const Basic>(Inf), rcp_static_cast<const Basic>(NegInf),
                   rcp_static_cast<const Basic>(ComplexInf), rcp_static_cast<const Basic>(Nan),
                   rcp_static_cast<const Basic>(pi), rcp_static_cast<const Basic>(E),
                   rcp_static_cast<const Basic>(EulerGamma), rcp_static_cast<const Basic>(Catalan),
                   rcp_static_cast<const Basic>(GoldenRatio), rcp_static_cast<const Basic>(boolTrue),
                   rcp_static_cast<const Basic>(boolFalse)}) {
        put_all(e, "leaf");
        try {
            put_all(add(e, x), "leaf-in-sum");
            put_all(pow(x, e), "leaf-in-power");
            put_all(mul(e, sin(y)), "leaf-in-product");
        } catch (const std::exception &) {
        }
    }
    // symbol names: greek, subscripts, underscores, characters that are markup in XML / TeX
    for (const char *nm : {"x", "alpha", "Gamma", "x_1", "x_12", "x_y_z", "_a", "a_", "_", "x__2", "mu_nu", "\xce\xb1",
                           "a<b", "a&b", "a>b", "a\"b", "x'", "a&amp;", "<ci>", "50%", "a#b", "a^b", "a~b", "a$b",
                           "lambda", "lambda_1", "Omega_alpha"}) {
        RCP<const Basic> s = symbol(nm);
        put_all(s, "symbol-name");
        put_all(add(pow(s, integer(2)), function_symbol(nm, x)), "symbol-name");
    }
    // every named function class
    {
        typedef RCP<const Basic> (*fn1)(const RCP<const Basic> &);
        static const fn1 fns1[] = {sin,   cos,   tan,   cot,   csc,   sec,   asin,     acos,     asec,    acsc,   atan,
                                  acot,  sinh,  csch,  cosh,  sech,  tanh,  coth,     asinh,    acsch,   acosh,  atanh,
                                  acoth, asech, (fn1)log, lambertw, dirichlet_eta, floor, ceiling, truncate, erf, erfc,
                                  loggamma, gamma, abs, sign, conjugate, primepi, primorial, (fn1)zeta};
        for (fn1 f : fns1) {
            put_all(f(x), "function");
            put_all(add(pow(f(add(x, y)), integer(2)), div(one, f(mul(integer(2), x)))), "function");
        }
        put_all(atan2(x, y), "function");
        put_all(zeta(x, y), "function");
        put_all(lowergamma(x, y), "function");
        put_all(uppergamma(x, y), "function");
        put_all(beta(x, y), "function");
        put_all(polygamma(x, y), "function");
        put_all(kronecker_delta(x, y), "function");
        put_all(levi_civita({x, y, z}), "function");
        put_all(max({x, y, integer(2)}), "function");
        put_all(min({x, y}), "function");
        put_all(log(x, y), "function");
        put_all(function_symbol("f", vec_basic{x, add(y, one)}), "function");
        put_all(function_symbol("f", x)->diff(rcp_static_cast<const Symbol>(x)), "derivative");
        put_all(function_symbol("g", vec_basic{x, y})->diff(rcp_static_cast<const Symbol>(x))->diff(rcp_static_cast<const Symbol>(y)),
                "derivative");
    }
    // nested powers: the exponent (and the base) is itself a power with a non-integer rational exponent p/q
    // (q in 2..5, p in -5..5 not divisible by q; 1/2 and -1/2 print as sqrt(...) calls: controls)
    {
        std::vector<RCP<const Basic>> rexps;
        for (long q = 2; q <= 5; q++)
            for (long p = -5; p <= 5; p++)
                if (p % q != 0)
                    rexps.push_back(Rational::from_two_ints(*integer(p), *integer(q)));
        size_t k = 0;
        for (auto &pq : rexps) {
            RCP<const Basic> in = vgen::sym((int)(k % 3) + 1); // y z w
            RCP<const Basic> inner = pow(in, pq);
            RCP<const Basic> outer_base = (k % 4 == 3) ? rcp_static_cast<const Basic>(integer(2 + (long)(k % 5))) : x;
            put_all(pow(outer_base, inner), "nested-power");          // x**(y**(p/q)), 2**(y**(p/q))
            if (k % 3 == 0)
                put_all(pow(inner, x), "nested-power");               // (y**(p/q))**x
            if (k % 3 == 1)
                put_all(add(mul(integer(3), pow(x, pow(add(in, one), pq))), pow(z, neg(inner))), "nested-power");
            if (k % 3 == 2)
                put_all(div(pow(x, inner), pow(y, pow(x, pq))), "nested-power");
            k++;
        }
        // a few random ones
        for (int i = 0; i < 6 * N; i++) {
            RCP<const Basic> pq = rexps[r.below(rexps.size())], pq2 = rexps[r.below(rexps.size())];
            put_all(pow(vgen::sym((int)r.below(4)), pow(pow(vgen::sym((int)r.below(4)), pq2), pq)), "nested-power");
        }
    }
    // arithmetic trees
    for (int i = 0; i < 70 * N; i++) {
        vgen::Opts o;
        o.gaussian = r.coin(1, 3);
        o.floats = r.coin(1, 4);
        o.bigints = r.coin(1, 5);
        o.radicals = r.coin();
        o.symexp = !o.radicals && !o.floats && r.coin();
        o.infs = r.coin(1, 6);
        RCP<const Basic> e = vgen::rand_expr(r, o, 2 + (int)r.below(th ? 4 : 3));
        put_all(e, o.infs ? "arith-inf" : o.floats ? "arith-float" : "arith");
    }
    // relationals, booleans, piecewise
    for (int i = 0; i < 25 * N; i++) {
        vgen::Opts o;
        o.functions = r.coin();
        RCP<const Boolean> a = rand_rel(r, o, 1 + (int)r.below(2)), b = rand_rel(r, o, 1), c = rand_rel(r, o, 1);
        put_all(a, "relational");
        try {
            switch (r.below(5)) {
                case 0:
                    put_all(logical_and({a, b}), "boolean");
                    break;
                case 1:
                    put_all(logical_or({a, logical_and({b, c})}), "boolean");
                    break;
                case 2:
                    put_all(logical_xor({a, b, c}), "boolean");
                    break;
                case 3:
                    put_all(logical_not(logical_xor({a, b})), "boolean");
                    break;
                default:
                    put_all(logical_and({logical_or({a, b}), logical_xor({b, c})}), "boolean");
            }
            uint64_t seed = r.next() % 1000000007ULL;
            for (const char *p : {"latex", "mathml", "unicode", "julia", "sbml"})
                emit(std::string("pw ") + p + " " + std::to_string(seed), "piecewise");
        } catch (const std::exception &) {
        }
    }
    // sets
    for (int i = 0; i < 25 * N; i++) {
        try {
            RCP<const Set> s = rand_set(r, 2);
            put_all(s, "set");
            put_all(contains(x, s), "set");
        } catch (const std::exception &) {
        }
    }
}

static RCP<const Basic> piecewise_from_seed(uint64_t seed)
{
    Rng r(seed);
    RCP<const Basic> x = vgen::sym(0);
    vgen::Opts o;
    o.functions = r.coin();
    for (int tries = 0; tries < 20; tries++) {
        try {
            PiecewiseVec v;
            v.push_back({vgen::rand_expr(r, o, 2), rand_rel(r, o, 1 + (int)r.below(2))});
            if (r.coin())
                v.push_back({vgen::rand_expr(r, o, 1), rand_rel(r, o, 1)});
            if (r.coin(2, 3))
                v.push_back({vgen::rand_expr(r, o, 1), boolTrue});
            RCP<const Basic> pw = piecewise(std::move(v));
            if (is_a<Piecewise>(*pw))
                return r.coin(1, 3) ? add(mul(integer(2), pw), x) : pw;
        } catch (const std::exception &) {
        }
    }
    PiecewiseVec v;
    v.push_back({x, Lt(x, vgen::sym(1))});
    v.push_back({vgen::sym(2), boolTrue});
    return piecewise(std::move(v));
}
