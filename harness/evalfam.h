// Shared harness code for the numeric-evaluation family (C12 eval_double, C13 lambda_double,
// C15 C code printers):
//   * build_named for harness/sexp.h incl. Piecewise (sexp.h's own table is switched off),
//   * odump(): S-expression dump in the *real iteration order* of Add/Mul dictionaries
//     (floating-point sums/products are order dependent, the Lean model needs the order),
//   * an independent reference evaluator in `long double` with a running first-order error
//     bound (condition-scaled tolerance; ill-conditioned points are recognised and discarded),
//   * the table of special-function values (tgamma lgamma erf erfc) for the Lean driver,
//   * a random generator of canonical trees over all node kinds the evaluators accept,
//     built through the public API with arguments fitted into each function's domain.
#ifndef VERIF_EVALFAM_H
#define VERIF_EVALFAM_H
#define VSEXP_NO_NAMED
#include "common.h"
#include "sexp.h"
#include <cmath>
#include <complex>
#include <functional>
#include <limits>
#include <set>
#include <symengine/eval_double.h>
#include <symengine/eval.h>
#include <symengine/symengine_casts.h>

namespace vsexp
{
inline RCP<const Boolean> as_bool(const RCP<const Basic> &b)
{
    if (!is_a_Boolean(*b))
        throw std::runtime_error("sexp: boolean expected");
    return rcp_static_cast<const Boolean>(b);
}
inline RCP<const Set> as_set(const RCP<const Basic> &b)
{
    if (!is_a_Set(*b))
        throw std::runtime_error("sexp: set expected");
    return rcp_static_cast<const Set>(b);
}
inline RCP<const Basic> build_named(const std::string &name, const vec_basic &a)
{
#define ONE(N, f)                                                              \
    if (name == N)                                                             \
        return f(a.at(0));
#define TWO(N, f)                                                              \
    if (name == N)                                                             \
        return f(a.at(0), a.at(1));
    ONE("Sin", sin) ONE("Cos", cos) ONE("Tan", tan) ONE("Cot", cot) ONE("Csc", csc) ONE("Sec", sec)
    ONE("ASin", asin) ONE("ACos", acos) ONE("ASec", asec) ONE("ACsc", acsc) ONE("ATan", atan) ONE("ACot", acot)
    ONE("Sinh", sinh) ONE("Csch", csch) ONE("Cosh", cosh) ONE("Sech", sech) ONE("Tanh", tanh) ONE("Coth", coth)
    ONE("ASinh", asinh) ONE("ACsch", acsch) ONE("ACosh", acosh) ONE("ATanh", atanh) ONE("ACoth", acoth)
    ONE("ASech", asech) ONE("Log", log) ONE("Abs", abs) ONE("Sign", sign) ONE("Floor", floor)
    ONE("Ceiling", ceiling) ONE("Truncate", truncate) ONE("Conjugate", conjugate) ONE("Gamma", gamma)
    ONE("LogGamma", loggamma) ONE("Erf", erf) ONE("Erfc", erfc) ONE("LambertW", lambertw)
    TWO("ATan2", atan2) TWO("Zeta", zeta) TWO("KroneckerDelta", kronecker_delta)
    TWO("LowerGamma", lowergamma) TWO("UpperGamma", uppergamma) TWO("Beta", beta) TWO("PolyGamma", polygamma)
    TWO("Equality", Eq) TWO("Unequality", Ne) TWO("LessThan", Le) TWO("StrictLessThan", Lt)
    if (name == "Max")
        return max(a);
    if (name == "Min")
        return min(a);
    if (name == "Not")
        return logical_not(as_bool(a.at(0)));
    if (name == "And" || name == "Or") {
        set_boolean s;
        for (auto &x : a)
            s.insert(as_bool(x));
        return name == "And" ? logical_and(s) : logical_or(s);
    }
    if (name == "Xor") {
        vec_boolean s;
        for (auto &x : a)
            s.push_back(as_bool(x));
        return logical_xor(s);
    }
    if (name == "Contains")
        return contains(a.at(0), as_set(a.at(1)));
    if (name == "Interval")
        return interval(rcp_static_cast<const Number>(a.at(0)), rcp_static_cast<const Number>(a.at(1)),
                        eq(*a.at(2), *boolTrue), eq(*a.at(3), *boolTrue));
    if (name == "Reals")
        return reals();
    if (name == "Piecewise") {
        PiecewiseVec v;
        for (size_t k = 0; k + 1 < a.size(); k += 2)
            v.push_back({a[k], as_bool(a[k + 1])});
        return piecewise(v);
    }
    if (name == "UnevaluatedExpr")
        return unevaluated_expr(a.at(0));
#undef ONE
#undef TWO
    throw std::runtime_error("sexp: unknown head " + name);
}
} // namespace vsexp

namespace evf
{
using namespace SymEngine;
typedef long double LD;

// ------------------------------------------------------------------ ordered dump
inline std::string odump(const Basic &b)
{
    switch (b.get_type_code()) {
        case SYMENGINE_ADD: {
            const Add &a = down_cast<const Add &>(b);
            std::string o = "(+ " + vsexp::dump(*a.get_coef());
            for (auto &p : a.get_dict())
                o += " (" + odump(*p.first) + " " + odump(*p.second) + ")";
            return o + ")";
        }
        case SYMENGINE_MUL: {
            const Mul &m = down_cast<const Mul &>(b);
            std::string o = "(* " + vsexp::dump(*m.get_coef());
            for (auto &p : m.get_dict())
                o += " (" + odump(*p.first) + " " + odump(*p.second) + ")";
            return o + ")";
        }
        case SYMENGINE_POW: {
            const Pow &p = down_cast<const Pow &>(b);
            return "(^ " + odump(*p.get_base()) + " " + odump(*p.get_exp()) + ")";
        }
        case SYMENGINE_AND:
        case SYMENGINE_OR:
        case SYMENGINE_XOR: {
            // value is order independent (bool folds); keep the wire convention (sorted)
            std::vector<std::string> items;
            for (auto &a : b.get_args())
                items.push_back(odump(*a));
            return vsexp::dump_sorted(type_code_name(b.get_type_code()), items);
        }
        default: {
            vec_basic args = b.get_args();
            if (args.empty() || b.get_type_code() == SYMENGINE_COMPLEX || b.get_type_code() == SYMENGINE_INFTY
                || b.get_type_code() == SYMENGINE_FUNCTIONSYMBOL)
                return vsexp::dump(b);
            std::string o = "(" + type_code_name(b.get_type_code());
            for (auto &a : args)
                o += " " + odump(*a);
            return o + ")";
        }
    }
}

inline std::string bits(double d)
{
    return vsexp::dbl_hex(d);
}
inline bool same_bits(double a, double b)
{
    return (std::isnan(a) && std::isnan(b)) || bits(a) == bits(b);
}
inline long ulp_dist(double a, double b)
{
    auto key = [](double d) {
        int64_t i;
        memcpy(&i, &d, 8);
        return i < 0 ? (int64_t)(0x8000000000000000ULL - (uint64_t)i) : i;
    };
    int64_t x = key(a), y = key(b);
    int64_t d = x > y ? x - y : y - x;
    return d > 1000000000 ? 1000000000 : (long)d;
}

// ------------------------------------------------------------------ reference evaluator
struct Ref {
    LD v;     // value
    LD e;     // bound on the absolute error of a faithful double evaluation (first order)
    bool ill; // a discontinuity / domain boundary is within the error bound
};
static const LD EPS = 1.1102230246251565404e-16L; // 2^-53

typedef std::map<std::string, double> Env;

struct IllCond : std::exception {
};
struct Unsupported : std::exception {
    std::string what_;
    explicit Unsupported(const std::string &s) : what_(s) {}
    const char *what() const noexcept override
    {
        return what_.c_str();
    }
};

inline LD ld_of_int(const integer_class &i)
{
    // exact for |i| < 2^63
    return (LD)mp_get_si(i);
}

struct RefEval {
    const Env *env;
    bool lambda_mode; // Sign/Floor/… Symbol/And/Or… allowed
    explicit RefEval(const Env *e = nullptr, bool lm = false) : env(e), lambda_mode(lm) {}

    static Ref unary(const Ref &x, std::function<LD(LD)> f, LD kf, LD extra_rel_x = 0)
    {
        Ref r;
        r.v = f(x.v);
        LD h = std::max(fabsl(x.v), 1e-3L) * 9.5367431640625e-07L; // 2^-20
        LD d = fabsl(f(x.v + h) - f(x.v - h)) / (2 * h);
        r.e = d * (x.e + extra_rel_x * fabsl(x.v)) + kf * EPS * fabsl(r.v);
        r.ill = x.ill || !std::isfinite((double)r.v) || !std::isfinite((double)d);
        return r;
    }

    Ref num_exact(LD v)
    {
        return Ref{v, 0, false};
    }

    Ref eval(const Basic &b)
    {
        switch (b.get_type_code()) {
            case SYMENGINE_INTEGER: {
                const integer_class &i = down_cast<const Integer &>(b).as_integer_class();
                if (mp_abs(i) >= integer_class(1) << 62)
                    throw Unsupported("big integer");
                LD v = ld_of_int(i);
                return Ref{v, fabsl(v) >= 9007199254740992.0L ? 2 * EPS * fabsl(v) : 0, false};
            }
            case SYMENGINE_RATIONAL: {
                const rational_class &q = down_cast<const Rational &>(b).as_rational_class();
                if (mp_abs(get_num(q)) >= integer_class(1) << 62 || get_den(q) >= integer_class(1) << 62)
                    throw Unsupported("big rational");
                LD v = ld_of_int(get_num(q)) / ld_of_int(get_den(q));
                return Ref{v, 2 * EPS * fabsl(v), false}; // mpq_get_d truncates: < 1 ulp
            }
            case SYMENGINE_REAL_DOUBLE:
                return num_exact((LD)down_cast<const RealDouble &>(b).i);
            case SYMENGINE_CONSTANT: {
                const std::string &n = down_cast<const Constant &>(b).get_name();
                LD v;
                if (n == "pi")
                    v = 3.14159265358979323846264338327950288L;
                else if (n == "E")
                    v = 2.71828182845904523536028747135266250L;
                else if (n == "EulerGamma")
                    v = 0.57721566490153286060651209008240243L;
                else if (n == "Catalan")
                    v = 0.91596559417721901505460351493238411L;
                else if (n == "GoldenRatio")
                    v = 1.61803398874989484820458683436563811L;
                else
                    throw Unsupported("constant " + n);
                return Ref{v, EPS * fabsl(v), false};
            }
            case SYMENGINE_SYMBOL: {
                if (!env)
                    throw Unsupported("symbol");
                auto it = env->find(down_cast<const Symbol &>(b).get_name());
                if (it == env->end())
                    throw Unsupported("unbound symbol");
                return num_exact((LD)it->second);
            }
            case SYMENGINE_ADD: {
                const Add &a = down_cast<const Add &>(b);
                Ref r = eval(*a.get_coef());
                LD mag = fabsl(r.v);
                for (auto &p : a.get_dict()) {
                    Ref k = eval(*p.first), c = eval(*p.second);
                    LD t = k.v * c.v;
                    LD te = fabsl(k.v) * c.e + fabsl(c.v) * k.e + 2 * EPS * fabsl(t);
                    r.v += t;
                    r.e += te;
                    mag += fabsl(t);
                    r.ill = r.ill || k.ill || c.ill;
                }
                r.e += a.get_dict().size() * EPS * mag; // each partial sum is rounded
                return r;
            }
            case SYMENGINE_MUL: {
                const Mul &m = down_cast<const Mul &>(b);
                // absolute error propagation (a relative one loses the bound when a factor is exactly 0 by cancellation)
                Ref r = eval(*m.get_coef());
                for (auto &p : m.get_dict()) {
                    Ref f = pow_ref(*p.first, *p.second);
                    LD v = r.v * f.v;
                    r.e = fabsl(r.v) * f.e + fabsl(f.v) * r.e + r.e * f.e + EPS * fabsl(v);
                    r.v = v;
                    r.ill = r.ill || f.ill;
                }
                return r;
            }
            case SYMENGINE_POW: {
                const Pow &p = down_cast<const Pow &>(b);
                return pow_ref(*p.get_base(), *p.get_exp());
            }
            case SYMENGINE_ATAN2: {
                vec_basic a = b.get_args();
                Ref y = eval(*a[0]), x = eval(*a[1]);
                Ref r;
                r.v = atan2l(y.v, x.v);
                LD n2 = x.v * x.v + y.v * y.v;
                r.e = (fabsl(x.v) * y.e + fabsl(y.v) * x.e) / n2 + 2 * EPS * fabsl(r.v);
                // branch cut: negative real axis
                r.ill = x.ill || y.ill || (x.v - x.e <= 0 && fabsl(y.v) <= y.e) || n2 == 0;
                return r;
            }
            case SYMENGINE_MAX:
            case SYMENGINE_MIN: {
                vec_basic a = b.get_args();
                bool mx = b.get_type_code() == SYMENGINE_MAX;
                Ref r = eval(*a[0]);
                for (size_t i = 1; i < a.size(); i++) {
                    Ref t = eval(*a[i]);
                    bool ill = r.ill || t.ill;
                    if (mx ? (t.v > r.v) : (t.v < r.v)) {
                        LD e = std::max(r.e, t.e);
                        r = t;
                        r.e = e;
                    } else
                        r.e = std::max(r.e, t.e);
                    r.ill = ill;
                }
                return r;
            }
            case SYMENGINE_EQUALITY:
            case SYMENGINE_UNEQUALITY:
            case SYMENGINE_LESSTHAN:
            case SYMENGINE_STRICTLESSTHAN: {
                vec_basic a = b.get_args();
                Ref l = eval(*a[0]), r = eval(*a[1]);
                Ref o;
                o.e = 0;
                o.ill = l.ill || r.ill || fabsl(l.v - r.v) <= (l.e + r.e) * 4 + 8 * EPS * std::max(fabsl(l.v), fabsl(r.v));
                switch (b.get_type_code()) {
                    case SYMENGINE_EQUALITY:
                        o.v = l.v == r.v;
                        break;
                    case SYMENGINE_UNEQUALITY:
                        o.v = l.v != r.v;
                        break;
                    case SYMENGINE_LESSTHAN:
                        o.v = l.v <= r.v;
                        break;
                    default:
                        o.v = l.v < r.v;
                }
                return o;
            }
            case SYMENGINE_BOOLEAN_ATOM:
                return num_exact(down_cast<const BooleanAtom &>(b).get_val() ? 1 : 0);
            case SYMENGINE_PIECEWISE: {
                const Piecewise &pw = down_cast<const Piecewise &>(b);
                bool ill = false;
                for (auto &ep : pw.get_vec()) {
                    Ref c = eval(*ep.second);
                    ill = ill || c.ill;
                    if (c.v == 1) {
                        Ref r = eval(*ep.first);
                        r.ill = r.ill || ill;
                        return r;
                    }
                }
                throw Unsupported("piecewise without default");
            }
            case SYMENGINE_UNEVALUATED_EXPR:
                return eval(*b.get_args()[0]);
            default:
                break;
        }
        if (lambda_mode) {
            switch (b.get_type_code()) {
                case SYMENGINE_AND:
                case SYMENGINE_OR:
                case SYMENGINE_XOR: {
                    bool ill = false;
                    bool acc = b.get_type_code() == SYMENGINE_AND;
                    for (auto &a : b.get_args()) {
                        Ref t = eval(*a);
                        ill = ill || t.ill;
                        bool tv = t.v != 0;
                        if (b.get_type_code() == SYMENGINE_AND)
                            acc = acc && tv;
                        else if (b.get_type_code() == SYMENGINE_OR)
                            acc = acc || tv;
                        else
                            acc = acc != tv;
                    }
                    return Ref{(LD)(acc ? 1 : 0), 0, ill};
                }
                case SYMENGINE_NOT: {
                    Ref t = eval(*b.get_args()[0]);
                    return Ref{(LD)(t.v != 0 ? 0 : 1), 0, t.ill};
                }
                case SYMENGINE_SIGN: {
                    Ref t = eval(*b.get_args()[0]);
                    return Ref{(LD)(t.v == 0 ? 0 : (t.v < 0 ? -1 : 1)), 0, t.ill || fabsl(t.v) <= 4 * t.e};
                }
                case SYMENGINE_FLOOR:
                case SYMENGINE_CEILING:
                case SYMENGINE_TRUNCATE: {
                    Ref t = eval(*b.get_args()[0]);
                    LD v = b.get_type_code() == SYMENGINE_FLOOR ? floorl(t.v)
                                                                 : (b.get_type_code() == SYMENGINE_CEILING ? ceill(t.v) : truncl(t.v));
                    LD nearest = roundl(t.v);
                    bool ill = t.ill || fabsl(t.v - nearest) <= 4 * t.e + 8 * EPS * fabsl(t.v);
                    return Ref{v, 0, ill};
                }
                case SYMENGINE_INFTY: {
                    const Infty &i = down_cast<const Infty &>(b);
                    if (i.is_positive_infinity())
                        return Ref{std::numeric_limits<LD>::infinity(), 0, false};
                    if (i.is_negative_infinity())
                        return Ref{-std::numeric_limits<LD>::infinity(), 0, false};
                    throw Unsupported("zoo");
                }
                case SYMENGINE_CONTAINS: {
                    const Contains &c = down_cast<const Contains &>(b);
                    if (!is_a<Interval>(*c.get_set()))
                        throw Unsupported("contains non-interval");
                    const Interval &iv = down_cast<const Interval &>(*c.get_set());
                    Ref x = eval(*c.get_expr()), s = eval(*iv.get_start()), e = eval(*iv.get_end());
                    bool l = iv.get_left_open() ? s.v < x.v : s.v <= x.v;
                    bool r = iv.get_right_open() ? x.v < e.v : x.v <= e.v;
                    bool ill = x.ill || (std::isfinite((double)s.v) && fabsl(x.v - s.v) <= 4 * (x.e + s.e) + 8 * EPS * fabsl(x.v))
                               || (std::isfinite((double)e.v) && fabsl(x.v - e.v) <= 4 * (x.e + e.e) + 8 * EPS * fabsl(x.v));
                    return Ref{(LD)((l && r) ? 1 : 0), 0, ill};
                }
                default:
                    break;
            }
        }
        // one-argument real functions
        vec_basic args = b.get_args();
        if (args.size() != 1)
            throw Unsupported(type_code_name(b.get_type_code()));
        Ref x = eval(*args[0]);
        LD RE = EPS; // rounding of the inner reciprocal in the derived formulas acts like a perturbation of x
        switch (b.get_type_code()) {
            case SYMENGINE_SIN:
                return unary(x, [](LD t) { return sinl(t); }, 2);
            case SYMENGINE_COS:
                return unary(x, [](LD t) { return cosl(t); }, 2);
            case SYMENGINE_TAN:
                return unary(x, [](LD t) { return tanl(t); }, 2);
            case SYMENGINE_COT:
                return unary(x, [](LD t) { return cosl(t) / sinl(t); }, 4);
            case SYMENGINE_SEC:
                return unary(x, [](LD t) { return 1 / cosl(t); }, 4);
            case SYMENGINE_CSC:
                return unary(x, [](LD t) { return 1 / sinl(t); }, 4);
            case SYMENGINE_ASIN:
                return dom(unary(x, [](LD t) { return asinl(t); }, 2), fabsl(x.v) + x.e < 1);
            case SYMENGINE_ACOS:
                return dom(unary(x, [](LD t) { return acosl(t); }, 2), fabsl(x.v) + x.e < 1);
            case SYMENGINE_ATAN:
                return unary(x, [](LD t) { return atanl(t); }, 2);
            // inverse reciprocal functions: reference through identities that do not divide first
            case SYMENGINE_ASEC: // asec x = atan2(sqrt(x²-1), 1)·… : for x>=1 atan(sqrt(x²-1)), for x<=-1 π - atan(sqrt(x²-1))
                return dom(unary(x,
                                 [](LD t) {
                                     LD s = atanl(sqrtl((t - 1) * (t + 1)));
                                     return t > 0 ? s : 3.14159265358979323846264338327950288L - s;
                                 },
                                 2, RE),
                           fabsl(x.v) - x.e > 1);
            case SYMENGINE_ACSC: // acsc x = atan(1/sqrt(x²-1))·sign x
                return dom(unary(x,
                                 [](LD t) {
                                     LD s = atanl(1 / sqrtl((t - 1) * (t + 1)));
                                     return t > 0 ? s : -s;
                                 },
                                 2, RE),
                           fabsl(x.v) - x.e > 1);
            case SYMENGINE_ACOT: // acot x = atan2(1, x) for x>0, atan2(-1,-x) for x<0 (odd, range (-π/2, π/2])
                return dom(unary(x, [](LD t) { return t > 0 ? atan2l(1, t) : -atan2l(1, -t); }, 2, RE), fabsl(x.v) > 4 * x.e);
            case SYMENGINE_SINH:
                return unary(x, [](LD t) { return sinhl(t); }, 2);
            case SYMENGINE_COSH:
                return unary(x, [](LD t) { return coshl(t); }, 2);
            case SYMENGINE_TANH:
                return unary(x, [](LD t) { return tanhl(t); }, 2);
            case SYMENGINE_COTH:
                return dom(unary(x, [](LD t) { return coshl(t) / sinhl(t); }, 4), fabsl(x.v) > 4 * x.e);
            case SYMENGINE_SECH:
                return unary(x, [](LD t) { return 2 / (expl(t) + expl(-t)); }, 4);
            case SYMENGINE_CSCH:
                return dom(unary(x, [](LD t) { return 2 / (expl(t) - expl(-t)); }, 4), fabsl(x.v) > 4 * x.e);
            case SYMENGINE_ASINH:
                return unary(x, [](LD t) { return asinhl(t); }, 2);
            case SYMENGINE_ACOSH:
                return dom(unary(x, [](LD t) { return acoshl(t); }, 2), x.v - x.e > 1);
            case SYMENGINE_ATANH:
                return dom(unary(x, [](LD t) { return atanhl(t); }, 2), fabsl(x.v) + x.e < 1);
            case SYMENGINE_ACSCH: // asinh(1/x) = log(1/x + sqrt(1/x²+1)) = sign(x)·log((1+sqrt(1+x²))/|x|)
                return dom(unary(x,
                                 [](LD t) {
                                     LD s = logl((1 + sqrtl(1 + t * t)) / fabsl(t));
                                     return t > 0 ? s : -s;
                                 },
                                 2, RE),
                           fabsl(x.v) > 4 * x.e);
            case SYMENGINE_ACOTH: // ½ log((x+1)/(x-1))
                return dom(unary(x, [](LD t) { return 0.5L * logl((t + 1) / (t - 1)); }, 2, RE), fabsl(x.v) - x.e > 1);
            case SYMENGINE_ASECH: // log((1+sqrt(1-x²))/x), 0<x<1
                return dom(unary(x, [](LD t) { return logl((1 + sqrtl((1 - t) * (1 + t))) / t); }, 2, RE),
                           x.v - x.e > 0 && x.v + x.e < 1);
            case SYMENGINE_LOG:
                return dom(unary(x, [](LD t) { return logl(t); }, 2), x.v - x.e > 0);
            case SYMENGINE_ABS: {
                Ref r{fabsl(x.v), x.e, x.ill};
                return r;
            }
            case SYMENGINE_GAMMA:
                return dom(unary(x, [](LD t) { return tgammal(t); }, 16), x.v - x.e > 0 || fabsl(x.v - roundl(x.v)) > 1e-3L);
            case SYMENGINE_LOGGAMMA:
                return dom(unary(x, [](LD t) { return lgammal(t); }, 16), x.v - x.e > 0 || fabsl(x.v - roundl(x.v)) > 1e-3L);
            case SYMENGINE_ERF:
                return unary(x, [](LD t) { return erfl(t); }, 4);
            case SYMENGINE_ERFC:
                return unary(x, [](LD t) { return erfcl(t); }, 8);
            default:
                throw Unsupported(type_code_name(b.get_type_code()));
        }
    }

    static Ref dom(Ref r, bool inside)
    {
        r.ill = r.ill || !inside;
        return r;
    }

    Ref pow_ref(const Basic &base, const Basic &ex)
    {
        Ref e = eval(ex);
        if (is_a<Integer>(ex) && down_cast<const Integer &>(ex).is_one())
            return eval(base);
        if (eq(base, *E)) {
            Ref r;
            r.v = expl(e.v);
            r.e = fabsl(r.v) * e.e + 2 * EPS * fabsl(r.v);
            r.ill = e.ill;
            return r;
        }
        Ref a = eval(base);
        Ref r;
        r.v = powl(a.v, e.v);
        bool int_exp = e.e == 0 && e.v == floorl(e.v);
        LD da = a.v != 0 ? fabsl(e.v * r.v / a.v) : 0;
        LD de = a.v > 0 ? fabsl(r.v * logl(a.v)) : 0;
        r.e = da * a.e + de * e.e + 2 * EPS * fabsl(r.v);
        r.ill = a.ill || e.ill || (!int_exp && a.v - a.e <= 0) || (a.v == 0) || !std::isfinite((double)r.v);
        return r;
    }
};

// verdict of the accuracy oracle
struct Verdict {
    bool discarded;
    bool ok;
    std::string why;
    LD ref;
};
inline Verdict judge(const Ref &r, double got)
{
    Verdict v{false, true, "", r.v};
    if (r.ill || !std::isfinite((double)r.v) || fabsl(r.v) > 1e12L || (r.v != 0 && fabsl(r.v) < 1e-12L)) {
        v.discarded = true;
        return v;
    }
    LD scale = std::max(fabsl(r.v), (LD)1e-300L);
    if (r.v == 0 && r.e == 0) { // exact zero of exact operands
        if (got != 0) {
            v.ok = false;
            v.why = "got=" + tostr(got) + " ref=0 (exact)";
        }
        return v;
    }
    if (r.e > 1e-9L * scale) { // more than ~4e6 ulp of amplified input error: ill-conditioned
        v.discarded = true;
        return v;
    }
    LD allow = 4 * r.e + 8 * EPS * scale;
    LD diff = fabsl((LD)got - r.v);
    if (!(diff <= allow)) {
        v.ok = false;
        std::ostringstream s;
        s.precision(20);
        s << "got=" << got << " ref=" << (double)r.v << " diff=" << (double)diff << " allowed=" << (double)allow
          << " (" << (double)(diff / (EPS * 2 * scale)) << " ulp)";
        v.why = s.str();
    }
    return v;
}

// ------------------------------------------------------------------ special-function table
inline void collect_special(const Basic &b, const std::function<double(const Basic &)> &ev, std::vector<std::string> &out)
{
    for (auto &a : b.get_args())
        collect_special(*a, ev, out);
    if (is_a<Add>(b)) {
        // keys of the dictionary are operands too (get_args() rebuilds coefficient*key)
        for (auto &p : down_cast<const Add &>(b).get_dict())
            collect_special(*p.first, ev, out);
    }
    const char *nm = nullptr;
    double (*f)(double) = nullptr;
    switch (b.get_type_code()) {
        case SYMENGINE_GAMMA:
            nm = "tgamma";
            f = ::tgamma;
            break;
        case SYMENGINE_LOGGAMMA:
            nm = "lgamma";
            f = ::lgamma;
            break;
        case SYMENGINE_ERF:
            nm = "erf";
            f = ::erf;
            break;
        case SYMENGINE_ERFC:
            nm = "erfc";
            f = ::erfc;
            break;
        default:
            return;
    }
    try {
        double x = ev(*b.get_args()[0]);
        volatile double xv = x; // no constant folding
        double r = f(xv);
        out.push_back(std::string(nm) + ":" + bits(x) + ":" + bits(r));
    } catch (...) {
    }
}

// ------------------------------------------------------------------ generator
struct TreeGen {
    Rng &r;
    std::vector<RCP<const Basic>> syms;
    Env env;
    bool lambda_mode; // Sign Floor Ceiling Truncate Contains And Or Xor Not Infty allowed
    bool c_mode;      // restrict to what the C printers accept
    int max_tries = 6;
    TreeGen(Rng &rr, bool lm = false, bool cm = false) : r(rr), lambda_mode(lm), c_mode(cm) {}

    Ref ref(const RCP<const Basic> &e)
    {
        RefEval re(&env, true);
        return re.eval(*e);
    }
    bool good(const RCP<const Basic> &e, Ref *out = nullptr)
    {
        try {
            Ref x = ref(e);
            if (out)
                *out = x;
            if (x.ill || !std::isfinite((double)x.v))
                return false;
            if (fabsl(x.v) > 1e5L || (x.v != 0 && fabsl(x.v) < 1e-5L))
                return false;
            if (x.e > 1e-11L * std::max(fabsl(x.v), (LD)1e-5L))
                return false;
            return true;
        } catch (Unsupported &) {
            return false;
        }
    }

    RCP<const Number> small_rat(bool nonzero = true)
    {
        while (true) {
            long n = r.range(-9, 9), d = r.pick(std::vector<long>{1, 1, 2, 3, 4, 5, 7, 8, 10});
            if (nonzero && n == 0)
                continue;
            return Rational::from_two_ints(n, d);
        }
    }
    RCP<const Basic> leaf()
    {
        unsigned k = r.below(10);
        if (!syms.empty() && k < 5)
            return r.pick(syms);
        if (k < 6)
            return integer(r.range(-6, 9));
        if (k < 8)
            return small_rat();
        if (k < 9)
            return r.pick(std::vector<RCP<const Basic>>{pi, E, EulerGamma, Catalan, GoldenRatio});
        if (c_mode) // the C printers keep 15 significant digits (finding D19): doubles are added by the C15 generator itself
            return small_rat();
        static const double ds[] = {0.5, 0.25, 1.5, -2.75, 0.1, 3.3, 1e-3, 12.125, -0.3, 2.0000000000000004};
        return real_double(ds[r.below(10)]);
    }
    // non-number leaf-ish expression (so that relationals / Max / Min stay symbolic)
    RCP<const Basic> nonnum(int depth)
    {
        for (int t = 0; t < 20; t++) {
            RCP<const Basic> e = expr(depth < 1 ? 1 : depth);
            if (!is_a_Number(*e))
                return e;
        }
        return syms.empty() ? (RCP<const Basic>)sin(integer(1)) : syms[0];
    }

    // move the value of `a` into (lo,hi) (either bound may be infinite) by a rational scale/shift
    RCP<const Basic> fit(const RCP<const Basic> &a, LD lo, LD hi, bool outside_unit = false)
    {
        Ref x;
        if (!good(a, &x))
            return a;
        LD v = x.v;
        if (outside_unit) { // |x| > 1
            if (fabsl(v) > 1.1L)
                return a;
            if (v == 0)
                return add(a, integer(2));
            long k = (long)ceill(2.2L / fabsl(v));
            return mul(integer(k), a);
        }
        LD m = 0.08L;
        bool flo = std::isfinite((double)lo), fhi = std::isfinite((double)hi);
        if ((!flo || v > lo + m * (fhi ? (hi - lo) : 1)) && (!fhi || v < hi - m * (flo ? (hi - lo) : 1)))
            return a;
        if (flo && fhi) {
            // target inside, scale by a rational close to t/v
            LD t = lo + (hi - lo) * (0.15L + 0.7L * (LD)r.below(1000) / 1000);
            if (v != 0 && t / v > 0.01L && t / v < 100) {
                long n = (long)roundl(t / v * 16);
                if (n != 0)
                    return mul(Rational::from_two_ints(n, 16), a);
            }
            long n = (long)roundl((t - v) * 8);
            return add(Rational::from_two_ints(n, 8), a);
        }
        if (flo) {
            long k = (long)ceill(lo - v) + 1 + (long)r.below(3);
            return add(integer(k), a);
        }
        long k = (long)ceill(v - hi) + 1 + (long)r.below(3);
        return sub(a, integer(k));
    }

    RCP<const Boolean> cond(int depth)
    {
        unsigned k = r.below(lambda_mode ? 10 : 4);
        RCP<const Basic> a = nonnum(depth - 1), b = r.coin() ? nonnum(depth - 1) : (RCP<const Basic>)small_rat();
        RCP<const Basic> c;
        switch (k) {
            case 0:
                c = Lt(a, b);
                break;
            case 1:
                c = Le(a, b);
                break;
            case 2:
                c = r.coin(1, 4) ? Eq(a, b) : Lt(b, a);
                break;
            case 3:
                c = r.coin(1, 4) ? Ne(a, b) : Le(b, a);
                break;
            case 4:
            case 5: {
                set_boolean s{Lt(a, b), Le(nonnum(depth - 1), small_rat())};
                c = k == 4 ? logical_and(s) : logical_or(s);
                break;
            }
            case 6:
                c = logical_xor({Lt(a, b), Le(nonnum(depth - 1), small_rat())});
                break;
            case 7:
                c = logical_not(Lt(a, b));
                break;
            case 8: {
                long lo = r.range(-5, 2), hi = lo + r.range(1, 6);
                c = contains(a, interval(integer(lo), integer(hi), r.coin(), r.coin()));
                break;
            }
            default: {
                long lo = r.range(-5, 2);
                if (r.coin())
                    c = contains(a, interval(integer(lo), Inf, r.coin(), true));
                else
                    c = contains(a, interval(NegInf, integer(lo), true, r.coin()));
            }
        }
        if (!is_a_Boolean(*c))
            return boolTrue;
        return rcp_static_cast<const Boolean>(c);
    }

    RCP<const Basic> unary_fn(int depth)
    {
        static const char *names[] = {"Sin", "Cos", "Tan", "Cot", "Sec", "Csc", "ASin", "ACos", "ATan", "ASec", "ACsc", "ACot",
                                      "Sinh", "Cosh", "Tanh", "Coth", "Sech", "Csch", "ASinh", "ACosh", "ATanh", "ACsch",
                                      "ACoth", "ASech", "Log", "Abs", "Gamma", "LogGamma", "Erf", "Erfc", "Exp", "Sqrt",
                                      "Sign", "Floor", "Ceiling", "Truncate"};
        unsigned n = lambda_mode ? 36 : 32;
        std::string f = names[r.below(n)];
        RCP<const Basic> a = expr(depth - 1);
        LD inf = std::numeric_limits<LD>::infinity();
        if (f == "ASin" || f == "ACos" || f == "ATanh")
            a = fit(a, -1, 1);
        else if (f == "ACosh")
            a = fit(a, 1, inf);
        else if (f == "ASech")
            a = fit(a, 0, 1);
        else if (f == "ASec" || f == "ACsc" || f == "ACoth")
            a = fit(a, 0, 0, true);
        else if (f == "Log" || f == "Sqrt")
            a = fit(a, 0, inf);
        else if (f == "Gamma" || f == "LogGamma")
            a = fit(a, 0.1L, 12);
        else if (f == "Exp" || f == "Sinh" || f == "Cosh")
            a = fit(a, -8, 8);
        if (f == "Exp")
            return exp(a);
        if (f == "Sqrt")
            return sqrt(a);
        return vsexp::build_named(f, {a});
    }

    RCP<const Basic> expr(int depth)
    {
        if (depth <= 0)
            return leaf();
        for (int t = 0; t < max_tries; t++) {
            RCP<const Basic> e;
            try {
                e = candidate(depth);
            } catch (const std::exception &) {
                // constructors may assert / throw on special argument combinations (e.g. atan2(a, a)): not this property
                continue;
            }
            if (good(e))
                return e;
        }
        return leaf();
    }

    RCP<const Basic> candidate(int depth)
    {
        unsigned k = r.below(100);
        if (k < 18) { // sum
            RCP<const Basic> s = r.coin() ? (RCP<const Basic>)small_rat() : (RCP<const Basic>)zero;
            int n = (int)r.range(2, 4);
            for (int i = 0; i < n; i++)
                s = add(s, mul(r.coin() ? (RCP<const Basic>)small_rat() : (RCP<const Basic>)one, expr(depth - 1)));
            return s;
        }
        if (k < 34) { // product
            RCP<const Basic> p = r.coin() ? (RCP<const Basic>)small_rat() : (RCP<const Basic>)one;
            int n = (int)r.range(2, 3);
            for (int i = 0; i < n; i++) {
                RCP<const Basic> f = expr(depth - 1);
                unsigned w = r.below(6);
                if (w == 0)
                    f = pow(f, integer(r.range(-2, 3)));
                else if (w == 1)
                    f = pow(fit(f, 0, std::numeric_limits<LD>::infinity()), small_rat());
                p = mul(p, f);
            }
            return p;
        }
        if (k < 46) { // power
            unsigned w = r.below(5);
            if (w == 0)
                return pow(E, fit(expr(depth - 1), -8, 8));
            if (w == 1)
                return pow(expr(depth - 1), integer(r.range(-3, 4)));
            RCP<const Basic> b = fit(expr(depth - 1), 0, std::numeric_limits<LD>::infinity());
            if (w == 2)
                return pow(b, small_rat());
            if (w == 3)
                return pow(b, Rational::from_two_ints(r.coin() ? 1 : -1, r.coin() ? 2 : 3));
            return pow(b, fit(expr(depth - 1), -4, 4));
        }
        if (k < 80)
            return unary_fn(depth);
        if (k < 84)
            return atan2(expr(depth - 1), expr(depth - 1));
        if (k < 90) {
            vec_basic v;
            int n = (int)r.range(2, 4);
            for (int i = 0; i < n; i++)
                v.push_back(i == 0 ? nonnum(depth - 1) : expr(depth - 1));
            return r.coin() ? max(v) : min(v);
        }
        if (k < 97) {
            PiecewiseVec v;
            int n = (int)r.range(1, 3);
            for (int i = 0; i < n; i++)
                v.push_back({expr(depth - 1), cond(depth)});
            v.push_back({expr(depth - 1), boolTrue});
            return piecewise(v);
        }
        if (k < 99)
            return unevaluated_expr(expr(depth - 1));
        // a relational / boolean used as a number (result 0/1)
        if (!c_mode)
            return cond(depth);
        return unary_fn(depth);
    }
};

inline void count_kinds(const Basic &b, std::map<std::string, long> &m)
{
    m[type_code_name(b.get_type_code())]++;
    for (auto &a : b.get_args())
        count_kinds(*a, m);
}
inline size_t tree_size(const Basic &b)
{
    size_t n = 1;
    for (auto &a : b.get_args())
        n += tree_size(*a);
    return n;
}

} // namespace evf
#endif
