// C18: parsing arbitrary input is safe, and parser reuse is stateless.
//
// Op lines:
//   seq  <cx> <hex>|<hex>|...     the byte strings are fed, in order, to ONE reused SymEngine::Parser object
//                                 (Parser::parse(input, convert_xor = cx))
//   seqs <hex>|<hex>|...          the same with ONE reused SymEngine::SbmlParser object
// Output: one class per input joined by '|': `ok` or the error token of the exception (E:Parse ...).
//
// Oracle (independent of the Lean model): every input is also parsed by a *fresh* parser object; the reused object
// must answer the same (same exception class, or results with identical canonical dumps, structurally equal, equal
// hashes).  Crashes, hangs and sanitizer reports are caught by the runner (the thorough tier repeats the same ops on
// the `asan` build: -fsanitize=address,undefined); an exception that is not a SymEngine exception or std::bad_alloc
// escaping parse() is reported as well.
#include "common.h"
#include "sexp.h"
#include <symengine/parser.h>
#include <symengine/parser/parser.h>
#include <symengine/parser/sbml/sbml_parser.h>

using namespace SymEngine;

static std::string unhex(const std::string &h)
{
    std::string o;
    for (size_t i = 0; i + 1 < h.size(); i += 2)
        o.push_back((char)std::stoi(h.substr(i, 2), nullptr, 16));
    return o;
}
static std::string hex(const std::string &s)
{
    static const char *D = "0123456789abcdef";
    std::string o;
    for (unsigned char c : s) {
        o.push_back(D[c >> 4]);
        o.push_back(D[c & 15]);
    }
    return o;
}

struct Res {
    std::string cls;  // ok | E:...
    std::string dump; // canonical dump when ok
    RCP<const Basic> val;
};

template <class P, class F>
static Res run_one(P &p, const std::string &in, F call)
{
    Res r;
    try {
        r.val = call(p, in);
        if (r.val.is_null()) {
            r.cls = "NULL";
            return r;
        }
        r.cls = "ok";
        r.dump = vsexp::dump(*r.val);
    } catch (const VerifAssertError &e) {
        r.cls = "E:Assert";
    } catch (const std::exception &e) {
        r.cls = exc_name(e);
    }
    return r;
}

template <class P, class F>
static std::string run_seq(const std::vector<std::string> &inputs, F call, std::string &oracle)
{
    P reused;
    std::vector<std::string> out;
    for (size_t k = 0; k < inputs.size(); k++) {
        Res a = run_one(reused, inputs[k], call);
        P fresh;
        Res b = run_one(fresh, inputs[k], call);
        stat("inputs");
        stat("class_" + a.cls);
        bool same = a.cls == b.cls && a.dump == b.dump;
        if (same && a.cls == "ok")
            same = eq(*a.val, *b.val) && a.val->hash() == b.val->hash();
        if (!same && oracle == "ok")
            oracle = "FAIL:reuse:input #" + std::to_string(k) + " of the sequence: reused parser -> " + a.cls + " "
                     + a.dump.substr(0, 120) + " ; fresh parser -> " + b.cls + " " + b.dump.substr(0, 120);
        // E:Assert = a canonical-form SYMENGINE_ASSERT inside a smart constructor (e.g. 2*0**x: mul.cpp is_canonical),
        // visible only because this build turns assertions into exceptions: property C03, counted, not judged here
        if (a.cls == "E:Assert")
            stat("constructor_assertions_left_to_C03");
        if ((a.cls == "E:Other" || a.cls == "NULL") && oracle == "ok")
            oracle = "FAIL:exception:input #" + std::to_string(k) + " -> " + a.cls
                     + " (not a library exception / null result)";
        out.push_back(a.cls);
    }
    return join(out, "|");
}

std::string hx_run(const std::string &line, std::string &oracle)
{
    auto w = split(line, ' ');
    if (w.size() == 3 && w[0] == "seq") {
        bool cx = w[1] == "1";
        std::vector<std::string> inputs;
        for (auto &h : split(w[2], '|'))
            inputs.push_back(unhex(h));
        return run_seq<Parser>(
            inputs, [cx](Parser &p, const std::string &s) { return p.parse(s, cx); }, oracle);
    }
    if (w.size() == 2 && w[0] == "seqs") {
        std::vector<std::string> inputs;
        for (auto &h : split(w[1], '|'))
            inputs.push_back(unhex(h));
        return run_seq<SbmlParser>(
            inputs, [](SbmlParser &p, const std::string &s) { return p.parse(s); }, oracle);
    }
    return "bad-op";
}

// ------------------------------------------------------------------ generation
struct G {
    Rng &r;
    bool sbml;
    bool caret_is_xor = false; // convert_xor == false: '^' is the logical xor (Boolean operands only, see D17)
    explicit G(Rng &rr, bool s) : r(rr), sbml(s) {}
    std::string nocaret(std::string s)
    {
        if (caret_is_xor)
            for (auto &c : s)
                if (c == '^')
                    c = '@';
        return s;
    }
    std::string ident()
    {
        static const char *I[] = {"x", "y", "z", "t", "a1", "b_2", "Zq", "_u", "pi", "E", "I", "e", "oo", "nan", "True",
                                  "False", "inf", "zoo", "time", "avogadro", "Piecewise", "piecewise", "e5", "E3"};
        return I[r.below(24)];
    }
    std::string number()
    {
        static const char *N[] = {"0", "1", "2", "7", "10", "010", "08", "3.5", ".5", "5.", "1e5", "1E-3", "2.5e+10",
                                  "1e30", "0.0", "00", "123456789012345678901234567890", "1e", "1e+", "1.e5", "0x10",
                                  "1_000", "9223372036854775808", "4.5e-32"};
        return N[r.below(24)];
    }
    std::string func()
    {
        // no gamma / factorial / zeta / pow(a, b): their *evaluation* on big arguments is not a parser question
        static const char *F[] = {"sin", "cos", "log", "exp", "sqrt", "abs", "f", "g", "max", "min", "atan2", "Eq",
                                  "Lt", "floor", "ln", "plus", "times", "minus", "divide", "sqr", "log10", "geq", "lt",
                                  "neq", "sign", "ceiling", "tanh", "arctan", "Ne", "Ge", "h", "erf"};
        return F[r.below(32)];
    }
    // arithmetic string (no logical operators: those need Boolean operands)
    std::string arith(int d)
    {
        unsigned k = r.below(100);
        if (d <= 0 || k < 25)
            return r.coin() ? ident() : number();
        if (k < 35)
            return (r.coin() ? "-" : "+") + arith(d - 1);
        if (k < 45)
            return "(" + arith(d - 1) + ")";
        if (k < 55) {
            std::string s = func() + "(" + arith(d - 1);
            int extra = (int)r.below(3);
            for (int i = 0; i < extra; i++)
                s += ", " + arith(d - 2);
            return s + ")";
        }
        if (k < 60 && !sbml)
            return number() + ident();
        static const char *O[] = {"+", "-", "*", "/", "**", "^", "@", " + ", " * ", "%"};
        std::string op = O[r.below(sbml ? 10 : 9)];
        if (sbml && (op == "**" || op == "@"))
            op = "^";
        if (op == "**" || op == "^" || op == "@") // keep powers small: 9**9**9 is not a parser question
            return "(" + arith(d - 1) + ")" + op + std::to_string(r.below(4));
        if (op == "%") // the quotient is rounded: keep it finite (see D18)
            return "(" + arith(d - 1) + ")%" + std::to_string(1 + r.below(9));
        return arith(d - 1) + op + arith(d - 1);
    }
    std::string rel(int d)
    {
        static const char *O[] = {"<", ">", "<=", ">=", "==", "!="};
        return arith(d) + O[r.below(6)] + arith(d);
    }
    std::string logic(int d)
    {
        unsigned k = r.below(100);
        if (d <= 0 || k < 35)
            return "(" + rel(1) + ")";
        if (k < 50)
            return (sbml ? "!" : "~") + logic(d - 1);
        const char *o = sbml ? (r.coin() ? " && " : " || ") : (r.coin() ? " & " : " | ");
        return logic(d - 1) + o + logic(d - 1);
    }
    std::string valid()
    {
        unsigned k = r.below(10);
        if (k < 6)
            return arith(1 + (int)r.below(4));
        if (k < 8)
            return rel(1 + (int)r.below(2));
        if (k < 9)
            return logic(1 + (int)r.below(2));
        if (sbml)
            return "piecewise(" + arith(1) + ", " + rel(1) + ", " + arith(1) + ")";
        return "Piecewise((" + arith(1) + ", " + rel(1) + "), (" + arith(1) + ", True))";
    }
    std::string mutate(std::string s)
    {
        // '!' is SBML's logical not: on a non-Boolean operand it is the known crash D17, kept to its own family
        // no power operators either: "9223372036854775808" -> "922337203^685477580" is an evaluation blow-up,
        // not a parser question (powers still occur through the valid strings that are mutated)
        static const std::string alphabet0 = "+-/()<>=!,. \t\n0123456789eExy_$#;'\"[]{}?:\\%";
        static const std::string alphabet1 = "+-/()<>=,. \t\n0123456789eExy_$#;'\"[]{}?:\\%";
        const std::string &alphabet = sbml ? alphabet1 : alphabet0;
        int edits = 1 + (int)r.below(3);
        for (int e = 0; e < edits; e++) {
            size_t pos = s.empty() ? 0 : r.below(s.size() + 1);
            unsigned k = r.below(4);
            char c;
            unsigned kind = r.below(10);
            if (kind < 6)
                c = alphabet[r.below(alphabet.size())];
            else if (kind < 7)
                c = '\0';
            else if (kind < 9)
                c = (char)(128 + r.below(128));
            else
                c = (char)(1 + r.below(31));
            if (k == 0 && !s.empty() && pos < s.size())
                s.erase(pos, 1);
            else if (k == 1 || s.empty() || pos >= s.size())
                s.insert(std::min(pos, s.size()), 1, c);
            else if (k == 2)
                s[pos] = c;
            else
                s = s.substr(0, pos); // truncation: unterminated constructs
        }
        return s;
    }
    std::string random_bytes()
    {
        std::string s;
        int n = (int)r.below(24);
        for (int i = 0; i < n; i++) {
            unsigned kind = r.below(10);
            // logical operator characters are left to the dedicated family (known crash on non-Boolean operands)
            static const std::string safe = "+-/()<>=,. 0123456789eExyz_";
            if (kind < 6)
                s.push_back(safe[r.below(safe.size())]);
            else {
                char c = (char)r.below(256);
                if (c == '~' || c == '|' || c == '&' || c == '!' || c == '^' || c == '@' || c == '*')
                    c = '#';
                s.push_back(c);
            }
        }
        return s;
    }
};

static const char *UNTERMINATED[] = {"(", ")", "((", "f(", "f(x", "f(x,", "f(x,)", "f()", "Piecewise(", "Piecewise((x",
                                     "Piecewise((x,", "Piecewise((x, y<z)", "Piecewise((x, y<z),", "1e", "1e+", "1e-",
                                     "x**", "x *", "x <", "x <=", "!=", "!", "=", "x =", "x = y", ".", "..", "1..2", "",
                                     " ", "\t\n", "x y", "2 3", "x(", "2(3)", "**", "*", "/", "-", "+", "--", "+-+",
                                     "x,y", ",", "@", "x@", "<", ">=", "==", "x ==", "x ! y", "$", "x$", "\\", "\"x\"",
                                     "'x'", "[1]", "{x}", "x;", "x:y", "x?", "#", "`"};

void hx_gen(Rng &r, const std::string &tier)
{
    bool th = tier == "thorough";
    auto seq = [&](const std::vector<std::string> &ins, bool cx, bool sbml, const std::string &tag) {
        std::vector<std::string> hs;
        for (auto &s : ins)
            hs.push_back(hex(s));
        if (sbml)
            emit("seqs " + join(hs, "|"), tag);
        else
            emit(std::string("seq ") + (cx ? "1 " : "0 ") + join(hs, "|"), tag);
    };
    for (int sb = 0; sb < 2; sb++) {
        bool sbml = sb == 1;
        G g(r, sbml);
        std::string pre = sbml ? "sbml-" : "";
        // fixed boundary strings, each framed by valid inputs: valid, X, valid
        for (auto u : UNTERMINATED)
            seq({"x + 1", std::string(u), "x + 1", std::string(u), "2*y"}, true, sbml, pre + "unterminated");
        // embedded NUL: the tokenizer stops at the first NUL
        seq({std::string("x+1\0garbage(", 12), std::string("\0", 1), std::string("x\0", 2), "y"}, true, sbml,
            pre + "embedded-nul");
        // long tokens
        for (size_t len : {1000u, 20000u, (unsigned)(th ? 300000 : 60000)}) {
            seq({std::string(len, 'a'), "x"}, true, sbml, pre + "long-identifier");
            seq({std::string(len, '7'), "x"}, true, sbml, pre + "long-integer");
            seq({"0." + std::string(len, '3') + "e-5", "x"}, true, sbml, pre + "long-float");
            seq({std::string(len, ' ') + "x", "x"}, true, sbml, pre + "long-whitespace");
            seq({std::string(len, '\xc3'), "x"}, true, sbml, pre + "long-highbytes");
        }
        // nesting (capped: the expression tree itself is recursive in the library)
        for (int depth : {10, 200, th ? 3000 : 1000}) {
            seq({std::string(depth, '(') + "x" + std::string(depth, ')'), "x"}, true, sbml, pre + "deep-parens");
            seq({std::string(depth, '(') + "x" + std::string(depth - 1, ')'), "x"}, true, sbml, pre + "deep-parens-open");
            seq({std::string(depth, '-') + "x", "x"}, true, sbml, pre + "deep-unary");
            std::string s;
            int d2 = std::min(depth, 400);
            for (int i = 0; i < d2; i++)
                s += "f(";
            s += "x" + std::string(d2, ')');
            seq({s, "x"}, true, sbml, pre + "deep-calls");
            std::string t = "x";
            for (int i = 0; i < d2; i++)
                t += "+x*y" + std::to_string(i % 7);
            seq({t, "x"}, true, sbml, pre + "long-sum");
        }
        // logical operators / Boolean functions on non-Boolean operands (defect D17: static cast to Boolean)
        if (!sbml) {
            for (auto u : {"~x", "x | y", "x & y", "1 | 2", "(x<y) | z"})
                seq({"x", std::string(u), "x"}, true, false, "logic-nonboolean");
            seq({"x", "x ^ y", "x"}, false, false, "logic-nonboolean");
            for (auto u : {"Not(x)", "And(x, y)", "Xor(x, y<z)", "Piecewise((x, y))"})
                seq({"x", std::string(u), "x"}, true, false, "logic-nonboolean-checked");
        } else {
            for (auto u : {"!x", "x && y", "x || y", "not(x)", "and(x, y)", "xor(x, y)", "piecewise(1, x)"})
                seq({"x", std::string(u), "x"}, true, true, "sbml-logic-nonboolean");
        }
        // floor / ceiling / % of an infinite double (defect D18: mpz_set_d(inf) traps with SIGFPE)
        if (!sbml) {
            seq({"x", "floor(1e400)", "x"}, true, false, "nonfinite-rounding");
            seq({"x", "ceiling(-1e400)", "x"}, true, false, "nonfinite-rounding");
        } else
            seq({"x", "1e400 % 2", "x"}, true, true, "sbml-nonfinite-rounding");
        int n = th ? 6000 : 500;
        for (int i = 0; i < n; i++) {
            int len = 2 + (int)r.below(6);
            g.caret_is_xor = !sbml && r.coin(1, 5);
            std::vector<std::string> ins;
            std::string tag = pre + "mixed";
            for (int k = 0; k < len; k++) {
                unsigned kind = r.below(10);
                if (kind < 4)
                    ins.push_back(g.nocaret(g.valid()));
                else if (kind < 8)
                    ins.push_back(g.nocaret(g.mutate(r.coin(3, 4) ? g.arith(1 + (int)r.below(4)) : g.rel(1))));
                else
                    ins.push_back(g.nocaret(g.random_bytes()));
            }
            seq(ins, !g.caret_is_xor, sbml, g.caret_is_xor ? "mixed-noconvert" : tag);
        }
    }
}
