// Random *real* expressions built through the public API, shared by harness/c01.cpp and harness/c02.cpp.
// Everything derives from the Rng handed in, so a (seed, parameters) pair is a complete recipe.
//
// Safety rules of the generator (known crashes/hangs of the baseline that belong to other properties):
//   * numeric base ** non-numeric exponent only with exact base and a double-free exponent   (D7, mul.cpp:298)
//   * integer exponents of numeric bases are small; function arguments that are numbers are small
//     (gamma/zeta/bernoulli of huge integers do not terminate in reasonable time)
//   * no polynomial powers (D12)
//   * zeta(s, a) only with positive numeric a (zeta(2, 0) does not terminate: harmonic(ULONG_MAX, 2))
#ifndef VERIF_C01_GEN_H
#define VERIF_C01_GEN_H
#include "common.h"
#include "sexp.h"
#include <cmath>
#include <limits>
#include <symengine/parser.h>
#include <symengine/polys/uintpoly.h>
#include <symengine/polys/uratpoly.h>
#include <symengine/polys/uexprpoly.h>
#include <symengine/polys/msymenginepoly.h>
#include <symengine/matrices/matrix_expr.h>
#include <symengine/matrices/identity_matrix.h>
#include <symengine/matrices/zero_matrix.h>
#include <symengine/matrices/matrix_symbol.h>
#include <symengine/matrices/diagonal_matrix.h>
#include <symengine/matrices/matrix_add.h>
#include <symengine/matrices/transpose.h>
#include <symengine/matrices/trace.h>

namespace xg
{
using namespace SymEngine;
typedef RCP<const Basic> B;

inline double bits_dbl(uint64_t u)
{
    double d;
    memcpy(&d, &u, 8);
    return d;
}

// ---------------------------------------------------------------- tree predicates
// stored children.  Add/Mul are read from their dictionaries: Add::get_args()/Mul::get_args() *construct*
// Mul/Pow objects and trip canonical-form assertions on some library results (a C03 matter, not ours).
inline vec_basic kids(const Basic &b)
{
    vec_basic v;
    if (is_a<Add>(b)) {
        const Add &a = down_cast<const Add &>(b);
        v.push_back(a.get_coef());
        for (auto &p : a.get_dict()) {
            v.push_back(p.first);
            v.push_back(p.second);
        }
        return v;
    }
    if (is_a<Mul>(b)) {
        const Mul &m = down_cast<const Mul &>(b);
        v.push_back(m.get_coef());
        for (auto &p : m.get_dict()) {
            v.push_back(p.first);
            v.push_back(p.second);
        }
        return v;
    }
    if (is_a<Infty>(b))
        return v;
    return b.get_args();
}
inline bool any_node(const Basic &b, bool (*p)(const Basic &))
{
    if (p(b))
        return true;
    for (auto &a : kids(b))
        if (any_node(*a, p))
            return true;
    return false;
}
inline bool is_nan_dbl(const Basic &b)
{
    if (is_a<RealDouble>(b))
        return std::isnan(down_cast<const RealDouble &>(b).i);
    if (is_a<ComplexDouble>(b)) {
        auto z = down_cast<const ComplexDouble &>(b).i;
        return std::isnan(z.real()) || std::isnan(z.imag());
    }
    return false;
}
inline bool is_zero_dbl(const Basic &b)
{
    if (is_a<RealDouble>(b))
        return down_cast<const RealDouble &>(b).i == 0.0;
    if (is_a<ComplexDouble>(b)) {
        auto z = down_cast<const ComplexDouble &>(b).i;
        return z.real() == 0.0 || z.imag() == 0.0;
    }
    return false;
}
inline bool is_inexact(const Basic &b)
{
    return is_a<RealDouble>(b) || is_a<ComplexDouble>(b);
}
inline bool has_nan(const Basic &b)
{
    return any_node(b, is_nan_dbl);
}
inline bool has_zero_dbl(const Basic &b)
{
    return any_node(b, is_zero_dbl);
}
inline bool has_inexact(const Basic &b)
{
    return any_node(b, is_inexact);
}

// classes the Lean model covers (mirror of Gen/TypeCodes.lean `kinds` + the built-in constructors);
// anything else makes the driver answer SKIP:unmodelled, the oracle still runs on it.
inline bool node_modelled(const Basic &b)
{
    switch (b.get_type_code()) {
        case SYMENGINE_INTEGER: case SYMENGINE_RATIONAL: case SYMENGINE_COMPLEX: case SYMENGINE_REAL_DOUBLE:
        case SYMENGINE_COMPLEX_DOUBLE: case SYMENGINE_NOT_A_NUMBER: case SYMENGINE_SYMBOL:
        case SYMENGINE_CONSTANT: case SYMENGINE_ADD: case SYMENGINE_MUL: case SYMENGINE_POW:
        case SYMENGINE_FUNCTIONSYMBOL: case SYMENGINE_BOOLEAN_ATOM:
            return true;
        case SYMENGINE_INFTY:
            return is_a<Integer>(*down_cast<const Infty &>(b).get_direction());
        case SYMENGINE_DUMMY: case SYMENGINE_DERIVATIVE: case SYMENGINE_SUBS: case SYMENGINE_PIECEWISE:
        case SYMENGINE_CONDITIONSET: case SYMENGINE_IMAGESET: case SYMENGINE_FUNCTIONWRAPPER:
        case SYMENGINE_NUMBER_WRAPPER: case SYMENGINE_TUPLE:
            return false;
        // modelled in Lean (kinds set / lex 2) but harness/sexp.h cannot rebuild them: no correspondence ops
        case SYMENGINE_INTERSECTION: case SYMENGINE_COMPLEMENT:
            return false;
        default:
            break;
    }
    TypeID t = b.get_type_code();
    if (t >= SYMENGINE_UINTPOLY && t <= SYMENGINE_UNIVARIATESERIES)
        return false;
    if (t >= SYMENGINE_IDENTITYMATRIX && t <= SYMENGINE_TRANSPOSE)
        return false;
    return true;
}
inline bool modelled(const Basic &b)
{
    if (!node_modelled(b))
        return false;
    for (auto &a : kids(b))
        if (!modelled(*a))
            return false;
    return true;
}
// NaN doubles below the top level sit inside RCPBasicKeyLess-ordered containers whose order is then
// insertion-history dependent (D3); the correspondence ops keep NaN at the top level only.
inline bool nan_only_top(const Basic &b)
{
    for (auto &a : kids(b))
        if (has_nan(*a))
            return false;
    return true;
}
inline bool dumpable(const Basic &b)
{
    // names must be single tokens
    if (is_a<Symbol>(b) || is_a<FunctionSymbol>(b) || is_a<Constant>(b)) {
        std::string n = is_a<Symbol>(b) ? down_cast<const Symbol &>(b).get_name()
                        : is_a<Constant>(b) ? down_cast<const Constant &>(b).get_name()
                                            : down_cast<const FunctionSymbol &>(b).get_name();
        if (n.empty())
            return false;
        for (char c : n)
            if (c == ' ' || c == '(' || c == ')' || c == '\t')
                return false;
    }
    for (auto &a : kids(b))
        if (!dumpable(*a))
            return false;
    return true;
}

// ---------------------------------------------------------------- generator
struct Gen {
    Rng &r;
    bool exotic;   // also produce classes outside the Lean model (Derivative, Subs, Piecewise, polys, matrices …)
    unsigned nan_pm;   // per-mille of doubles that are NaN
    bool no_negzero = false; // never produce the double -0.0
    bool no_matexpr = false; // no matrix-expression nodes (their compare() mis-casts mixed Integer/Symbol sizes)
    bool no_mpoly = false;   // no multivariate polynomials (D2)
    unsigned long failures = 0;
    Gen(Rng &rng, bool ex, unsigned nanpm) : r(rng), exotic(ex), nan_pm(nanpm) {}

    static const std::vector<std::string> &sym_names()
    {
        static const std::vector<std::string> v{"x", "y", "z", "a", "b", "t", "x1", "alpha", "X", "yy", "_u", "w'"};
        return v;
    }
    RCP<const Symbol> sym()
    {
        return symbol(r.pick(sym_names()));
    }
    integer_class big_int()
    {
        // magnitudes around the 2^63 / 2^64 limb boundaries and multi-limb values
        integer_class v;
        switch (r.below(6)) {
            case 0:
                v = integer_class(1) << 63;
                break;
            case 1:
                v = integer_class(1) << 64;
                break;
            case 2:
                v = integer_class(1) << (unsigned)(65 + r.below(140));
                break;
            case 3:
                v = (integer_class(1) << 64) * integer_class((unsigned long)r.below(1000) + 1);
                break;
            default: {
                v = 0;
                int limbs = 1 + (int)r.below(3);
                for (int i = 0; i < limbs; i++) {
                    v <<= 32;
                    v += integer_class((unsigned long)(r.next() >> 32));
                    v <<= 32;
                    v += integer_class((unsigned long)(r.next() >> 32));
                }
            }
        }
        v += integer_class((long)r.range(-2, 2));
        if (r.coin())
            v = -v;
        return v;
    }
    RCP<const Number> small_int()
    {
        return integer((long)r.range(-6, 9));
    }
    RCP<const Number> rat(bool big)
    {
        if (big) {
            integer_class n = big_int(), d = big_int();
            if (d == 0)
                d = 7;
            return Rational::from_two_ints(*integer(n), *integer(d));
        }
        long d = (long)r.range(2, 9);
        return Rational::from_two_ints((long)r.range(-9, 9), d);
    }
    double dbl()
    {
        double d = dbl_raw();
        if (no_negzero && d == 0.0)
            return 0.0;
        return d;
    }
    double dbl_raw()
    {
        if (r.below(1000) < nan_pm)
            return r.coin(3, 4) ? std::numeric_limits<double>::quiet_NaN() : bits_dbl(0xfff8000000000001ULL);
        static const double pool[] = {0.0, -0.0, 1.0, -1.0, 0.5, 2.5, -2.5, 3.0, 1e300, -1e-300, 5e-324, -5e-324,
                                      0.1, 1.0000000000000002, std::numeric_limits<double>::infinity(),
                                      -std::numeric_limits<double>::infinity(), 2.0, -0.5};
        if (r.coin(4, 5))
            return pool[r.below(sizeof pool / sizeof pool[0])];
        return (double)r.range(-1000, 1000) / 8.0;
    }
    RCP<const Number> number(bool exact_only = false, bool small_only = false)
    {
        unsigned k = r.below(exact_only ? 60 : 100);
        if (small_only)
            k = k % 30 < 18 ? 0 : (exact_only ? 20 : (k < 60 ? 20 : 60));
        if (k < 18)
            return small_int();
        if (k < 26)
            return small_only ? small_int() : RCP<const Number>(integer(big_int()));
        if (k < 38)
            return rat(false);
        if (k < 42)
            return small_only ? rat(false) : rat(true);
        if (k < 50)
            return Complex::from_two_nums(*rat(false), *small_int());
        if (k < 54)
            return Complex::from_two_nums(*small_int(), *rat(r.coin(1, 4) && !small_only));
        if (k < 56)
            return r.coin() ? Inf : (r.coin() ? NegInf : ComplexInf);
        if (k < 60)
            return Nan;
        if (k < 88)
            return real_double(dbl());
        return complex_double(std::complex<double>(dbl(), dbl()));
    }
    B constant_()
    {
        switch (r.below(5)) {
            case 0:
                return pi;
            case 1:
                return E;
            case 2:
                return EulerGamma;
            case 3:
                return Catalan;
            default:
                return GoldenRatio;
        }
    }
    B atom(bool exact_only)
    {
        unsigned k = r.below(10);
        if (k < 4)
            return sym();
        if (k < 5)
            return constant_();
        return number(exact_only);
    }
    // function arguments that are numbers must be small
    B fn_arg(int depth, bool exact_only)
    {
        B a = expr(depth, exact_only);
        if (is_a_Number(*a)) {
            // finite, small: floor/ceiling/truncate of an infinite or NaN double raise SIGFPE in mpz_set_d,
            // gamma/zeta of huge integers do not terminate
            if (r.coin(2, 3))
                return sym();
            switch (r.below(exact_only ? 3 : 5)) {
                case 0:
                    return small_int();
                case 1:
                    return rat(false);
                case 2:
                    return Complex::from_two_nums(*rat(false), *small_int());
                case 3:
                    return real_double((double)r.range(-40, 40) / 8.0);
                default:
                    return complex_double(std::complex<double>((double)r.range(-8, 8) / 4.0, (double)r.range(-8, 8) / 2.0));
            }
        }
        return a;
    }
    B one_arg_fn(const B &a)
    {
        typedef B (*F)(const B &);
        static const F fs[] = {
            sin, cos, tan, cot, csc, sec, asin, acos, asec, acsc, atan, acot, sinh, csch, cosh, sech, tanh, coth,
            asinh, acsch, acosh, atanh, acoth, asech,
            [](const B &x) { return log(x); }, abs, sign, floor, ceiling, truncate, conjugate, gamma, loggamma, erf,
            erfc, lambertw, dirichlet_eta, exp, sqrt, cbrt, [](const B &x) { return zeta(x); }, digamma,
            unevaluated_expr};
        return fs[r.below(sizeof fs / sizeof fs[0])](a);
    }
    B two_arg_fn(const B &a, const B &b)
    {
        switch (r.below(8)) {
            case 0:
                return atan2(a, b);
            case 1:
                // zeta(s, 0) with an even integer s calls harmonic((unsigned long)(0 - 1), s): 2^64 iterations
                if (is_a_Number(*b) && !down_cast<const Number &>(*b).is_positive())
                    return zeta(a, sym());
                return zeta(a, b);
            case 2:
                return kronecker_delta(a, b);
            case 3:
                return polygamma(a, b);
            case 4:
                return lowergamma(a, b);
            case 5:
                return uppergamma(a, b);
            case 6:
                return beta(a, b);
            default:
                return log(a, b);
        }
    }
    B expr_raw(int depth, bool exact_only)
    {
        if (depth <= 0)
            return atom(exact_only);
        unsigned k = r.below(100);
        if (k < 12)
            return atom(exact_only);
        if (k < 30) {
            unsigned n = 2 + r.below(3);
            vec_basic v;
            for (unsigned i = 0; i < n; i++)
                v.push_back(expr(depth - 1, exact_only));
            return add(v);
        }
        if (k < 46) {
            unsigned n = 2 + r.below(3);
            vec_basic v;
            for (unsigned i = 0; i < n; i++)
                v.push_back(expr(depth - 1, exact_only));
            return mul(v);
        }
        if (k < 60) {
            B b = expr(depth - 1, exact_only);
            if (is_a_Number(*b)) {
                if (!down_cast<const Number &>(*b).is_exact() || r.coin()) {
                    // number ** number: small exact exponent
                    RCP<const Number> e = r.coin() ? RCP<const Number>(integer((long)r.range(-3, 4))) : rat(false);
                    return pow(b, e);
                }
                // exact numeric base, symbolic double-free exponent; keep the base small (2**x, (1/3)**y, I**z …)
                B e = expr(depth - 1, true);
                if (is_a_Number(*e))
                    e = sym();
                return pow(number(true, true), e);
            }
            // huge exponents only on atoms: (2*x)**(2**64) would evaluate 2**(2**64)
            bool atomic = is_a<Symbol>(*b) || is_a<FunctionSymbol>(*b) || is_a<Constant>(*b);
            B e = r.coin(1, 2) ? B(number(exact_only, !atomic)) : expr(depth - 1, exact_only);
            if (!atomic && is_a_Number(*e) && !is_a<RealDouble>(*e) && !is_a<ComplexDouble>(*e) && !is_a<Infty>(*e)
                && !is_a<NaN>(*e) && e->__str__().size() > 6)
                e = small_int();
            return pow(b, e);
        }
        if (k < 72)
            return one_arg_fn(fn_arg(depth - 1, exact_only));
        if (k < 78)
            return two_arg_fn(fn_arg(depth - 1, exact_only), fn_arg(depth - 1, exact_only));
        if (k < 82) {
            vec_basic v;
            unsigned n = 1 + r.below(4);
            for (unsigned i = 0; i < n; i++)
                v.push_back(fn_arg(depth - 1, exact_only));
            switch (r.below(3)) {
                case 0:
                    return max(v);
                case 1:
                    return min(v);
                default:
                    return levi_civita(v);
            }
        }
        if (k < 92) {
            static const std::vector<std::string> fn{"f", "g", "F", "h1"};
            vec_basic v;
            unsigned n = 1 + r.below(3);
            for (unsigned i = 0; i < n; i++)
                v.push_back(r.coin(1, 3) ? B(number(exact_only)) : expr(depth - 1, exact_only));
            return function_symbol(r.pick(fn), v);
        }
        if (k < 96)
            return sub(expr(depth - 1, exact_only), expr(depth - 1, exact_only));
        if (k < 98)
            return div(expr(depth - 1, exact_only), sym());
        return neg(expr(depth - 1, exact_only));
    }
    B expr(int depth, bool exact_only = false)
    {
        for (int tries = 0; tries < 20; tries++) {
            try {
                B e = expr_raw(depth, exact_only);
                if (exact_only && has_inexact(*e))
                    continue;
                return e;
            } catch (const std::exception &) {
                failures++;
            }
        }
        return sym();
    }
    RCP<const Boolean> boolean_raw(int depth)
    {
        unsigned k = r.below(100);
        if (depth <= 0 || k < 45) {
            B a = expr(std::max(0, depth - 1)), b = expr(std::max(0, depth - 1));
            switch (r.below(6)) {
                case 0:
                    return Eq(a, b);
                case 1:
                    return Ne(a, b);
                case 2:
                    return Le(a, b);
                case 3:
                    return Lt(a, b);
                case 4:
                    return Ge(a, b);
                default:
                    return Gt(a, b);
            }
        }
        if (k < 50)
            return r.coin() ? boolTrue : boolFalse;
        if (k < 60)
            return logical_not(boolean(depth - 1));
        if (k < 68)
            return contains(expr(depth - 1), set(depth - 1));
        set_boolean s;
        vec_boolean v;
        unsigned n = 2 + r.below(3);
        for (unsigned i = 0; i < n; i++) {
            auto b = boolean(depth - 1);
            s.insert(b);
            v.push_back(b);
        }
        if (k < 82)
            return logical_and(s);
        if (k < 95)
            return logical_or(s);
        return logical_xor(v);
    }
    RCP<const Boolean> boolean(int depth)
    {
        for (int tries = 0; tries < 20; tries++) {
            try {
                return boolean_raw(depth);
            } catch (const std::exception &) {
                failures++;
            }
        }
        return Lt(sym(), sym());
    }
    RCP<const Number> real_exact()
    {
        return r.coin(2, 3) ? small_int() : rat(false);
    }
    RCP<const Set> simple_set()
    {
        for (int tries = 0; tries < 20; tries++) {
            try {
                unsigned k = r.below(50);
                RCP<const Set> s = set_raw_k(k, 0);
                if (is_a<Interval>(*s) || is_a<FiniteSet>(*s))
                    return s;
            } catch (const std::exception &) {
                failures++;
            }
        }
        return interval(integer(0), integer(1));
    }
    RCP<const Set> set_raw(int depth)
    {
        return set_raw_k(r.below(100), depth);
    }
    RCP<const Set> set_raw_k(unsigned k, int depth)
    {
        if (k < 25) {
            RCP<const Number> a = real_exact(), b = real_exact();
            if (a->__cmp__(*b) == 1)
                std::swap(a, b);
            if (r.coin(1, 8))
                a = NegInf;
            if (r.coin(1, 8))
                b = Inf;
            bool lo = r.coin(), ro = r.coin();
            if (is_a<Infty>(*a))
                lo = true;
            if (is_a<Infty>(*b))
                ro = true;
            return interval(a, b, lo, ro);
        }
        if (k < 50) {
            set_basic s;
            unsigned n = 1 + r.below(4);
            for (unsigned i = 0; i < n; i++)
                s.insert(r.coin() ? B(number(false)) : expr(std::max(0, depth - 1)));
            return finiteset(s);
        }
        if (k < 60) {
            switch (r.below(8)) {
                case 0:
                    return emptyset();
                case 1:
                    return universalset();
                case 2:
                    return reals();
                case 3:
                    return rationals();
                case 4:
                    return integers();
                case 5:
                    return naturals();
                case 6:
                    return naturals0();
                default:
                    return complexes();
            }
        }
        if (depth <= 0)
            return interval(integer(0), integer(1));
        // operands of the set operations are intervals / finite sets only: nesting Complement inside
        // set_union / set_complement recurses without bound (Complement::set_union <-> set_complement), and so
        // does set_union({Rationals, Interval}) when the hash order puts Rationals first (both C27 territory)
        if (k < 75)
            return SymEngine::set_union({simple_set(), simple_set()});
        if (k < 85)
            return SymEngine::set_intersection({simple_set(), simple_set()});
        if (k < 93)
            return SymEngine::set_complement(simple_set(), simple_set());
        if (exotic) {
            if (r.coin())
                return conditionset(sym(), boolean(depth - 1));
            auto s = sym();
            return imageset(s, add(mul(s, s), small_int()), simple_set());
        }
        return interval(integer(-1), integer(1), true, false);
    }
    RCP<const Set> set(int depth)
    {
        for (int tries = 0; tries < 20; tries++) {
            try {
                return set_raw(depth);
            } catch (const std::exception &) {
                failures++;
            }
        }
        return reals();
    }
    // classes outside the model: only the oracle sees them
    B exotic_raw(int depth)
    {
        auto x = sym();
        unsigned which = r.below(12);
        if (no_mpoly && which == 5)
            which = 4;
        if (no_matexpr && which >= 7)
            which = which - 7;
        if (no_mpoly && which == 5)
            which = 6;
        switch (which) {
            case 0: {
                B f = function_symbol("f", {add(mul(x, x), sym()), sym()});
                return f->diff(x);
            }
            case 1: {
                B f = function_symbol("g", sin(x));
                return f->diff(x); // Subs(Derivative(...))
            }
            case 2: {
                B f = function_symbol("f", x);
                return f->diff(x)->diff(x);
            }
            case 3: {
                PiecewiseVec v;
                v.push_back({expr(depth), boolean(1)});
                v.push_back({expr(depth), boolean(1)});
                v.push_back({expr(depth), boolTrue});
                return piecewise(v);
            }
            case 4: {
                std::vector<integer_class> c;
                unsigned n = 1 + r.below(4);
                for (unsigned i = 0; i < n; i++)
                    c.push_back(integer_class((long)r.range(-5, 5)));
                return UIntPoly::from_vec(x, c);
            }
            case 5: {
                // multivariate polynomial; constant polynomials over different variable sets included (D2)
                vec_basic vars;
                unsigned nv = 1 + r.below(2);
                for (unsigned i = 0; i < nv; i++)
                    vars.push_back(symbol(std::string(1, (char)('x' + (r.below(3))))));
                set_basic sv(vars.begin(), vars.end());
                vec_basic uv(sv.begin(), sv.end());
                umap_uvec_mpz d;
                unsigned nt = 1 + r.below(3);
                bool constant = r.coin(1, 3);
                for (unsigned i = 0; i < nt; i++) {
                    vec_uint e;
                    for (size_t j = 0; j < uv.size(); j++)
                        e.push_back(constant ? 0u : (unsigned)r.below(3));
                    d[e] = integer_class((long)r.range(1, 5));
                }
                return MIntPoly::from_dict(uv, std::move(d));
            }
            case 6: {
                std::vector<rational_class> c;
                unsigned n = 1 + r.below(3);
                for (unsigned i = 0; i < n; i++)
                    c.push_back(rational_class(integer_class((long)r.range(-5, 5)), integer_class((long)r.range(1, 4))));
                for (auto &q : c)
                    canonicalize(q);
                return URatPoly::from_vec(x, c);
            }
            case 7:
                return identity_matrix(r.coin() ? B(integer((long)r.range(1, 4))) : B(sym()));
            case 8:
                return zero_matrix(integer((long)r.range(1, 3)), r.coin() ? B(integer((long)r.range(1, 3))) : B(sym()));
            case 9:
                return matrix_add({matrix_symbol(r.coin() ? "A" : "B"), matrix_symbol(r.coin() ? "A" : "C")});
            case 10:
                return diagonal_matrix({expr(1), expr(1)});
            default:
                return transpose(matrix_symbol(r.coin() ? "A" : "B"));
        }
    }
    // any expression kind
    B any(int depth)
    {
        for (int tries = 0; tries < 20; tries++) {
            try {
                unsigned k = r.below(100);
                if (k < 62)
                    return expr(depth);
                if (k < 78)
                    return boolean(depth);
                if (k < 92 || !exotic)
                    return set(depth);
                return exotic_raw(depth);
            } catch (const std::exception &) {
                failures++;
            }
        }
        return sym();
    }
};

// the same expression with the sign of every double zero flipped (0.0 <-> -0.0); structure otherwise identical
inline B flip_zero_signs(const B &e)
{
    if (is_a<RealDouble>(*e)) {
        double d = down_cast<const RealDouble &>(*e).i;
        return d == 0.0 ? B(real_double(-d)) : e;
    }
    if (is_a<ComplexDouble>(*e)) {
        auto z = down_cast<const ComplexDouble &>(*e).i;
        double re = z.real() == 0.0 ? -z.real() : z.real(), im = z.imag() == 0.0 ? -z.imag() : z.imag();
        return complex_double(std::complex<double>(re, im));
    }
    if (is_a<FunctionSymbol>(*e)) {
        vec_basic v;
        for (auto &a : e->get_args())
            v.push_back(flip_zero_signs(a));
        return function_symbol(down_cast<const FunctionSymbol &>(*e).get_name(), v);
    }
    if (is_a<Pow>(*e)) {
        auto &p = down_cast<const Pow &>(*e);
        return make_rcp<const Pow>(flip_zero_signs(p.get_base()), flip_zero_signs(p.get_exp()));
    }
    return e;
}

// A universe of n expressions built through the API from the recipe (seed, mode):
//   mode 0: no NaN / no -0.0 doubles, no matrix expressions / multivariate polynomials
//        1: + NaN doubles (D3)   2: + -0.0 doubles (D1)   3: + matrix expressions   4: + multivariate polynomials (D2)
// with the special values of every number kind, near neighbours and independently rebuilt copies.
inline std::vector<B> make_universe(uint64_t seed, unsigned n, int mode)
{
    Rng r(seed);
    Gen g(r, true, mode == 1 ? 120 : 0);
    g.no_negzero = mode != 2;
    g.no_matexpr = mode != 3;
    g.no_mpoly = mode != 4;
    std::vector<B> u;
    // every number kind with coinciding values, the special values
    std::vector<B> fixed{integer(0), integer(1), integer(-1), integer(2), Rational::from_two_ints(1, 2),
                         Rational::from_two_ints(-1, 2), real_double(1.0), real_double(0.0), real_double(2.0),
                         real_double(0.5), complex_double(std::complex<double>(1.0, 0.0)),
                         complex_double(std::complex<double>(0.0, 1.0)), Complex::from_two_nums(*integer(1), *integer(1)),
                         Complex::from_two_nums(*integer(0), *integer(1)), Inf, NegInf, ComplexInf, Nan,
                         real_double(std::numeric_limits<double>::infinity()),
                         real_double(-std::numeric_limits<double>::infinity()), symbol("x"), symbol("y"), pi, E,
                         boolTrue, boolFalse, emptyset(), reals(), integers(), universalset()};
    for (auto &f : fixed)
        u.push_back(f);
    if (mode == 1) {
        u.push_back(real_double(std::numeric_limits<double>::quiet_NaN()));
        u.push_back(complex_double(std::complex<double>(std::numeric_limits<double>::quiet_NaN(), 1.0)));
        u.push_back(complex_double(std::complex<double>(1.0, std::numeric_limits<double>::quiet_NaN())));
    }
    if (mode == 2) {
        u.push_back(real_double(-0.0));
        u.push_back(complex_double(std::complex<double>(-0.0, 1.0)));
        u.push_back(function_symbol("f", B(real_double(0.0))));
        u.push_back(function_symbol("f", B(real_double(-0.0))));
        u.push_back(add(function_symbol("f", B(real_double(0.0))), symbol("y")));
        u.push_back(add(function_symbol("f", B(real_double(-0.0))), symbol("y")));
        u.push_back(mul(function_symbol("f", B(real_double(0.0))), symbol("y")));
        u.push_back(mul(function_symbol("f", B(real_double(-0.0))), symbol("y")));
    }
    if (mode == 3) {
        // the minimal inputs of the known defect of this mode
        u.push_back(identity_matrix(integer(2)));
        u.push_back(identity_matrix(symbol("x")));
        u.push_back(zero_matrix(integer(1), integer(1)));
        u.push_back(zero_matrix(integer(1), symbol("t")));
    }
    if (mode == 4) {
        umap_uvec_mpz d1, d2;
        d1[{0}] = integer_class(3);
        d2[{0}] = integer_class(3);
        u.push_back(MIntPoly::from_dict({symbol("x")}, std::move(d1)));
        u.push_back(MIntPoly::from_dict({symbol("y")}, std::move(d2)));
    }
    while (u.size() < n) {
        B e = g.any((int)r.below(3));
        u.push_back(e);
        // near neighbours: same structure, one ingredient changed; an independently rebuilt copy
        if (r.coin(1, 6) && u.size() < n) {
            try {
                u.push_back(add(e, g.sym()));
            } catch (const std::exception &) {
            }
        }
        if (r.coin(1, 6) && u.size() < n) {
            try {
                if (dumpable(*e))
                    u.push_back(vsexp::parse(vsexp::dump(*e)));
            } catch (const std::exception &) {
            }
        }
        if (mode == 2 && r.coin(1, 4) && u.size() < n)
            u.push_back(flip_zero_signs(e));
    }
    return u;
}


} // namespace xg
#endif
