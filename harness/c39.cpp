// C39: structural queries are accurate (free_symbols, has_symbol, atoms, function_symbols, coeff).
#include "common.h"
#include "sexp.h"
#include "exprgen.h"
#include <symengine/visitor.h>
#include <symengine/sets.h>
#include <set>

using namespace SymEngine;

static std::string joined(std::vector<std::string> v)
{
    std::sort(v.begin(), v.end());
    v.erase(std::unique(v.begin(), v.end()), v.end());
    return join(v, ";");
}
static std::string dumpset(const set_basic &s)
{
    std::vector<std::string> v;
    for (auto &e : s)
        v.push_back(vsexp::dump(*e));
    return joined(v);
}

// ---- independent reference implementations (class accessors, no visitors) ----
static void ref_free(const Basic &b, std::set<std::string> &out)
{
    if (is_a<Symbol>(b) || is_a<Dummy>(b)) {
        out.insert(vsexp::dump(b));
        return;
    }
    if (is_a<Subs>(b)) {
        const Subs &s = down_cast<const Subs &>(b);
        std::set<std::string> inner;
        ref_free(*s.get_arg(), inner);
        for (auto &v : s.get_variables())
            inner.erase(vsexp::dump(*v));
        out.insert(inner.begin(), inner.end());
        for (auto &p : s.get_point())
            ref_free(*p, out);
        return;
    }
    if (is_a<ConditionSet>(b)) {
        const ConditionSet &c = down_cast<const ConditionSet &>(b);
        std::set<std::string> inner;
        ref_free(*c.get_condition(), inner);
        inner.erase(vsexp::dump(*c.get_symbol()));
        out.insert(inner.begin(), inner.end());
        return;
    }
    if (is_a<ImageSet>(b)) {
        const ImageSet &c = down_cast<const ImageSet &>(b);
        std::set<std::string> inner;
        ref_free(*c.get_expr(), inner);
        inner.erase(vsexp::dump(*c.get_symbol()));
        out.insert(inner.begin(), inner.end());
        ref_free(*c.get_baseset(), out);
        return;
    }
    for (auto &a : b.get_args())
        ref_free(*a, out);
}
static bool has_binder(const Basic &b)
{
    if (is_a<Subs>(b) || is_a<ConditionSet>(b) || is_a<ImageSet>(b))
        return true;
    for (auto &a : b.get_args())
        if (has_binder(*a))
            return true;
    return false;
}
static bool kind_match(char k, const Basic &b)
{
    switch (k) {
        case 'S':
            return is_a_sub<Symbol>(b);
        case 'F':
            return is_a_sub<FunctionSymbol>(b);
        case 'I':
            return is_a<Integer>(b);
        case 'N':
            return is_a_Number(b);
        case 'K':
            return is_a<Constant>(b);
        case 'P':
            return is_a<Pow>(b);
        case 'M':
            return is_a<Mul>(b);
        case 'A':
            return is_a<Add>(b);
    }
    return false;
}
static void ref_atoms(const std::string &kinds, const Basic &b, std::vector<std::string> &out)
{
    for (char k : kinds)
        if (kind_match(k, b)) {
            out.push_back(vsexp::dump(b));
            break;
        }
    for (auto &a : b.get_args())
        ref_atoms(kinds, *a, out);
}
static set_basic real_atoms(const std::string &kinds, const Basic &e)
{
    if (kinds == "S")
        return atoms<Symbol>(e);
    if (kinds == "F")
        return atoms<FunctionSymbol>(e);
    if (kinds == "I")
        return atoms<Integer>(e);
    if (kinds == "N")
        return atoms<Number>(e);
    if (kinds == "K")
        return atoms<Constant>(e);
    if (kinds == "P")
        return atoms<Pow>(e);
    if (kinds == "M")
        return atoms<Mul>(e);
    if (kinds == "A")
        return atoms<Add>(e);
    if (kinds == "SF")
        return atoms<Symbol, FunctionSymbol>(e);
    if (kinds == "SK")
        return atoms<Symbol, Constant>(e);
    if (kinds == "PM")
        return atoms<Pow, Mul>(e);
    throw std::runtime_error("kinds");
}

std::string hx_run(const std::string &line, std::string &oracle)
{
    size_t sp = line.find(' ');
    std::string cmd = line.substr(0, sp), rest = line.substr(sp + 1);
    if (cmd == "free") {
        RCP<const Basic> e = vsexp::parse(rest);
        std::string out = dumpset(free_symbols(*e));
        std::set<std::string> ref;
        ref_free(*e, ref);
        std::string r = joined(std::vector<std::string>(ref.begin(), ref.end()));
        if (out != r)
            oracle = "FAIL:free_symbols:got {" + out + "} expected {" + r + "} (symbols outside bound positions)";
        stat(has_binder(*e) ? "free_with_binder" : "free_plain");
        return out;
    }
    if (cmd == "has") {
        auto nodes = vsexp::parse_all(rest);
        RCP<const Basic> e = vsexp::build(nodes.at(0)), x = vsexp::build(nodes.at(1));
        bool h = has_symbol(*e, *x);
        // definition: x occurs as a Symbol/FunctionSymbol subterm
        std::vector<std::string> at;
        ref_atoms("SF", *e, at);
        bool occurs = std::find(at.begin(), at.end(), vsexp::dump(*x)) != at.end();
        if (h != occurs)
            oracle = "FAIL:has_symbol:has_symbol=" + std::to_string(h) + " but occurrence=" + std::to_string(occurs);
        // agreement with free_symbols (the property's second clause), for Symbols
        if (is_a_sub<Symbol>(*x) && oracle == "ok") {
            std::set<std::string> ref;
            ref_free(*e, ref);
            bool infree = ref.count(vsexp::dump(*x)) > 0;
            if (h != infree)
                oracle = "FAIL:has_vs_free:has_symbol=" + std::to_string(h) + " but free-occurrence="
                         + std::to_string(infree) + (has_binder(*e) ? " (binder present)" : "");
        }
        stat(h ? "has_true" : "has_false");
        return h ? "1" : "0";
    }
    if (cmd == "atoms" || cmd == "fsyms") {
        std::string kinds = "F";
        if (cmd == "atoms") {
            size_t sp2 = rest.find(' ');
            kinds = rest.substr(0, sp2);
            rest = rest.substr(sp2 + 1);
        }
        RCP<const Basic> e = vsexp::parse(rest);
        std::string out = dumpset(cmd == "fsyms" ? function_symbols(*e) : real_atoms(kinds, *e));
        std::vector<std::string> ref;
        ref_atoms(kinds, *e, ref);
        std::string r = joined(ref);
        if (out != r)
            oracle = "FAIL:atoms:kinds " + kinds + " got {" + out + "} expected {" + r + "}";
        return out;
    }
    if (cmd == "coeffs") {
        // coeffs <p> <x> <maxdeg>: p expanded polynomial in x; reconstruct sum coeff(p,x,n) x^n
        auto nodes = vsexp::parse_all(rest);
        RCP<const Basic> p = vsexp::build(nodes.at(0)), x = vsexp::build(nodes.at(1));
        long maxdeg = std::stol(nodes.at(2).atom);
        RCP<const Basic> sum = zero;
        std::vector<std::string> cs;
        for (long n = 0; n <= maxdeg; n++) {
            RCP<const Basic> c = coeff(*p, *x, *integer(n));
            cs.push_back(vsexp::dump(*c));
            sum = add(sum, mul(c, pow(x, integer(n))));
            if (has_symbol(*c, *x) && oracle == "ok")
                oracle = "FAIL:coeff_has_x:coefficient of x^" + std::to_string(n) + " still contains x: " + c->__str__();
        }
        if (!eq(*expand(sum), *expand(p)) && oracle == "ok")
            oracle = "FAIL:coeff_reconstruct:sum coeff*x^n = " + expand(sum)->__str__() + " but p = "
                     + expand(p)->__str__();
        return join(cs, " | ");
    }
    return "bad-op";
}

// degree in x of an expanded polynomial (Add of monomials)
static long xdeg_mono(const Basic &m, const Basic &x)
{
    if (eq(m, x))
        return 1;
    if (is_a<Pow>(m)) {
        const Pow &p = down_cast<const Pow &>(m);
        if (eq(*p.get_base(), x) && is_a<Integer>(*p.get_exp()))
            return down_cast<const Integer &>(*p.get_exp()).as_int();
        return 0;
    }
    if (is_a<Mul>(m)) {
        long d = 0;
        for (auto &a : m.get_args())
            d += xdeg_mono(*a, x);
        return d;
    }
    return 0;
}
static long xdeg(const Basic &p, const Basic &x)
{
    if (!is_a<Add>(p))
        return xdeg_mono(p, x);
    long d = 0;
    for (auto &a : p.get_args())
        d = std::max(d, xdeg_mono(*a, x));
    return d;
}

void hx_gen(Rng &r, const std::string &tier)
{
    bool th = tier == "thorough";
    int n = th ? 4000 : 600;
    vgen::Opts o;
    o.gaussian = true;
    o.radicals = true;
    o.symexp = true;
    o.binders = true;
    o.infs = true;
    o.bigints = true;
    // fixed binder cases
    auto x = symbol("x"), y = symbol("y"), z = symbol("z");
    std::vector<RCP<const Basic>> fixed;
    {
        RCP<const Basic> f = function_symbol("f", x);
        fixed.push_back(make_rcp<const Subs>(f->diff(x), map_basic_basic{{x, add(y, one)}}));
        fixed.push_back(make_rcp<const Subs>(f->diff(x), map_basic_basic{{x, mul(x, integer(2))}}));
        fixed.push_back(add(x, make_rcp<const Subs>(f->diff(x), map_basic_basic{{x, y}})));
        fixed.push_back(function_symbol("g", vec_basic{x, y})->diff(x));
        fixed.push_back(conditionset(x, Gt(x, y)));
        fixed.push_back(imageset(x, mul(x, z), interval(integer(0), integer(1))));
        fixed.push_back(function_symbol("h", vec_basic{conditionset(x, Gt(x, y)), x}));
        fixed.push_back(function_symbol("f", add(x, y))->diff(x));
    }
    for (auto &e : fixed) {
        emit("free " + vsexp::dump(*e), "binder");
        for (auto &s : {x, y, z})
            emit("has " + vsexp::dump(*e) + " " + vsexp::dump(*s), "binder");
        emit("atoms SF " + vsexp::dump(*e), "binder");
    }
    // binder-sharing family: the argument of a Subs also occurs free elsewhere (before / after it)
    for (int i = 0; i < (th ? 300 : 60); i++) {
        RCP<const Basic> v = vgen::sym((int)r.below(3));
        RCP<const Symbol> vs = rcp_static_cast<const Symbol>(v);
        vgen::Opts so;
        so.functions = false;
        so.fsymbols = false;
        // f(v) or f(v, w): the derivative stays an unevaluated Derivative (no chain rule), a canonical Subs argument
        RCP<const Basic> other = vgen::sym(3 + (int)r.below(2));
        RCP<const Basic> inner = r.coin() ? function_symbol("f", v) : function_symbol("f", vec_basic{v, other});
        RCP<const Basic> body = inner->diff(vs);
        RCP<const Basic> point = r.coin() ? rcp_static_cast<const Basic>(integer(r.range(0, 3)))
                                          : add(vgen::sym((int)r.below(4)), integer(r.range(0, 2)));
        RCP<const Basic> sb, e;
        try {
            sb = make_rcp<const Subs>(body, map_basic_basic{{v, point}});
        } catch (const std::exception &) {
            continue; // not a canonical Subs
        }
        try {
        switch (r.below(6)) {
            case 0:
                e = function_symbol("g", vec_basic{sb, body});
                break;
            case 1:
                e = function_symbol("g", vec_basic{body, sb});
                break;
            case 2:
                e = add(sb, body);
                break;
            case 3:
                e = mul(sb, pow(body, integer(2)));
                break;
            case 4:
                e = function_symbol("g", vec_basic{sb, function_symbol("h", vec_basic{body, vgen::sym(3)})});
                break;
            default:
                e = function_symbol("g", vec_basic{make_rcp<const Subs>(body, map_basic_basic{{v, integer(1)}}), sb, inner});
        }
        } catch (const std::exception &) {
            continue;
        }
        std::string d = vsexp::dump(*e);
        if (d.size() > 3000)
            continue;
        emit("free " + d, "binder-shared");
        emit("has " + d + " " + vsexp::dump(*v), "binder-shared");
    }
    static const char *kinds[] = {"S", "F", "I", "N", "K", "P", "M", "A", "SF", "SK", "PM"};
    for (int i = 0; i < n; i++) {
        int depth = 1 + (int)r.below(th ? 5 : 4);
        RCP<const Basic> e = vgen::rand_expr(r, o, depth);
        std::string d = vsexp::dump(*e);
        if (d.size() > 3000)
            continue;
        std::string tag = std::string("d") + std::to_string(depth);
        unsigned k = r.below(100);
        if (k < 35)
            emit("free " + d, tag);
        else if (k < 60) {
            RCP<const Basic> q;
            unsigned j = r.below(3);
            if (j == 0)
                q = vgen::sym((int)r.below(5));
            else if (j == 1)
                q = function_symbol("f", vgen::rand_expr(r, o, 1));
            else {
                // pick an actual subterm when possible
                set_basic s = atoms<Symbol, FunctionSymbol>(*e);
                if (s.empty())
                    q = vgen::sym(0);
                else {
                    auto it = s.begin();
                    std::advance(it, r.below(s.size()));
                    q = *it;
                }
            }
            emit("has " + d + " " + vsexp::dump(*q), tag);
        } else if (k < 90)
            emit(std::string("atoms ") + kinds[r.below(11)] + " " + d, tag);
        else
            emit("fsyms " + d, tag);
    }
    // coefficient extraction on expanded polynomials in x with symbolic coefficients
    vgen::Opts po;
    po.functions = false;
    po.fsymbols = false;
    po.constants = false;
    po.negpow = false;
    po.nsyms = 3;
    for (int i = 0; i < (th ? 600 : 120); i++) {
        RCP<const Basic> p = expand(vgen::rand_expr(r, po, 2 + (int)r.below(2)));
        std::string d = vsexp::dump(*p);
        if (d.size() > 3000)
            continue;
        long deg = xdeg(*p, *symbol("x"));
        if (deg > 40)
            continue;
        emit("coeffs " + d + " (s x) " + std::to_string(deg + 1), "coeffs");
    }
}
