// C30: equation solving returns exactly the solution set.
//
// Op lines (polynomials are comma separated rational coefficient lists c0,c1,..,cn; dom = C | R):
//   poly <dom> <p>                      solve(sum c_i x^i, x, dom)
//   rat  <dom> <n1> <d1>                solve(n1(x)/d1(x), x, dom)                (a Mul: n1 * d1^-1)
//   rat2 <dom> <n1> <d1> <n2> <d2>      solve(n1/d1 + n2/d2, x, dom)              (an Add of fractions)
//   lin  <n> <row;row;..> <b1,..,bn>    linsolve(augmented DenseMatrix, syms)
//   lineq <n> <row;row;..> <b1,..,bn>   linsolve(vector of equations, syms)  (rows alternate expr / Eq form)
//   trig <a1> <b1> <a2> <b2> <c>        solve(a1 sin x + b1 cos x + a2 sin 2x + b2 cos 2x + c, x)
//   trigt <a> <c>                       solve(a tan x + c, x)
//   trigR <a1> <b1> <c>                 solve(a1 sin x + b1 cos x + c, x, reals)
//   trign <a> <b> <cre> <cim>           solve(a sin x + b cos x + (cre + cim I), x): the non-real solution family
//                                       (|c| > sqrt(a^2+b^2) or complex c; exp(ix) off the unit circle)
//
// Output: canonical dump (sexp.h) of the returned set; for poly/rat/rat2 followed by ` @ ` and the dump of the
// complex-domain solution of the numerator polynomial N (poly: p itself; rat: n1; rat2: n1*d2+n2*d1), which the
// Lean certificate checker verifies by factorisation and then uses to decide completeness.
// lin/lineq: the solution entries as exact rationals joined by `,`.
//
// Oracle (independent of Lean and of the symbolic answer): exact square-free part / gcd / Sturm count on GMP
// rationals, Durand-Kerner roots in long double, numeric value of every returned element
// (eval_complex_double), residuals, matching of the returned set against the numeric root set inside the
// domain, poles excluded; A*x = b exactly for linsolve; for trig equations the polynomial in y = exp(ix) is built
// here from the coefficients, its roots give the solutions modulo 2 pi, which are matched against the ImageSets.
#include "common.h"
#include "sexp.h"
#include <gmp.h>
#include <complex>
#include <cmath>
#include <functional>
#include <symengine/solve.h>
#include <symengine/matrix.h>
#include <symengine/eval_double.h>
#include <symengine/sets.h>
#include <symengine/logic.h>

using namespace SymEngine;
typedef std::complex<long double> cld;

// ------------------------------------------------------------------ exact rationals (oracle side)
struct Fr {
    mpq_t v;
    Fr() { mpq_init(v); }
    Fr(long n) { mpq_init(v); mpq_set_si(v, n, 1); }
    Fr(long n, long d) { mpq_init(v); mpq_set_si(v, n, (unsigned long)d); mpq_canonicalize(v); }
    Fr(const Fr &o) { mpq_init(v); mpq_set(v, o.v); }
    Fr &operator=(const Fr &o) { mpq_set(v, o.v); return *this; }
    ~Fr() { mpq_clear(v); }
    bool zero() const { return mpq_sgn(v) == 0; }
    int sgn() const { return mpq_sgn(v); }
    Fr operator+(const Fr &o) const { Fr r; mpq_add(r.v, v, o.v); return r; }
    Fr operator-(const Fr &o) const { Fr r; mpq_sub(r.v, v, o.v); return r; }
    Fr operator*(const Fr &o) const { Fr r; mpq_mul(r.v, v, o.v); return r; }
    Fr operator/(const Fr &o) const { Fr r; mpq_div(r.v, v, o.v); return r; }
    Fr operator-() const { Fr r; mpq_neg(r.v, v); return r; }
    bool operator==(const Fr &o) const { return mpq_equal(v, o.v) != 0; }
    long double ld() const { return (long double)mpq_get_d(v); }
    std::string str() const
    {
        char *s = mpq_get_str(nullptr, 10, v);
        std::string r(s);
        void (*freefunc)(void *, size_t);
        mp_get_memory_functions(nullptr, nullptr, &freefunc);
        freefunc(s, strlen(s) + 1);
        return r;
    }
    static Fr parse(const std::string &s)
    {
        Fr r;
        if (mpq_set_str(r.v, s.c_str(), 10) != 0)
            throw std::runtime_error("bad rational " + s);
        if (mpz_sgn(mpq_denref(r.v)) == 0)
            throw std::runtime_error("zero denominator " + s);
        mpq_canonicalize(r.v);
        return r;
    }
};
typedef std::vector<Fr> Poly; // c0..cn, trimmed (no trailing zeros); zero polynomial = empty

static void trim(Poly &p)
{
    while (!p.empty() && p.back().zero())
        p.pop_back();
}
static Poly padd(const Poly &a, const Poly &b)
{
    Poly r(std::max(a.size(), b.size()));
    for (size_t i = 0; i < r.size(); i++)
        r[i] = (i < a.size() ? a[i] : Fr(0)) + (i < b.size() ? b[i] : Fr(0));
    trim(r);
    return r;
}
static Poly pmul(const Poly &a, const Poly &b)
{
    if (a.empty() || b.empty())
        return Poly();
    Poly r(a.size() + b.size() - 1);
    for (size_t i = 0; i < a.size(); i++)
        for (size_t j = 0; j < b.size(); j++)
            r[i + j] = r[i + j] + a[i] * b[j];
    trim(r);
    return r;
}
static void pdivmod(const Poly &a, const Poly &b, Poly &q, Poly &r)
{
    r = a;
    q.assign(a.size() >= b.size() ? a.size() - b.size() + 1 : 0, Fr(0));
    while (r.size() >= b.size() && !r.empty()) {
        size_t k = r.size() - b.size();
        Fr f = r.back() / b.back();
        q[k] = f;
        for (size_t i = 0; i < b.size(); i++)
            r[i + k] = r[i + k] - f * b[i];
        r.pop_back(); // leading term cancels exactly
        trim(r);
    }
    trim(q);
}
static Poly pmonic(Poly p)
{
    if (p.empty())
        return p;
    Fr l = p.back();
    for (auto &c : p)
        c = c / l;
    return p;
}
static Poly pgcd(Poly a, Poly b)
{
    while (!b.empty()) {
        Poly q, r;
        pdivmod(a, b, q, r);
        a = b;
        b = r;
    }
    return pmonic(a);
}
static Poly pderiv(const Poly &p)
{
    Poly r;
    for (size_t i = 1; i < p.size(); i++)
        r.push_back(p[i] * Fr((long)i));
    trim(r);
    return r;
}
static Poly squarefree(const Poly &p)
{
    if (p.size() <= 2)
        return p;
    Poly g = pgcd(p, pderiv(p)), q, r;
    pdivmod(p, g, q, r);
    return q;
}
static int sign_at_inf(const Poly &p, bool neg)
{
    if (p.empty())
        return 0;
    int s = p.back().sgn();
    if (neg && (p.size() - 1) % 2 == 1)
        s = -s;
    return s;
}
// number of distinct real roots (Sturm), p square-free or not
static int sturm_real_roots(const Poly &p0)
{
    Poly p = squarefree(p0);
    if (p.size() <= 1)
        return 0;
    std::vector<Poly> seq;
    seq.push_back(p);
    seq.push_back(pderiv(p));
    while (!seq.back().empty()) {
        Poly q, r;
        pdivmod(seq[seq.size() - 2], seq.back(), q, r);
        for (auto &c : r)
            c = -c;
        seq.push_back(r);
    }
    seq.pop_back();
    auto changes = [&](bool neg) {
        int last = 0, n = 0;
        for (auto &s : seq) {
            int sg = sign_at_inf(s, neg);
            if (sg == 0)
                continue;
            if (last != 0 && sg != last)
                n++;
            last = sg;
        }
        return n;
    };
    return changes(true) - changes(false);
}
static Poly parse_poly(const std::string &s)
{
    Poly p;
    for (auto &t : split(s, ','))
        p.push_back(Fr::parse(t));
    trim(p);
    return p;
}
static std::string poly_str(const Poly &p, size_t extra_zeros = 0)
{
    std::vector<std::string> v;
    for (auto &c : p)
        v.push_back(c.str());
    for (size_t i = 0; i < extra_zeros; i++)
        v.push_back("0");
    if (v.empty())
        v.push_back("0");
    return join(v, ",");
}

// ------------------------------------------------------------------ numeric roots (Durand-Kerner)
static cld ceval(const std::vector<cld> &c, cld z)
{
    cld r = 0;
    for (size_t i = c.size(); i-- > 0;)
        r = r * z + c[i];
    return r;
}
static std::vector<cld> durand_kerner(std::vector<cld> c)
{
    while (!c.empty() && std::abs(c.back()) == 0)
        c.pop_back();
    std::vector<cld> z;
    if (c.size() <= 1)
        return z;
    size_t n = c.size() - 1;
    cld lead = c.back();
    for (auto &x : c)
        x /= lead;
    long double bound = 0;
    for (size_t i = 0; i < n; i++)
        bound = std::max(bound, std::abs(c[i]));
    bound = 1 + bound;
    for (size_t k = 0; k < n; k++)
        z.push_back(std::pow(cld(0.4L, 0.9L), (long double)k) * (bound > 4 ? 2.0L : 1.0L));
    for (int it = 0; it < 2000; it++) {
        long double delta = 0;
        for (size_t i = 0; i < n; i++) {
            cld num = ceval(c, z[i]), den = 1;
            for (size_t j = 0; j < n; j++)
                if (j != i)
                    den *= (z[i] - z[j]);
            if (std::abs(den) == 0)
                den = cld(1e-30L, 1e-30L);
            cld d = num / den;
            z[i] -= d;
            delta = std::max(delta, std::abs(d));
        }
        if (delta < 1e-17L)
            break;
    }
    return z;
}
static std::vector<cld> to_c(const Poly &p)
{
    std::vector<cld> c;
    for (auto &x : p)
        c.push_back(cld(x.ld(), 0));
    return c;
}

// ------------------------------------------------------------------ building the real objects
static RCP<const Number> mk_num(const Fr &f)
{
    mpz_t n, d;
    mpz_init(n);
    mpz_init(d);
    mpq_get_num(n, f.v);
    mpq_get_den(d, f.v);
    char *sn = mpz_get_str(nullptr, 10, n), *sd = mpz_get_str(nullptr, 10, d);
    RCP<const Number> r = Rational::from_two_ints(*integer(integer_class(sn)), *integer(integer_class(sd)));
    void (*freefunc)(void *, size_t);
    mp_get_memory_functions(nullptr, nullptr, &freefunc);
    freefunc(sn, strlen(sn) + 1);
    freefunc(sd, strlen(sd) + 1);
    mpz_clear(n);
    mpz_clear(d);
    return r;
}
static RCP<const Basic> mk_poly(const Poly &p, const RCP<const Basic> &x)
{
    vec_basic terms;
    for (size_t i = 0; i < p.size(); i++)
        if (!p[i].zero())
            terms.push_back(mul(mk_num(p[i]), pow(x, integer((long)i))));
    return add(terms);
}
static RCP<const Set> mk_dom(const std::string &d)
{
    if (d == "R")
        return reals();
    if (d == "C")
        return universalset();
    throw std::runtime_error("bad domain");
}

// ------------------------------------------------------------------ decomposing a returned set
struct Elem {
    RCP<const Basic> e;
    bool real_filter; // inside Intersection(Reals, .): member only if real
    cld val;
};
static bool is_real_num(cld z)
{
    return std::fabs(z.imag()) <= 1e-7L * (1 + std::abs(z));
}
// eval_complex_double has no ATan2: replace innermost ATan2 nodes by their numeric value first
static cld num_value(const RCP<const Basic> &e0)
{
    RCP<const Basic> e = e0;
    for (int guard = 0; guard < 50; guard++) {
        set_basic ats = atoms<ATan2>(*e);
        if (ats.empty())
            break;
        map_basic_basic d;
        for (auto &a : ats) {
            auto args = a->get_args();
            if (atoms<ATan2>(*args[0]).empty() && atoms<ATan2>(*args[1]).empty()) {
                std::complex<double> y = eval_complex_double(*args[0]), x = eval_complex_double(*args[1]);
                d[a] = real_double(std::atan2(y.real(), x.real()));
            }
        }
        if (d.empty())
            break;
        e = e->subs(d);
    }
    return cld(eval_complex_double(*e));
}
// members of the set denoted by `s` (numerically); every listed element (also filtered ones) goes to `listed`
static bool collect(const RCP<const Set> &s, bool under_real, std::vector<Elem> &members, std::vector<Elem> &listed,
                    std::string &why)
{
    if (is_a<EmptySet>(*s))
        return true;
    if (is_a<FiniteSet>(*s)) {
        for (auto &e : down_cast<const FiniteSet &>(*s).get_container()) {
            Elem el{e, under_real, cld(0, 0)};
            try {
                el.val = num_value(e);
            } catch (std::exception &ex) {
                why = std::string("eval:") + ex.what() + " on " + e->__str__().substr(0, 80);
                return false;
            }
            if (!(std::abs(el.val) < 1e300L)) {
                why = "eval:non-finite value of " + e->__str__().substr(0, 80);
                return false;
            }
            listed.push_back(el);
            if (!(under_real && !is_real_num(el.val)))
                members.push_back(el);
        }
        return true;
    }
    if (is_a<Union>(*s)) {
        for (auto &c : down_cast<const Union &>(*s).get_container())
            if (!collect(c, under_real, members, listed, why))
                return false;
        return true;
    }
    if (is_a<Intersection>(*s)) {
        auto &c = down_cast<const Intersection &>(*s).get_container();
        bool has_reals = false;
        std::vector<RCP<const Set>> rest;
        for (auto &k : c) {
            if (is_a<Reals>(*k))
                has_reals = true;
            else
                rest.push_back(k);
        }
        if (has_reals && rest.size() == 1)
            return collect(rest[0], true, members, listed, why);
    }
    if (is_a<Complement>(*s)) {
        auto &c = down_cast<const Complement &>(*s);
        if (is_a<Reals>(*c.get_container())) {
            why = "minus-reals:the returned set subtracts the whole real line: " + s->__str__().substr(0, 100);
            return false;
        }
        std::vector<Elem> a, b, dummy;
        if (!collect(c.get_universe(), under_real, a, listed, why) || !collect(c.get_container(), false, b, dummy, why))
            return false;
        for (auto &el : a) {
            bool removed = false;
            for (auto &o : b)
                if (std::abs(o.val - el.val) <= 1e-9L * (1 + std::abs(el.val)))
                    removed = true;
            if (!removed)
                members.push_back(el);
        }
        return true;
    }
    why = "shape:unexpected set shape " + s->__str__().substr(0, 120);
    return false;
}

static long double pscale(const Poly &p, cld z)
{
    long double s = 0, a = std::abs(z), pw = 1;
    for (auto &c : p) {
        s += std::fabs(c.ld()) * pw;
        pw *= a;
    }
    return s > 0 ? s : 1;
}
static std::string cstr(cld z)
{
    char buf[96];
    snprintf(buf, sizeof buf, "%.10Lg%+.10Lgi", z.real(), z.imag());
    return buf;
}

// The oracle for one solution set: `N` numerator polynomial (non-zero, degree >= 1 after trimming or constant),
// `D` the product of the denominators (poles), `real` the domain.
// an element outside "rational or quadratic surd": cube roots, nested radicals (Cardano / Euler output)
static bool radical_form(const RCP<const Basic> &e, int depth = 0)
{
    if (is_a<Pow>(*e)) {
        auto &p = down_cast<const Pow &>(*e);
        if (!is_a<Integer>(*p.get_exp())) {
            if (!(is_a<Rational>(*p.get_exp()) && down_cast<const Rational &>(*p.get_exp()).get_den()->as_int() == 2))
                return true;
            if (!is_a_Number(*p.get_base()) || is_a<Complex>(*p.get_base()))
                return true;
        }
    }
    if (is_a<Mul>(*e)) {
        for (auto &kv : down_cast<const Mul &>(*e).get_dict()) {
            if (!is_a<Integer>(*kv.second)) {
                if (!(is_a<Rational>(*kv.second) && down_cast<const Rational &>(*kv.second).get_den()->as_int() == 2))
                    return true;
                if (!is_a_Number(*kv.first) || is_a<Complex>(*kv.first))
                    return true;
            }
        }
    }
    for (auto &a : e->get_args())
        if (radical_form(a, depth + 1))
            return true;
    return false;
}

static void check_solution(const RCP<const Set> &sol, const Poly &N, const Poly &D, bool real, std::string &oracle,
                           bool big_den = false)
{
    if (N.empty()) { // identically zero: every point of the domain where defined; generator keeps D constant here
        bool ok = real ? is_a<Reals>(*sol) : is_a<UniversalSet>(*sol);
        if (!ok)
            oracle = "FAIL:zero-poly:expected the whole domain, got " + sol->__str__().substr(0, 80);
        return;
    }
    // expected distinct roots: squarefree(N) / gcd(squarefree(N), D)
    Poly S = squarefree(N);
    Poly Q = S;
    if (D.size() > 1) {
        Poly g = pgcd(S, D), r;
        pdivmod(S, g, Q, r);
    }
    std::vector<cld> expect = durand_kerner(to_c(Q));
    // polish with Newton on Q (simple roots)
    {
        auto qc = to_c(Q), dq = to_c(pderiv(Q));
        for (auto &z : expect)
            for (int k = 0; k < 4; k++) {
                cld d = ceval(dq, z);
                if (std::abs(d) > 0)
                    z -= ceval(qc, z) / d;
            }
    }
    int n_real_exact = sturm_real_roots(Q), n_real_num = 0;
    for (auto &z : expect)
        if (is_real_num(z))
            n_real_num++;
    if (n_real_exact != n_real_num) {
        stat("oracle-unsure-real-count");
        return; // numerically delicate input: do not judge
    }
    std::vector<Elem> members, els;
    std::string why;
    if (!collect(sol, false, members, els, why)) {
        oracle = "FAIL:set-" + why;
        return;
    }
    auto nc = to_c(N), dc = to_c(D);
    for (auto &el : els) {
        if (real && !el.real_filter && !is_real_num(el.val)) {
            oracle = "FAIL:non-real-member:" + el.e->__str__().substr(0, 80) + " = " + cstr(el.val);
            return;
        }
    }
    for (auto &el : members) {
        long double res = std::abs(ceval(nc, el.val)), sc = pscale(N, el.val);
        bool matched = false;
        for (auto &z : expect)
            if (std::abs(z - el.val) <= 1e-6L * (1 + std::abs(z)))
                matched = true;
        if (!matched) {
            if (D.size() > 1 && std::abs(ceval(dc, el.val)) <= 1e-7L * pscale(D, el.val))
                oracle = std::string("FAIL:pole-not-excluded") + (big_den ? "-cubic-denominator" : (radical_form(el.e) ? "-radical-form" : ""))
                         + ":" + el.e->__str__().substr(0, 80) + " = " + cstr(el.val) + " is a zero of the denominator";
            else if (res > 1e-8L * sc)
                oracle = "FAIL:spurious-root:" + el.e->__str__().substr(0, 80) + " = " + cstr(el.val)
                         + " residual " + tostr((double)(res / sc));
            else
                oracle = "FAIL:unmatched-member:" + el.e->__str__().substr(0, 80) + " = " + cstr(el.val);
            return;
        }
    }
    for (auto &z : expect) {
        if (real && !is_real_num(z))
            continue;
        bool found = false;
        for (auto &el : members)
            if (std::abs(z - el.val) <= 1e-6L * (1 + std::abs(z)))
                found = true;
        if (!found) {
            oracle = "FAIL:missing-root:" + cstr(z) + " is a solution" + (real ? " in the reals" : "")
                     + " but not in " + sol->__str__().substr(0, 100);
            return;
        }
    }
}

// ------------------------------------------------------------------ trig oracle
// f(x) = a1 sin x + b1 cos x + a2 sin 2x + b2 cos 2x + c ;  y = exp(ix) ;  y^K f = P(y)
static void check_trig(const RCP<const Set> &sol, const std::vector<cld> &P, std::string &oracle,
                       const std::function<cld(cld)> &f)
{
    const long double PI = 3.141592653589793238462643383279502884L;
    // expected solutions modulo 2 pi
    std::vector<cld> ys = durand_kerner(P), xs;
    for (auto &y : ys)
        if (std::abs(y) > 1e-9L)
            xs.push_back(cld(0, -1) * std::log(y));
    if (is_a<EmptySet>(*sol)) {
        if (!xs.empty())
            oracle = "FAIL:trig-missing:x = " + cstr(xs[0]) + " solves the equation, EmptySet returned";
        return;
    }
    std::vector<RCP<const Set>> parts;
    if (is_a<Union>(*sol))
        for (auto &c : down_cast<const Union &>(*sol).get_container())
            parts.push_back(c);
    else
        parts.push_back(sol);
    struct Fam { cld theta, period; };
    std::vector<Fam> fams;
    for (auto &p : parts) {
        if (!is_a<ImageSet>(*p)) {
            oracle = "FAIL:trig-shape:" + p->__str__().substr(0, 100);
            return;
        }
        auto &im = down_cast<const ImageSet &>(*p);
        map_basic_basic d0, d1;
        d0[im.get_symbol()] = integer(0);
        d1[im.get_symbol()] = integer(1);
        cld t0, t1;
        try {
            t0 = num_value(im.get_expr()->subs(d0));
            t1 = num_value(im.get_expr()->subs(d1));
        } catch (std::exception &e) {
            oracle = std::string("FAIL:trig-eval:") + e.what();
            return;
        }
        fams.push_back(Fam{t0, t1 - t0});
        // soundness: members n = -2..2 solve the equation
        for (int n = -2; n <= 2; n++) {
            cld x = t0 + (long double)n * (t1 - t0);
            long double sc = 1 + std::exp(2 * std::fabs(x.imag()));
            if (std::abs(f(x)) > 1e-7L * sc) {
                oracle = "FAIL:trig-spurious:x = " + cstr(x) + " (n = " + tostr(n) + ") residual "
                         + tostr((double)std::abs(f(x)));
                return;
            }
        }
    }
    for (auto &x : xs) {
        bool found = false;
        for (auto &fm : fams) {
            if (std::abs(fm.period) < 1e-9L)
                continue;
            cld k = (x - fm.theta) / fm.period;
            if (std::fabs(k.imag()) < 1e-5L && std::fabs(k.real() - std::round(k.real())) < 1e-5L)
                found = true;
        }
        if (!found) {
            oracle = "FAIL:trig-missing:x = " + cstr(x) + " (+ 2 pi n) solves the equation but is in no returned family";
            return;
        }
    }
    (void)PI;
}

// ------------------------------------------------------------------ trig oracle, non-real family
// a sin x + b cos x + c = 0 with complex c.  Every returned ImageSet member n = -1, 0, 1 is substituted back into
// the *equation object* (eval_complex_double, tolerance 1e-9 * scale) -> key trig-nonreal-value; completeness
// against the two analytic families x = -i log y,  y = (-i c +- sqrt(a^2 + b^2 - c^2)) / (a + i b)
// -> key trig-nonreal-missing.  The keys are distinct from trig-missing / trig-spurious (known findings F4 / F6).
static void check_trig_nonreal(const RCP<const Set> &sol, const RCP<const Basic> &f, const RCP<const Symbol> &x,
                               cld A, cld B, cld C, std::string &oracle)
{
    std::vector<RCP<const Set>> parts;
    if (is_a<Union>(*sol))
        for (auto &c : down_cast<const Union &>(*sol).get_container())
            parts.push_back(c);
    else
        parts.push_back(sol);
    struct Fam { cld theta, period; };
    std::vector<Fam> fams;
    for (auto &p : parts) {
        if (!is_a<ImageSet>(*p)) {
            oracle = "FAIL:trig-nonreal-shape:" + p->__str__().substr(0, 100);
            return;
        }
        auto &im = down_cast<const ImageSet &>(*p);
        cld vals[3];
        for (int n = -1; n <= 1; n++) {
            map_basic_basic d;
            d[im.get_symbol()] = integer(n);
            cld xv, res;
            try {
                xv = num_value(im.get_expr()->subs(d));
                map_basic_basic dx;
                dx[x] = complex_double(std::complex<double>((double)xv.real(), (double)xv.imag()));
                res = cld(eval_complex_double(*f->subs(dx)));
            } catch (std::exception &e) {
                oracle = std::string("FAIL:trig-nonreal-eval:") + e.what();
                return;
            }
            vals[n + 1] = xv;
            long double scale = 1 + std::abs(A) * std::abs(std::sin(xv)) + std::abs(B) * std::abs(std::cos(xv)) + std::abs(C);
            if (!(std::abs(res) <= 1e-9L * scale)) {
                oracle = "FAIL:trig-nonreal-value:member n = " + tostr(n) + ", x = " + cstr(xv) + " of "
                         + p->__str__().substr(0, 70) + " gives residual " + cstr(res);
                return;
            }
        }
        fams.push_back(Fam{vals[1], vals[2] - vals[1]});
    }
    cld disc = std::sqrt(A * A + B * B - C * C), den = A + cld(0, 1) * B, mic = cld(0, -1) * C;
    cld ys[2] = {(mic + disc) / den, (mic - disc) / den};
    int ny = std::abs(disc) < 1e-12L ? 1 : 2;
    for (int k = 0; k < ny; k++) {
        if (std::abs(ys[k]) < 1e-12L)
            continue;
        cld xk = cld(0, -1) * std::log(ys[k]);
        bool found = false;
        for (auto &fm : fams) {
            if (std::abs(fm.period) < 1e-9L)
                continue;
            cld q = (xk - fm.theta) / fm.period;
            if (std::fabs(q.imag()) < 1e-7L && std::fabs(q.real() - std::round(q.real())) < 1e-7L)
                found = true;
        }
        if (!found) {
            oracle = "FAIL:trig-nonreal-missing:x = " + cstr(xk) + " (+ 2 pi n) solves the equation but is in no returned family";
            return;
        }
    }
}

// ------------------------------------------------------------------ run
static std::string dump_elems_rat(const vec_basic &v, std::vector<Fr> &out, bool &allrat)
{
    std::vector<std::string> s;
    allrat = true;
    for (auto &e : v) {
        s.push_back(vsexp::dump(*e));
        if (is_a<Integer>(*e) || is_a<Rational>(*e))
            out.push_back(Fr::parse(vsexp::dump(*e)));
        else
            allrat = false;
    }
    return join(s, ",");
}

std::string hx_run(const std::string &op, std::string &oracle)
{
    auto t = split(op, ' ');
    while (!t.empty() && !t.back().empty() && t.back()[0] == '#')
        t.pop_back(); // family flag of the generator (known-finding families), not part of the operation
    auto x = symbol("x");
    if (t[0] == "poly" || t[0] == "rat" || t[0] == "rat2") {
        bool real = t.at(1) == "R";
        auto dom = mk_dom(t[1]);
        Poly N, D;
        RCP<const Basic> f;
        bool big_den = false;
        if (t[0] == "poly") {
            N = parse_poly(t.at(2));
            D = Poly{Fr(1)};
            f = mk_poly(N, x);
        } else if (t[0] == "rat") {
            Poly n1 = parse_poly(t.at(2)), d1 = parse_poly(t.at(3));
            N = n1;
            D = d1;
            big_den = d1.size() > 3;
            f = div(mk_poly(n1, x), mk_poly(d1, x));
        } else {
            Poly n1 = parse_poly(t.at(2)), d1 = parse_poly(t.at(3)), n2 = parse_poly(t.at(4)),
                 d2 = parse_poly(t.at(5));
            N = padd(pmul(n1, d2), pmul(n2, d1));
            D = pmul(d1, d2);
            big_den = d1.size() > 3 || d2.size() > 3;
            f = add(div(mk_poly(n1, x), mk_poly(d1, x)), div(mk_poly(n2, x), mk_poly(d2, x)));
        }
        if (D.empty())
            throw std::runtime_error("zero denominator polynomial");
        stat(t[0] + ":deg" + tostr(N.empty() ? -1 : (int)N.size() - 1));
        RCP<const Set> sol = solve(f, x, dom);
        std::string out = vsexp::dump(*sol);
        // auxiliary certificate: complex solution of the numerator polynomial
        RCP<const Set> aux = solve(mk_poly(N, x), x, universalset());
        out += " @ " + vsexp::dump(*aux);
        check_solution(sol, N, D, real, oracle, big_den);
        {
            bool rad = false;
            if (is_a<FiniteSet>(*aux))
                for (auto &e : down_cast<const FiniteSet &>(*aux).get_container())
                    rad = rad || radical_form(e);
            stat(rad ? "certificate:numeric(radical-form elements)" : "certificate:exact(sqrt-of-rational elements)");
        }
        if (oracle == "ok" && (t[0] != "poly" || real)) {
            std::string o2 = "ok";
            check_solution(aux, N, Poly{Fr(1)}, false, o2);
            if (o2 != "ok")
                oracle = o2 + " [auxiliary complex solve of the numerator]";
        }
        if (is_a<FiniteSet>(*sol))
            stat("result:FiniteSet");
        else
            stat("result:" + type_code_name(sol->get_type_code()));
        return out;
    }
    if (t[0] == "lin" || t[0] == "lineq") {
        unsigned n = (unsigned)std::stoul(t.at(1));
        auto rows = split(t.at(2), ';');
        auto bs = split(t.at(3), ',');
        if (rows.size() != n || bs.size() != n)
            throw std::runtime_error("bad lin op");
        std::vector<std::vector<Fr>> A(n);
        std::vector<Fr> b;
        for (unsigned i = 0; i < n; i++) {
            for (auto &e : split(rows[i], ','))
                A[i].push_back(Fr::parse(e));
            if (A[i].size() != n)
                throw std::runtime_error("bad lin row");
            b.push_back(Fr::parse(bs[i]));
        }
        vec_sym syms;
        for (unsigned j = 0; j < n; j++)
            syms.push_back(symbol("x" + tostr(j)));
        // exact determinant (own elimination): a singular system has no unique solution, the library must refuse
        bool singular = false;
        {
            std::vector<std::vector<Fr>> M = A;
            for (unsigned c = 0; c < n && !singular; c++) {
                unsigned p = c;
                while (p < n && M[p][c].zero())
                    p++;
                if (p == n) {
                    singular = true;
                    break;
                }
                std::swap(M[p], M[c]);
                for (unsigned k = c + 1; k < n; k++) {
                    Fr f = M[k][c] / M[c][c];
                    for (unsigned j = c; j < n; j++)
                        M[k][j] = M[k][j] - f * M[c][j];
                }
            }
        }
        vec_basic res;
        if (singular) {
            stat("lin:singular");
            try {
                if (t[0] != "lin")
                    throw std::runtime_error("singular systems are only generated in matrix form");
                DenseMatrix M(n, n + 1);
                for (unsigned i = 0; i < n; i++) {
                    for (unsigned j = 0; j < n; j++)
                        M.set(i, j, mk_num(A[i][j]));
                    M.set(i, n, mk_num(b[i]));
                }
                res = linsolve(M, syms);
            } catch (SymEngineException &e) {
                return exc_name(e);
            }
            std::vector<Fr> xs0;
            bool ar;
            std::string o = dump_elems_rat(res, xs0, ar);
            oracle = "FAIL:lin-singular-returned:a singular system got the answer " + o.substr(0, 100);
            return o;
        }
        if (t[0] == "lin") {
            DenseMatrix M(n, n + 1);
            for (unsigned i = 0; i < n; i++) {
                for (unsigned j = 0; j < n; j++)
                    M.set(i, j, mk_num(A[i][j]));
                M.set(i, n, mk_num(b[i]));
            }
            res = linsolve(M, syms);
        } else {
            vec_basic eqs;
            for (unsigned i = 0; i < n; i++) {
                vec_basic terms;
                for (unsigned j = 0; j < n; j++)
                    terms.push_back(mul(mk_num(A[i][j]), syms[j]));
                if (i % 2 == 0) {
                    terms.push_back(neg(mk_num(b[i])));
                    eqs.push_back(add(terms));
                } else {
                    eqs.push_back(Eq(add(terms), mk_num(b[i])));
                }
            }
            res = linsolve(eqs, syms);
        }
        std::vector<Fr> xs;
        bool allrat;
        std::string out = dump_elems_rat(res, xs, allrat);
        if (!allrat || xs.size() != n) {
            oracle = "FAIL:lin-shape:" + out.substr(0, 120);
            return out;
        }
        for (unsigned i = 0; i < n; i++) {
            Fr s(0);
            for (unsigned j = 0; j < n; j++)
                s = s + A[i][j] * xs[j];
            if (!(s == b[i])) {
                oracle = "FAIL:lin-residual:row " + tostr(i) + " gives " + s.str() + " expected " + b[i].str();
                break;
            }
        }
        stat("lin:n" + tostr(n));
        return out;
    }
    if (t[0] == "trign") {
        Fr a = Fr::parse(t.at(1)), b = Fr::parse(t.at(2)), cre = Fr::parse(t.at(3)), cim = Fr::parse(t.at(4));
        RCP<const Basic> cnum = cim.zero() ? (RCP<const Basic>)mk_num(cre)
                                           : (RCP<const Basic>)Complex::from_two_nums(*mk_num(cre), *mk_num(cim));
        vec_basic terms;
        terms.push_back(mul(mk_num(a), sin(x)));
        terms.push_back(mul(mk_num(b), cos(x)));
        terms.push_back(cnum);
        RCP<const Basic> f = add(terms);
        RCP<const Set> sol = solve(f, x);
        stat("trign:" + type_code_name(sol->get_type_code()));
        check_trig_nonreal(sol, f, x, cld(a.ld(), 0), cld(b.ld(), 0), cld(cre.ld(), cim.ld()), oracle);
        return vsexp::dump(*sol);
    }
    if (t[0] == "trig" || t[0] == "trigt" || t[0] == "trigR") {
        RCP<const Basic> f;
        std::vector<cld> P;
        std::function<cld(cld)> fn;
        if (t[0] == "trigt") {
            Fr a = Fr::parse(t.at(1)), c = Fr::parse(t.at(2));
            f = add(mul(mk_num(a), tan(x)), mk_num(c));
            // a tan x + c = 0  <=>  -i a (y^2 - 1) + c (y^2 + 1) = 0
            cld A(a.ld(), 0), C(c.ld(), 0), mi(0, -1);
            P = {C - mi * A, cld(0, 0), mi * A + C};
            fn = [A, C](cld z) { return A * std::tan(z) + C; };
        } else {
            Fr a1 = Fr::parse(t.at(1)), b1 = Fr::parse(t.at(2));
            Fr a2(0), b2(0), c(0);
            if (t[0] == "trig") {
                a2 = Fr::parse(t.at(3));
                b2 = Fr::parse(t.at(4));
                c = Fr::parse(t.at(5));
            } else
                c = Fr::parse(t.at(3));
            vec_basic terms;
            terms.push_back(mul(mk_num(a1), sin(x)));
            terms.push_back(mul(mk_num(b1), cos(x)));
            terms.push_back(mul(mk_num(a2), sin(mul(integer(2), x))));
            terms.push_back(mul(mk_num(b2), cos(mul(integer(2), x))));
            terms.push_back(mk_num(c));
            f = add(terms);
            int K = (a2.zero() && b2.zero()) ? 1 : 2;
            P.assign(2 * K + 1, cld(0, 0));
            cld hi(0, -0.5L); // 1/(2i)
            cld A1(a1.ld(), 0), B1(b1.ld(), 0), A2(a2.ld(), 0), B2(b2.ld(), 0), C(c.ld(), 0);
            P[K] += C;
            P[K + 1] += A1 * hi + B1 * 0.5L;
            P[K - 1] += -A1 * hi + B1 * 0.5L;
            if (K == 2) {
                P[K + 2] += A2 * hi + B2 * 0.5L;
                P[K - 2] += -A2 * hi + B2 * 0.5L;
            }
            fn = [A1, B1, A2, B2, C](cld z) {
                return A1 * std::sin(z) + B1 * std::cos(z) + A2 * std::sin(2.0L * z) + B2 * std::cos(2.0L * z) + C;
            };
        }
        RCP<const Set> sol = t[0] == "trigR" ? solve(f, x, reals()) : solve(f, x);
        stat("trig:" + type_code_name(sol->get_type_code()));
        if (t[0] != "trigR")
            check_trig(sol, P, oracle, fn);
        return vsexp::dump(*sol);
    }
    throw std::runtime_error("unknown op");
}

// ------------------------------------------------------------------ generation
static Fr rnd_rat(Rng &r, int maxn, int maxd)
{
    long n = r.range(-maxn, maxn), d = r.range(1, maxd);
    return Fr(n, d);
}
static Fr rnd_nz(Rng &r, int maxn, int maxd)
{
    for (;;) {
        Fr f = rnd_rat(r, maxn, maxd);
        if (!f.zero())
            return f;
    }
}
static Poly lin_factor(const Fr &root)
{
    return Poly{-root, Fr(1)};
}
// x^2 - 2 a x + (a^2 - b^2 d)   roots a +- b sqrt(d)  (d < 0: complex pair)
static Poly quad_factor(const Fr &a, const Fr &b, long d)
{
    return Poly{a * a - b * b * Fr(d), Fr(-2) * a, Fr(1)};
}
static long pick_d(Rng &r)
{
    static const long ds[] = {2, 3, 5, 6, 7, 8, 12, -1, -1, -2, -3, -4, -7};
    return ds[r.below(sizeof ds / sizeof ds[0])];
}

// a polynomial of the requested degree built from chosen roots; `tag` describes the root structure
static Poly gen_from_roots(Rng &r, int deg, std::string &tag)
{
    Poly p{Fr(1)};
    int left = deg;
    tag = "";
    Fr last(0);
    bool have_last = false;
    while (left > 0) {
        int k = (int)r.below(10);
        if (left >= 2 && k < 3) {
            long d = pick_d(r);
            Fr a = r.coin(1, 3) ? Fr(0) : rnd_rat(r, 4, 3), b = rnd_nz(r, 3, 2);
            p = pmul(p, quad_factor(a, b, d));
            tag += d < 0 ? "c" : "s";
            left -= 2;
        } else if (have_last && k < 6) {
            p = pmul(p, lin_factor(last));
            tag += "m"; // repeated root
            left -= 1;
        } else if (k == 6) {
            p = pmul(p, lin_factor(Fr(0)));
            last = Fr(0);
            have_last = true;
            tag += "z";
            left -= 1;
        } else {
            last = rnd_rat(r, 6, 4);
            have_last = true;
            p = pmul(p, lin_factor(last));
            tag += "q";
            left -= 1;
        }
    }
    Fr lc = r.coin(1, 2) ? Fr(1) : rnd_nz(r, 5, 3);
    for (auto &c : p)
        c = c * lc;
    return p;
}

static std::string dom_of(Rng &r)
{
    return r.coin(2, 5) ? "R" : "C";
}

void hx_gen(Rng &r, const std::string &tier)
{
    bool th = tier == "thorough";
    int n_poly = th ? 9000 : 900, n_rat = th ? 2500 : 260, n_lin = th ? 2500 : 260, n_trig = th ? 300 : 40;

    // --- fixed boundary cases
    const char *fixed[] = {"0", "0,0,0", "5", "-1/2,0", "3,2", "0,1", "0,0,1", "0,0,0,1", "0,0,0,0,1", "1,0,1",
                           "-2,0,1", "-1,-1,1", "1,1,1", "1,-2,1", "0,-3,2", "-8,0,1", "-1/2,0,1", "-6,11,-6,1",
                           "-1,0,0,1", "-2,0,0,1", "1,1,0,1", "1,-3,0,1", "0,1,0,0,1", "-2,0,0,0,1", "4,0,0,0,1",
                           "1,0,-10,0,1", "1,1,0,0,1", "1,-4,6,-4,1", "0,-2,0,1", "0,0,-2,0,1", "-1,0,0,0,1",
                           "2,-3,0,1,0,0"};
    for (auto s : fixed) {
        emit(std::string("poly C ") + s, "poly:fixed");
        emit(std::string("poly R ") + s, "poly:fixed");
    }
    // --- polynomials
    for (int i = 0; i < n_poly; i++) {
        int kind = (int)r.below(100);
        std::string dom = dom_of(r), tag;
        Poly p;
        if (kind < 55) {
            int deg = (int)r.range(1, 4);
            p = gen_from_roots(r, deg, tag);
            tag = "poly:roots-d" + tostr(deg) + "-" + tag;
        } else if (kind < 70) {
            int deg = (int)r.range(0, 4);
            for (int k = 0; k <= deg; k++)
                p.push_back(r.coin(1, 4) ? Fr(0) : rnd_rat(r, 9, 4));
            trim(p);
            tag = "poly:random-d" + tostr(p.empty() ? -1 : (int)p.size() - 1);
        } else if (kind < 78) {
            // depressed / shifted special shapes of the quartic: (x+s)^4 + e (x+s)^2 + g  (ff = 0) and
            // (x+s)^4 + e (x+s)^2 + f (x+s)  (g = 0)
            Fr s = r.coin() ? Fr(0) : rnd_rat(r, 3, 2), e = rnd_rat(r, 6, 2), g = rnd_rat(r, 6, 2);
            Poly y{s, Fr(1)};
            Poly y2 = pmul(y, y), y4 = pmul(y2, y2);
            Poly ey2 = y2;
            for (auto &c : ey2)
                c = c * e;
            if (r.coin()) {
                p = padd(padd(y4, ey2), Poly{g});
                tag = "poly:quartic-biquadratic";
            } else {
                Poly gy = y;
                for (auto &c : gy)
                    c = c * g;
                p = padd(padd(y4, ey2), gy);
                tag = "poly:quartic-g0";
            }
        } else if (kind < 84) {
            // cubic with roots in arithmetic progression: delta1 = 0 (complex-coefficient Mul raised to 1/3)
            Fr a = rnd_rat(r, 4, 2), d = rnd_nz(r, 3, 2);
            p = pmul(pmul(lin_factor(a - d), lin_factor(a)), lin_factor(a + d));
            if (r.coin(1, 3))
                p = pmul(p, lin_factor(rnd_rat(r, 3, 1)));
            tag = "poly:cubic-delta1-zero";
        } else if (kind < 90) {
            // double / triple roots (delta = 0 branch)
            Fr a = rnd_rat(r, 5, 3), b = r.coin(1, 3) ? a : rnd_rat(r, 5, 3);
            p = pmul(pmul(lin_factor(a), lin_factor(a)), lin_factor(b));
            if (r.coin(1, 3))
                p = pmul(p, lin_factor(r.coin() ? a : rnd_rat(r, 3, 2)));
            tag = "poly:repeated";
        } else if (kind < 95) {
            // degenerate: leading zero coefficients written explicitly
            int deg = (int)r.range(0, 3);
            p = gen_from_roots(r, deg, tag);
            emit("poly " + dom + " " + poly_str(p, (size_t)r.range(1, 2)), "poly:leading-zeros");
            continue;
        } else {
            // integer coefficients, small: the typical user input
            int deg = (int)r.range(2, 4);
            for (int k = 0; k <= deg; k++)
                p.push_back(Fr(r.range(-5, 5)));
            if (p.back().zero())
                p.back() = Fr(1);
            tag = "poly:smallint-d" + tostr(deg);
        }
        emit("poly " + dom + " " + poly_str(p), tag);
    }
    // --- rational equations
    // Denominators are passed with degree <= 2 (their roots come back as rationals / quadratic surds); over the
    // reals all denominator roots are numbers (rational or Gaussian rational), because Reals.contains(sqrt(2))
    // stays symbolic and Intersection::set_complement mishandles such sets (docs/C30.md, finding F7).
    auto gen_den = [&](int deg, bool numbers_only) {
        std::string t1;
        if (!numbers_only)
            return gen_from_roots(r, deg, t1);
        Poly p{Fr(1)};
        int left = deg;
        while (left > 0) {
            if (left >= 2 && r.coin(1, 3)) {
                p = pmul(p, quad_factor(rnd_rat(r, 3, 2), rnd_nz(r, 3, 2), -1));
                left -= 2;
            } else {
                p = pmul(p, lin_factor(rnd_rat(r, 5, 3)));
                left -= 1;
            }
        }
        return p;
    };
    // F8 (docs/C30.md): a pole is recognised only if numerator and denominator return it as the *same* expression;
    // a numerator of degree >= 3 (Cardano / Euler form) sharing a root with a denominator, or a denominator of degree
    // >= 3, is flagged `#F8`.  Decided here with exact polynomial arithmetic, not by running the library.
    auto emit_rat = [&](const std::string &opname, const std::string &dom, const std::vector<Poly> &ps,
                        const std::string &tag) {
        Poly N, D;
        bool bigden = false;
        if (ps.size() == 2) {
            N = ps[0];
            D = ps[1];
            bigden = ps[1].size() > 3;
        } else {
            N = padd(pmul(ps[0], ps[3]), pmul(ps[2], ps[1]));
            D = pmul(ps[1], ps[3]);
            bigden = ps[1].size() > 3 || ps[3].size() > 3;
        }
        if (N.empty() || N.size() > 5 || D.empty())
            return;
        bool shared = pgcd(N, D).size() > 1;
        std::string line = opname + " " + dom;
        for (auto &p : ps)
            line += " " + poly_str(p);
        if (bigden || (shared && N.size() > 3))
            emit(line + " #F8", "known:F8-" + tag);
        else
            emit(line, tag);
    };
    for (int i = 0; i < n_rat; i++) {
        std::string dom = dom_of(r), tag, t1;
        bool real = dom == "R";
        int kind = (int)r.below(20);
        auto monomial = [](const Poly &p) {
            int nz = 0;
            for (auto &c : p)
                if (!c.zero())
                    nz++;
            return nz == 1 && p.size() > 1;
        };
        if (kind < 9) {
            // n1/d1, often with a common factor
            int dn = (int)r.range(1, 3);
            Poly n1 = gen_from_roots(r, dn, t1), d1 = gen_den(1, real);
            int common = 0;
            if (r.coin(2, 3)) {
                Poly cf = lin_factor(rnd_rat(r, 4, 3));
                if (n1.size() + cf.size() - 2 <= 4) {
                    n1 = pmul(n1, cf);
                    d1 = pmul(d1, cf);
                    common = 1;
                }
            }
            // x^k / x^j is simplified by the Mul constructor before solve sees it
            if (monomial(d1) && (n1.empty() || n1[0].zero()))
                continue;
            emit_rat("rat", dom, {n1, d1}, common ? "rat:common-factor" : "rat:coprime");
        } else if (kind < 18) {
            // n1/d1 + n2/d2, numerator degree <= 4
            Poly d1 = gen_den((int)r.range(1, 2), real);
            Poly d2 = r.coin(1, 3) ? Poly{Fr(1)} : gen_den((int)r.range(1, 2), real);
            Poly n1 = gen_from_roots(r, (int)r.range(0, 2), t1), n2 = gen_from_roots(r, (int)r.range(0, 2), t1);
            if (r.coin(1, 3) && d1.size() <= 2) {
                // a removable singularity: numerator and denominator of the first fraction share a root
                Fr a = rnd_rat(r, 3, 2);
                d1 = pmul(d1, lin_factor(a));
                n1 = pmul(n1, lin_factor(a));
                tag = "rat2:pole-cancelled";
            } else
                tag = d2.size() == 1 ? "rat2:poly-plus-fraction" : "rat2:two-fractions";
            if ((monomial(d1) && (n1.empty() || n1[0].zero())) || (monomial(d2) && (n2.empty() || n2[0].zero())))
                continue;
            emit_rat("rat2", dom, {n1, d1, n2, d2}, tag);
        } else if (kind == 18) {
            // F8: a cubic denominator returns its roots in Cardano form, the pole is not recognised
            Fr a = rnd_rat(r, 3, 1);
            Poly d1 = pmul(pmul(lin_factor(a), lin_factor(a + Fr(1))), lin_factor(a - Fr(2)));
            Poly n1 = pmul(lin_factor(a), lin_factor(rnd_rat(r, 5, 2)));
            emit_rat("rat", "C", {n1, d1}, "rat:cubic-denominator");
        } else {
            // F7: irrational real pole candidates over the reals (Intersection::set_complement)
            Poly d1 = quad_factor(Fr(0), Fr(1), r.coin() ? 2 : 3);
            Poly n1 = lin_factor(rnd_rat(r, 4, 2));
            Poly n2{rnd_nz(r, 3, 1)}, d2 = lin_factor(rnd_rat(r, 3, 1));
            emit("rat2 R " + poly_str(n1) + " " + poly_str(d1) + " " + poly_str(n2) + " " + poly_str(d2) + " #F7",
                 "known:F7-rat-real-irrational-pole");
        }
    }
    // --- linear systems with a unique solution (determinant checked here, exactly)
    for (int i = 0; i < n_lin; i++) {
        unsigned n = (unsigned)r.range(1, 5);
        std::vector<std::vector<Fr>> A(n, std::vector<Fr>(n));
        int fam = (int)r.below(4);
        for (unsigned a = 0; a < n; a++)
            for (unsigned b = 0; b < n; b++) {
                if (fam == 0)
                    A[a][b] = Fr(r.range(-5, 5));
                else if (fam == 1)
                    A[a][b] = r.coin(1, 2) ? Fr(0) : Fr(r.range(-4, 4)); // sparse: zero pivots
                else if (fam == 2)
                    A[a][b] = rnd_rat(r, 6, 4);
                else
                    A[a][b] = (a + b == n - 1) ? rnd_nz(r, 4, 2) : (r.coin(1, 4) ? rnd_rat(r, 3, 2) : Fr(0)); // anti-diagonal
            }
        if (n >= 2 && r.coin(1, 12)) {
            // rank deficient: one row is a multiple of another
            unsigned a = (unsigned)r.below(n), b = (a + 1 + (unsigned)r.below(n - 1)) % n;
            Fr f = rnd_rat(r, 3, 2);
            for (unsigned j = 0; j < n; j++)
                A[b][j] = A[a][j] * f;
        }
        // exact determinant by Gaussian elimination on a copy
        std::vector<std::vector<Fr>> M = A;
        bool singular = false;
        for (unsigned c = 0; c < n && !singular; c++) {
            unsigned p = c;
            while (p < n && M[p][c].zero())
                p++;
            if (p == n) {
                singular = true;
                break;
            }
            std::swap(M[p], M[c]);
            for (unsigned k = c + 1; k < n; k++) {
                Fr f = M[k][c] / M[c][c];
                for (unsigned j = c; j < n; j++)
                    M[k][j] = M[k][j] - f * M[c][j];
            }
        }
        std::vector<std::string> rows, bs;
        for (unsigned a = 0; a < n; a++) {
            std::vector<std::string> es;
            for (unsigned b = 0; b < n; b++)
                es.push_back(A[a][b].str());
            rows.push_back(join(es, ","));
            bs.push_back((fam == 2 ? rnd_rat(r, 6, 3) : Fr(r.range(-6, 6))).str());
        }
        static const char *fams[] = {"dense-int", "sparse-int", "rational", "antidiagonal"};
        bool eqform = r.coin(1, 3) && !singular;
        if (singular) {
            emit("lin " + tostr(n) + " " + join(rows, ";") + " " + join(bs, ","), "lin:singular");
            continue;
        }
        emit(std::string(eqform ? "lineq " : "lin ") + tostr(n) + " " + join(rows, ";") + " " + join(bs, ","),
             std::string(eqform ? "lineq:" : "lin:") + fams[fam]);
    }
    // --- trigonometric equations without real solutions: exp(ix) lies off the unit circle, so the modulus part
    // log|y| of the inversion x = arg y - i log|y| + 2 n pi matters (for real solutions it is log 1 = 0).
    // |a| != |b| in the mixed cases keeps atan2(im, re) symbolic (im/re = a/b is not in the tangent table), away from
    // the quadrant defect F4.
    {
        int n_trign = th ? 300 : 40;
        for (int i = 0; i < n_trign; i++) {
            int kind = (int)r.below(10);
            Fr a(0), b(0), cre(0), cim(0);
            std::string tag;
            auto beyond = [&](const Fr &m2) {
                // a rational c with c^2 > m2 (= a^2 + b^2), either sign
                for (;;) {
                    Fr c = rnd_nz(r, 9, 3);
                    if ((c * c - m2).sgn() > 0)
                        return c;
                }
            };
            if (kind < 3) {
                b = rnd_nz(r, 4, 2);
                cre = beyond(b * b);
                tag = "trign:cos-real-rhs";
            } else if (kind < 6) {
                a = rnd_nz(r, 4, 2);
                cre = beyond(a * a);
                tag = "trign:sin-real-rhs";
            } else if (kind < 8) {
                if (r.coin())
                    a = rnd_nz(r, 4, 2);
                else
                    b = rnd_nz(r, 4, 2);
                cre = rnd_rat(r, 4, 2);
                cim = rnd_nz(r, 4, 2);
                tag = "trign:complex-rhs";
            } else {
                do {
                    a = Fr(r.range(-3, 3));
                    b = Fr(r.range(-3, 3));
                } while (a.zero() || b.zero() || (a * a - b * b).zero());
                if (kind == 8) {
                    cre = beyond(a * a + b * b);
                    tag = "trign:sin-cos-real-rhs";
                } else {
                    cre = rnd_rat(r, 3, 2);
                    cim = rnd_nz(r, 3, 2);
                    tag = "trign:sin-cos-complex-rhs";
                }
            }
            emit("trign " + a.str() + " " + b.str() + " " + cre.str() + " " + cim.str(), tag);
        }
    }
    // --- linear trigonometric equations (oracle only)
    for (int i = 0; i < n_trig; i++) {
        int kind = (int)r.below(10);
        if (kind < 5) {
            Fr a = r.coin(1, 4) ? Fr(0) : Fr(r.range(-3, 3)), b = r.coin(1, 4) ? Fr(0) : Fr(r.range(-3, 3));
            Fr c = r.coin(1, 3) ? Fr(0) : rnd_rat(r, 3, 2);
            if (a.zero() && b.zero())
                a = Fr(1);
            emit("trig " + a.str() + " " + b.str() + " 0 0 " + c.str(), "trig:sin-cos-const");
        } else if (kind < 7) {
            Fr a = rnd_nz(r, 3, 1), c = rnd_rat(r, 3, 2);
            emit("trigt " + a.str() + " " + c.str(), "trig:tan");
        } else {
            Fr a2 = Fr(r.range(-2, 2)), b2 = Fr(r.range(-2, 2));
            if (a2.zero() && b2.zero())
                a2 = Fr(1);
            Fr c = r.coin() ? Fr(0) : rnd_rat(r, 2, 2);
            emit("trig 0 0 " + a2.str() + " " + b2.str() + " " + c.str(), "trig:double-angle");
        }
    }
}
