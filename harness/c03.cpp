// C03: every expression the (arithmetic) API returns is in canonical form.
//
// Op lines (operands are canonical dumps, harness/sexp.h):
//   add A B | sub A B | mul A B | div A B | pow A B | neg A | sqrt A | cbrt A | addn A.. | muln A..
//   canon X        X = one node given structurally (top possibly non-canonical, children canonical):
//                  prints 1/0 = the library's own is_canonical(...) on those fields
//   o<op> ...      same op, operands outside the Lean model's fragment (floats, oo, nan): output SKIP,
//                  only the oracle is evaluated
// Oracle (independent of the Lean model):
//   (a) the assertion build throws VerifAssertError when is_canonical fails inside any constructor
//       (reported by common.h as FAIL:assert);
//   (b) the public is_canonical of Add/Mul/Pow/Rational/Complex is re-evaluated on the fields of the
//       returned object and of all its subterms (FAIL:canon).
#include "common.h"
#include "sexp.h"
#include <csetjmp>
#include <csignal>

using namespace SymEngine;
using vsexp::dump;

// ------------------------------------------------------------------ oracle (b)
static RCP<const Basic> g_x, g_y;
static RCP<const Add> g_add;
static RCP<const Mul> g_mul;
static RCP<const Pow> g_pow;
static RCP<const Rational> g_rat;
static RCP<const Complex> g_cplx;
static void init_insts()
{
    if (!g_x.is_null())
        return;
    g_x = symbol("x");
    g_y = symbol("y");
    g_add = rcp_static_cast<const Add>(add(g_x, g_y));
    g_mul = rcp_static_cast<const Mul>(mul(g_x, g_y));
    g_pow = rcp_static_cast<const Pow>(pow(g_x, g_y));
    g_rat = rcp_static_cast<const Rational>(rational(1, 2));
    g_cplx = rcp_static_cast<const Complex>(rcp_static_cast<const Basic>(I));
}

// returns "" or a description of the first non-canonical node
static std::string deep_canon(const Basic &b, int depth = 0)
{
    if (depth > 200)
        return "";
    switch (b.get_type_code()) {
        case SYMENGINE_RATIONAL: {
            const rational_class &q = down_cast<const Rational &>(b).as_rational_class();
            if (get_den(q) == 0)
                return "Rational with zero denominator";
            if (!g_rat->is_canonical(q))
                return "Rational " + dump(b);
            return "";
        }
        case SYMENGINE_COMPLEX: {
            const Complex &c = down_cast<const Complex &>(b);
            if (get_den(c.real_) == 0 || get_den(c.imaginary_) == 0)
                return "Complex with zero denominator";
            if (!g_cplx->is_canonical(c.real_, c.imaginary_))
                return "Complex " + dump(b);
            return "";
        }
        case SYMENGINE_ADD: {
            const Add &a = down_cast<const Add &>(b);
            if (!g_add->is_canonical(a.get_coef(), a.get_dict()))
                return "Add " + dump(b);
            std::string s = deep_canon(*a.get_coef(), depth + 1);
            if (!s.empty())
                return s;
            for (auto &p : a.get_dict()) {
                s = deep_canon(*p.first, depth + 1);
                if (!s.empty())
                    return s;
                s = deep_canon(*p.second, depth + 1);
                if (!s.empty())
                    return s;
            }
            return "";
        }
        case SYMENGINE_MUL: {
            const Mul &m = down_cast<const Mul &>(b);
            if (!g_mul->is_canonical(m.get_coef(), m.get_dict()))
                return "Mul " + dump(b);
            std::string s = deep_canon(*m.get_coef(), depth + 1);
            if (!s.empty())
                return s;
            for (auto &p : m.get_dict()) {
                s = deep_canon(*p.first, depth + 1);
                if (!s.empty())
                    return s;
                s = deep_canon(*p.second, depth + 1);
                if (!s.empty())
                    return s;
            }
            return "";
        }
        case SYMENGINE_POW: {
            const Pow &p = down_cast<const Pow &>(b);
            if (!g_pow->is_canonical(*p.get_base(), *p.get_exp()))
                return "Pow " + dump(b);
            std::string s = deep_canon(*p.get_base(), depth + 1);
            if (!s.empty())
                return s;
            return deep_canon(*p.get_exp(), depth + 1);
        }
        default: {
            if (is_a_Number(b) || is_a<Symbol>(b) || is_a<Constant>(b))
                return "";
            for (auto &a : b.get_args()) {
                std::string s = deep_canon(*a, depth + 1);
                if (!s.empty())
                    return s;
            }
            return "";
        }
    }
}

// ------------------------------------------------------------------ ops
static RCP<const Basic> apply_op(const std::string &op, const vec_basic &a)
{
    auto need = [&](size_t n) {
        if (a.size() != n)
            throw std::runtime_error("arity");
    };
    if (op == "add") {
        need(2);
        return add(a[0], a[1]);
    }
    if (op == "sub") {
        need(2);
        return sub(a[0], a[1]);
    }
    if (op == "mul") {
        need(2);
        return mul(a[0], a[1]);
    }
    if (op == "div") {
        need(2);
        return div(a[0], a[1]);
    }
    if (op == "pow") {
        need(2);
        return pow(a[0], a[1]);
    }
    if (op == "neg") {
        need(1);
        return neg(a[0]);
    }
    if (op == "sqrt") {
        need(1);
        return sqrt(a[0]);
    }
    if (op == "cbrt") {
        need(1);
        return cbrt(a[0]);
    }
    if (op == "addn")
        return add(a);
    if (op == "muln")
        return mul(a);
    throw std::runtime_error("unknown op " + op);
}

static std::string res_kind(const Basic &b)
{
    if (is_a<Integer>(b))
        return "Int";
    if (is_a<Rational>(b))
        return "Rat";
    if (is_a<Complex>(b))
        return "Cplx";
    if (is_a_Number(b))
        return "OtherNum";
    if (is_a<Symbol>(b))
        return "Sym";
    if (is_a<Constant>(b))
        return "Const";
    if (is_a<Add>(b))
        return "Add";
    if (is_a<Mul>(b))
        return "Mul";
    if (is_a<Pow>(b))
        return "Pow";
    return "Fn";
}

// raw (not canonicalised) rational from an atom "p/q"
static bool raw_rat(const std::string &a, rational_class &q)
{
    size_t k = a.find('/');
    integer_class n, d(1);
    if (k == std::string::npos)
        n = integer_class(a.c_str());
    else {
        n = integer_class(a.substr(0, k).c_str());
        d = integer_class(a.substr(k + 1).c_str());
    }
    if (d <= 0)
        return false;
    // raw numerator/denominator, deliberately *not* canonicalised
    mpz_set(mpq_numref(q.get_mpq_t()), n.get_mpz_t());
    mpz_set(mpq_denref(q.get_mpq_t()), d.get_mpz_t());
    return true;
}

static std::string run_canon(const vsexp::Node &n)
{
    init_insts();
    if (n.is_atom() && n.kids.empty()) {
        if (n.atom == "nan")
            return "1";
        rational_class q;
        if (!raw_rat(n.atom, q))
            return "bad-op";
        if (get_den(q) == 1)
            return "1"; // an Integer
        return g_rat->is_canonical(q) ? "1" : "0";
    }
    const std::string &hd = n.kids.at(0).atom;
    if (hd == "C") {
        rational_class re, im;
        if (!raw_rat(n.kids.at(1).atom, re) || !raw_rat(n.kids.at(2).atom, im))
            return "bad-op";
        return g_cplx->is_canonical(re, im) ? "1" : "0";
    }
    if (hd == "+") {
        umap_basic_num d;
        for (size_t k = 2; k < n.kids.size(); k++)
            d[vsexp::build(n.kids[k].kids.at(0))] = vsexp::build_num(n.kids[k].kids.at(1));
        if (d.size() != n.kids.size() - 2)
            return "bad-op"; // duplicate keys cannot be represented
        return g_add->is_canonical(vsexp::build_num(n.kids.at(1)), d) ? "1" : "0";
    }
    if (hd == "*") {
        map_basic_basic d;
        for (size_t k = 2; k < n.kids.size(); k++)
            d[vsexp::build(n.kids[k].kids.at(0))] = vsexp::build(n.kids[k].kids.at(1));
        if (d.size() != n.kids.size() - 2)
            return "bad-op";
        return g_mul->is_canonical(vsexp::build_num(n.kids.at(1)), d) ? "1" : "0";
    }
    if (hd == "^") {
        RCP<const Basic> b = vsexp::build(n.kids.at(1)), e = vsexp::build(n.kids.at(2));
        return g_pow->is_canonical(*b, *e) ? "1" : "0";
    }
    // any other node: children canonical, the class has no invariant modelled here
    vsexp::build(n);
    return "1";
}

std::string hx_run(const std::string &line, std::string &oracle)
{
    init_insts();
    std::vector<vsexp::Node> nodes = vsexp::parse_all(line);
    if (nodes.empty() || !nodes[0].is_atom())
        return "bad-op";
    std::string op = nodes[0].atom;
    if (op == "canon") {
        if (nodes.size() != 2)
            return "bad-op";
        stat("canon_ops");
        std::string r = run_canon(nodes[1]);
        stat(r == "1" ? "canon_true" : "canon_false");
        return r;
    }
    bool oracle_only = false;
    if (op[0] == 'o') {
        oracle_only = true;
        op = op.substr(1);
    }
    vec_basic args;
    for (size_t i = 1; i < nodes.size(); i++)
        args.push_back(vsexp::build(nodes[i]));
    RCP<const Basic> r = apply_op(op, args);
    stat("ops");
    stat("res:" + res_kind(*r));
    std::string bad = deep_canon(*r);
    if (!bad.empty())
        oracle = "FAIL:canon:non-canonical node in result: " + bad;
    if (oracle_only)
        return "SKIP";
    return dump(*r);
}

// ------------------------------------------------------------------ generator
static sigjmp_buf g_jmp;
static volatile sig_atomic_t g_guard = 0;
static void on_crash(int sig)
{
    if (g_guard)
        siglongjmp(g_jmp, sig);
    signal(sig, SIG_DFL);
    raise(sig);
}

struct Item {
    RCP<const Basic> e;
    int depth;
};

static bool int_small(const integer_class &i, long lim)
{
    return mp_abs(i) <= integer_class(lim);
}
static size_t mp_bit_length(const integer_class &i)
{
    return mpz_sizeinbase(i.get_mpz_t(), 2);
}

// inside the Lean model's fragment?  `in_exp`: we are inside an exponent position
static bool in_fragment(const Basic &b, bool in_exp, int depth = 0)
{
    if (depth > 60)
        return false;
    switch (b.get_type_code()) {
        case SYMENGINE_INTEGER: {
            const integer_class &i = down_cast<const Integer &>(b).as_integer_class();
            if (in_exp)
                return int_small(i, 30);
            return mp_bit_length(mp_abs(i)) <= 400;
        }
        case SYMENGINE_RATIONAL: {
            const rational_class &q = down_cast<const Rational &>(b).as_rational_class();
            if (get_den(q) == 0)
                return false;
            if (in_exp)
                return int_small(get_num(q), 30) && int_small(get_den(q), 1000);
            return mp_bit_length(mp_abs(get_num(q))) <= 400 && mp_bit_length(get_den(q)) <= 400;
        }
        case SYMENGINE_COMPLEX: {
            const Complex &c = down_cast<const Complex &>(b);
            for (const rational_class *q : {&c.real_, &c.imaginary_}) {
                if (get_den(*q) == 0)
                    return false;
                if (mp_bit_length(mp_abs(get_num(*q))) > 400 || mp_bit_length(get_den(*q)) > 400)
                    return false;
                if (in_exp && !(int_small(get_num(*q), 30) && int_small(get_den(*q), 1000)))
                    return false;
            }
            return true;
        }
        case SYMENGINE_SYMBOL:
        case SYMENGINE_CONSTANT:
            return true;
        case SYMENGINE_ADD: {
            const Add &a = down_cast<const Add &>(b);
            if (!in_fragment(*a.get_coef(), in_exp, depth + 1))
                return false;
            for (auto &p : a.get_dict())
                if (!in_fragment(*p.first, in_exp, depth + 1) || !in_fragment(*p.second, in_exp, depth + 1))
                    return false;
            return true;
        }
        case SYMENGINE_MUL: {
            const Mul &m = down_cast<const Mul &>(b);
            if (!in_fragment(*m.get_coef(), in_exp, depth + 1))
                return false;
            for (auto &p : m.get_dict())
                if (!in_fragment(*p.first, in_exp, depth + 1) || !in_fragment(*p.second, true, depth + 1))
                    return false;
            return true;
        }
        case SYMENGINE_POW: {
            const Pow &p = down_cast<const Pow &>(b);
            return in_fragment(*p.get_base(), in_exp, depth + 1) && in_fragment(*p.get_exp(), true, depth + 1);
        }
        case SYMENGINE_FUNCTIONSYMBOL:
        case SYMENGINE_SIN:
        case SYMENGINE_COS:
        case SYMENGINE_LOG: {
            for (auto &a : b.get_args())
                if (!in_fragment(*a, in_exp, depth + 1))
                    return false;
            return true;
        }
        default:
            return false;
    }
}

static int tree_depth(const Basic &b)
{
    int d = 0;
    if (is_a<Add>(b)) {
        for (auto &p : down_cast<const Add &>(b).get_dict())
            d = std::max(d, std::max(tree_depth(*p.first), tree_depth(*p.second)));
        return d + 1;
    }
    if (is_a<Mul>(b)) {
        for (auto &p : down_cast<const Mul &>(b).get_dict())
            d = std::max(d, std::max(tree_depth(*p.first), tree_depth(*p.second)));
        return d + 1;
    }
    if (is_a_Number(b) || is_a<Symbol>(b) || is_a<Constant>(b))
        return 0;
    for (auto &a : b.get_args())
        d = std::max(d, tree_depth(*a));
    return d + 1;
}

struct G {
    Rng &r;
    std::vector<Item> pool;
    std::vector<RCP<const Basic>> nums, syms, rads, exps;
    int maxdepth;
    size_t maxlen;
    long emitted = 0;
    explicit G(Rng &rr, int md, size_t ml) : r(rr), maxdepth(md), maxlen(ml) {}

    RCP<const Basic> guarded(const std::string &op, const vec_basic &a)
    {
        // run the real library inside the generator to grow the pool; survive defects
        RCP<const Basic> res;
        g_guard = 1;
        int sig = sigsetjmp(g_jmp, 1);
        if (sig == 0) {
            try {
                res = apply_op(op, a);
            } catch (...) {
                res = RCP<const Basic>();
            }
        } else {
            res = RCP<const Basic>();
        }
        g_guard = 0;
        return res;
    }
    static std::string kind(const Basic &b)
    {
        return res_kind(b);
    }
    void admit(const RCP<const Basic> &e)
    {
        if (e.is_null())
            return;
        if (!in_fragment(*e, false))
            return;
        int d = tree_depth(*e);
        if (d > maxdepth)
            return;
        if (dump(*e).size() > maxlen)
            return;
        pool.push_back({e, d});
    }
    // operands must be in the fragment; pow additionally keeps numeric exponents small
    bool ok_operands(const std::string &op, const vec_basic &a)
    {
        for (auto &x : a)
            if (!in_fragment(*x, false))
                return false;
        if (op == "pow") {
            const Basic &b = *a[1];
            if (is_a<Integer>(b))
                return int_small(down_cast<const Integer &>(b).as_integer_class(), 8);
            if (is_a<Rational>(b))
                return int_small(get_num(down_cast<const Rational &>(b).as_rational_class()), 9)
                       && int_small(get_den(down_cast<const Rational &>(b).as_rational_class()), 12);
            return in_fragment(b, true);
        }
        return true;
    }
    RCP<const Basic> run(const std::string &op, const vec_basic &a, const std::string &tag_extra = "")
    {
        if (!ok_operands(op, a))
            return RCP<const Basic>();
        std::string line = op;
        size_t len = 0;
        for (auto &x : a) {
            std::string s = dump(*x);
            len += s.size();
            line += " " + s;
        }
        if (len > 2 * maxlen + 200)
            return RCP<const Basic>();
        std::string tag = op + ":";
        for (size_t i = 0; i < a.size() && i < 2; i++)
            tag += (i ? "-" : "") + kind(*a[i]);
        if (a.size() > 2)
            tag += "-n";
        if (!tag_extra.empty())
            tag = tag_extra + "/" + tag;
        emit(line, tag);
        std::cout.flush();
        emitted++;
        RCP<const Basic> res = guarded(op, a);
        admit(res);
        return res;
    }
    const RCP<const Basic> &pick()
    {
        // bias towards recent entries (deeper, more interesting)
        size_t n = pool.size();
        if (r.coin(1, 3)) {
            size_t w = std::min<size_t>(n, 40);
            return pool[n - 1 - r.below(w)].e;
        }
        return pool[r.below(n)].e;
    }
    RCP<const Basic> small_exp()
    {
        return r.pick(exps);
    }
};

static void seed_leaves(G &g)
{
    Rng &r = g.r;
    auto x = symbol("x"), y = symbol("y"), z = symbol("z");
    g.syms = {x, y, z};
    std::vector<RCP<const Basic>> nums;
    for (long v : {0L, 1L, -1L, 2L, -2L, 3L, 4L, -4L, 6L, 8L, -8L, 9L, 12L, 16L, 27L, -27L, 64L, 100L})
        nums.push_back(integer(v));
    nums.push_back(integer(integer_class("100000000000000000000")));
    nums.push_back(integer(integer_class("-18446744073709551616")));
    nums.push_back(integer(integer_class("340282366920938463463374607431768211456")));
    nums.push_back(integer(r.range(-1000, 1000)));
    for (auto pq : std::vector<std::pair<long, long>>{{1, 2}, {-1, 2}, {1, 3}, {2, 3}, {-2, 3}, {3, 2}, {-3, 2}, {1, 4},
                                                       {3, 4}, {5, 2}, {4, 9}, {-4, 9}, {8, 27}, {-8, 27}, {1, 6}, {7, 5}})
        nums.push_back(rational(pq.first, pq.second));
    nums.push_back(Rational::from_two_ints(*integer(integer_class("100000000000000000000")), *integer(3)));
    nums.push_back(rational(r.range(-50, 50), r.range(1, 50)));
    nums.push_back(I);
    nums.push_back(mul(integer(2), I));
    nums.push_back(neg(I));
    nums.push_back(Complex::from_two_nums(*integer(1), *integer(1)));
    nums.push_back(Complex::from_two_nums(*rational(1, 2), *rational(-3, 4)));
    nums.push_back(Complex::from_two_nums(*integer(3), *integer(4)));
    nums.push_back(Complex::from_two_nums(*integer(0), *rational(1, 2)));
    nums.push_back(Complex::from_two_nums(*integer(r.range(-5, 5)), *integer(r.range(1, 5))));
    g.nums = nums;
    g.exps = {integer(2), integer(-1), integer(3), integer(-2), integer(4), integer(-3), integer(5), integer(0),
              integer(1), rational(1, 2), rational(-1, 2), rational(1, 3), rational(2, 3), rational(-1, 3),
              rational(3, 2), rational(-3, 2), rational(5, 2), rational(1, 4), rational(3, 4), rational(1, 6),
              rational(4, 3), rational(-5, 3), rational(7, 2), I, Complex::from_two_nums(*integer(1), *integer(1)),
              x, y, neg(x), add(x, integer(1)), mul(integer(2), x), mul(rational(1, 2), y), sub(rational(1, 2), x),
              sub(integer(1), x), sub(integer(-1), x), sub(rational(-1, 2), x), add(x, y), neg(add(x, y)), pi};
    for (auto &n : nums)
        g.pool.push_back({n, 0});
    for (auto &s : g.syms)
        g.pool.push_back({s, 0});
    g.pool.push_back({pi, 0});
    g.pool.push_back({E, 0});
    g.pool.push_back({EulerGamma, 0});
    g.pool.push_back({function_symbol("f", x), 1});
    g.pool.push_back({function_symbol("g", {x, y}), 1});
    g.pool.push_back({sin(x), 1});
    g.pool.push_back({log(y), 1});
}

static void gen_radicals(G &g)
{
    // numeric radicals: every base x every small rational exponent (rpowrat / powrat / perfect powers)
    std::vector<RCP<const Basic>> bases;
    for (long v : {2L, 3L, 4L, 6L, 8L, 9L, 12L, 16L, 18L, 27L, 32L, 64L, 72L, 100L, 1000L, -1L, -2L, -3L, -4L, -8L, -9L, -16L,
                   -27L, -32L, -64L, 0L, 1L})
        bases.push_back(integer(v));
    for (auto pq : std::vector<std::pair<long, long>>{{1, 2}, {-1, 2}, {1, 4}, {4, 9}, {-4, 9}, {8, 27}, {-8, 27}, {2, 3},
                                                       {3, 2}, {9, 4}, {1, 8}, {16, 81}, {-1, 8}, {12, 5}, {5, 12}})
        bases.push_back(rational(pq.first, pq.second));
    bases.push_back(integer(integer_class("100000000000000000000")));
    bases.push_back(integer(integer_class("-340282366920938463463374607431768211456")));
    std::vector<RCP<const Basic>> es;
    for (auto pq : std::vector<std::pair<long, long>>{{1, 2}, {-1, 2}, {3, 2}, {-3, 2}, {5, 2}, {1, 3}, {2, 3}, {-1, 3},
                                                       {-2, 3}, {4, 3}, {5, 3}, {-7, 3}, {1, 4}, {3, 4}, {-3, 4}, {1, 5},
                                                       {1, 6}, {5, 6}, {-5, 6}, {7, 2}, {2, 5}, {9, 4}})
        es.push_back(rational(pq.first, pq.second));
    for (auto &b : bases)
        for (auto &e : es) {
            auto res = g.run("pow", {b, e}, "radical");
            if (!res.is_null() && in_fragment(*res, false))
                g.rads.push_back(res);
        }
    for (auto &b : bases) {
        g.run("sqrt", {b}, "radical");
        g.run("cbrt", {b}, "radical");
    }
}

static void gen_directed(G &g, int rounds)
{
    Rng &r = g.r;
    auto x = g.syms[0], y = g.syms[1];
    // products whose exponents merge:  b**e1 * b**(c - e1)
    std::vector<RCP<const Basic>> bases
        = {integer(2),       integer(-2),        integer(4),      integer(8),   integer(-8),      integer(0),
           integer(-1),      rational(1, 2),     rational(2, 3),  rational(-4, 9), I,             mul(integer(2), I),
           Complex::from_two_nums(*integer(1), *integer(1)),     x,            mul(x, y),        mul(integer(2), x),
           neg(x),           mul(integer(-3), mul(x, y)),         mul(I, x),    pow(x, y),        pow(x, integer(2)),
           add(x, integer(1)), pi,               E,               function_symbol("f", x),        mul(rational(1, 2), x),
           mul(x, pow(y, rational(1, 2))), mul(integer(2), pow(x, rational(1, 2))), pow(integer(2), rational(1, 2)),
           sqrt(mul(x, y)),  sqrt(neg(x))};
    std::vector<RCP<const Basic>> cs
        = {integer(0),     integer(1),      integer(-1),     integer(2),     integer(-2),     integer(3),
           rational(1, 2), rational(-1, 2), rational(3, 2),  rational(-3, 2), rational(1, 3), rational(2, 3),
           rational(-1, 3), rational(5, 2), rational(1, 4), rational(7, 6), I,
           Complex::from_two_nums(*integer(-1), *integer(1)), Complex::from_two_nums(*rational(1, 2), *integer(2))};
    std::vector<RCP<const Basic>> e1s = {x, y, neg(x), mul(integer(2), x), add(x, y), rational(1, 2), rational(1, 3),
                                         rational(-1, 2), rational(1, 4), rational(2, 3), rational(5, 6), I, pi};
    for (int k = 0; k < rounds; k++) {
        auto b = r.pick(bases);
        auto e1 = r.pick(e1s);
        auto c = r.pick(cs);
        auto p1 = g.guarded("pow", {b, e1});
        auto e2 = g.guarded("sub", {c, e1});
        if (p1.is_null() || e2.is_null())
            continue;
        auto p2 = g.guarded("pow", {b, e2});
        if (p2.is_null())
            continue;
        if (r.coin())
            std::swap(p1, p2);
        auto res = g.run("mul", {p1, p2}, "merge");
        if (r.coin(1, 4) && !res.is_null()) {
            auto q = r.pick(g.pool).e;
            auto p1q = g.guarded("mul", {p1, q});
            if (!p1q.is_null())
                g.run("mul", {p1q, p2}, "merge3");
        }
        if (r.coin(1, 4))
            g.run("muln", {p1, r.pick(g.pool).e, p2}, "merge3");
    }
    // powers of products and of powers (power_num, nested Pow folding)
    for (int k = 0; k < rounds; k++) {
        auto a = g.pick();
        if (!is_a<Mul>(*a) && !is_a<Pow>(*a) && r.coin(2, 3))
            continue;
        g.run("pow", {a, g.small_exp()}, "powstruct");
    }
    // cancellations
    for (int k = 0; k < rounds; k++) {
        auto a = g.pick();
        auto na = g.guarded("neg", {a});
        auto ia = g.guarded("pow", {a, minus_one});
        auto b = g.pick();
        auto ab = g.guarded("add", {a, b});
        auto amb = g.guarded("mul", {a, b});
        if (ab.is_null() || amb.is_null())
            continue;
        switch (r.below(6)) {
            case 0:
                if (!na.is_null())
                    g.run("add", {a, na}, "cancel");
                break;
            case 1:
                if (!ia.is_null())
                    g.run("mul", {a, ia}, "cancel");
                break;
            case 2:
                if (!na.is_null())
                    g.run("add", {ab, na}, "cancel");
                break;
            case 3:
                if (!ia.is_null())
                    g.run("mul", {amb, ia}, "cancel");
                break;
            case 4:
                g.run("sub", {ab, b}, "cancel");
                break;
            default:
                g.run("div", {amb, b}, "cancel");
                break;
        }
    }
}

static void gen_random(G &g, long nops)
{
    Rng &r = g.r;
    for (long i = 0; i < nops; i++) {
        unsigned k = r.below(100);
        auto a = g.pick();
        auto b = g.pick();
        if (k < 18)
            g.run("add", {a, b});
        else if (k < 26)
            g.run("sub", {a, b});
        else if (k < 50)
            g.run("mul", {a, b});
        else if (k < 58)
            g.run("div", {a, b});
        else if (k < 62)
            g.run("neg", {a});
        else if (k < 80)
            g.run("pow", {a, r.coin(3, 4) ? g.small_exp() : b});
        else if (k < 85)
            g.run("sqrt", {a});
        else if (k < 87)
            g.run("cbrt", {a});
        else {
            vec_basic v;
            size_t n = r.below(5); // includes 0 and 1 operands
            if (r.coin(1, 6))
                n = 5 + r.below(4);
            for (size_t j = 0; j < n; j++)
                v.push_back(g.pick());
            g.run(k < 93 ? "addn" : "muln", v);
        }
    }
}

// structural (mostly non-canonical) nodes for the differential test of Expr.canon
static void gen_canon(G &g, long n)
{
    Rng &r = g.r;
    auto numstr = [&]() -> std::string {
        switch (r.below(8)) {
            case 0:
                return "0";
            case 1:
                return "1";
            case 2:
                return "-1";
            default:
                return dump(*r.pick(g.nums));
        }
    };
    auto anystr = [&]() -> std::string { return dump(*g.pick()); };
    auto keystr = [&]() -> std::string {
        if (r.coin(1, 5))
            return numstr();
        return anystr();
    };
    for (long i = 0; i < n; i++) {
        unsigned k = r.below(100);
        std::string s;
        std::string tag;
        if (k < 10) {
            long p = r.range(-12, 12), q = r.range(1, 12);
            s = std::to_string(p) + "/" + std::to_string(q);
            tag = "canon:Rational";
        } else if (k < 20) {
            auto rq = [&]() { return std::to_string(r.range(-6, 6)) + "/" + std::to_string(r.range(1, 6)); };
            s = "(C " + rq() + " " + rq() + ")";
            tag = "canon:Complex";
        } else if (k < 45) {
            size_t m = r.below(4);
            std::vector<std::string> keys;
            s = "(+ " + numstr();
            for (size_t j = 0; j < m; j++) {
                std::string ks = keystr();
                if (std::find(keys.begin(), keys.end(), ks) != keys.end())
                    continue;
                keys.push_back(ks);
                s += " (" + ks + " " + numstr() + ")";
            }
            s += ")";
            tag = "canon:Add";
        } else if (k < 75) {
            size_t m = r.below(4);
            std::vector<std::string> keys;
            s = "(* " + numstr();
            for (size_t j = 0; j < m; j++) {
                std::string ks = keystr();
                if (std::find(keys.begin(), keys.end(), ks) != keys.end())
                    continue;
                keys.push_back(ks);
                s += " (" + ks + " " + (r.coin() ? numstr() : (r.coin() ? dump(*g.small_exp()) : anystr())) + ")";
            }
            s += ")";
            tag = "canon:Mul";
        } else {
            s = "(^ " + keystr() + " " + (r.coin() ? numstr() : (r.coin() ? dump(*g.small_exp()) : anystr())) + ")";
            tag = "canon:Pow";
        }
        emit("canon " + s, tag);
    }
}

// operands outside the model's fragment: only the assertion / is_canonical oracle applies
static void gen_oracle_only(G &g, long n)
{
    Rng &r = g.r;
    std::vector<RCP<const Basic>> fl = {real_double(0.5), real_double(2.0),  real_double(-1.5), real_double(0.0),
                                        real_double(1.0), complex_double(std::complex<double>(0.5, 1.0)),
                                        Inf,              NegInf,            ComplexInf};
    auto x = g.syms[0];
    // the D7 family: Number ** symbolic, exponents summing to an inexact number
    for (auto b : std::vector<RCP<const Basic>>{integer(2), rational(1, 2), integer(-3), I}) {
        for (auto f : {0.5, 2.0, -1.5}) {
            auto p1 = pow(b, x);
            auto p2 = g.guarded("pow", {b, sub(real_double(f), x)});
            if (p2.is_null())
                continue;
            emit("omul " + dump(*p1) + " " + dump(*p2), "oracle-only/float-merge");
            emit("omul " + dump(*p2) + " " + dump(*p1), "oracle-only/float-merge");
        }
    }
    for (long i = 0; i < n; i++) {
        auto a = r.coin() ? r.pick(fl) : g.pick();
        auto b = r.coin() ? r.pick(fl) : g.pick();
        if (r.coin(1, 3)) {
            auto t = g.guarded(r.coin() ? "mul" : "add", {a, g.pick()});
            if (!t.is_null())
                a = t;
        }
        static const char *ops[] = {"add", "sub", "mul", "div", "pow"};
        std::string op = ops[r.below(5)];
        if (op == "pow" && is_a_Number(*b) && !is_a<RealDouble>(*b) && !is_a<Infty>(*b) && !is_a<ComplexDouble>(*b)) {
            if (!g.ok_operands("pow", {g.syms[0], b}))
                continue;
        }
        emit("o" + op + " " + dump(*a) + " " + dump(*b), "oracle-only/" + op);
    }
}

void hx_gen(Rng &r, const std::string &tier)
{
    init_insts();
    signal(SIGFPE, on_crash);
    signal(SIGSEGV, on_crash);
    signal(SIGABRT, on_crash);
    bool th = tier == "thorough";
    G g(r, th ? 6 : 4, th ? 700 : 350);
    seed_leaves(g);
    // boundary cases of pow on numbers (found by reading the code)
    for (auto &a : std::vector<RCP<const Basic>>{zero, one, minus_one, integer(2), rational(1, 2), I})
        for (auto &b : std::vector<RCP<const Basic>>{zero, one, minus_one, integer(2), rational(1, 2), rational(-1, 2), I,
                                                      Complex::from_two_nums(*integer(1), *integer(1)), g.syms[0]})
            g.run("pow", {a, b}, "boundary");
    gen_radicals(g);
    for (auto &e : g.rads)
        if (r.coin(1, 3))
            g.admit(e);
    int rounds = th ? 20 : 6;
    for (int k = 0; k < rounds; k++) {
        gen_directed(g, th ? 1200 : 500);
        gen_random(g, th ? 10000 : 3000);
    }
    gen_canon(g, th ? 40000 : 6000);
    gen_oracle_only(g, th ? 6000 : 1000);
}
