// C16: printing is a function of the value, and parse(str(e)) == e.
//
// Op lines (operands are canonical S-expression dumps, see sexp.h):
//   str <e>     output: e->__str__()           (compared with the Lean model `StrP.render`)
//               oracle: round trip  eq(parse(str(e)), e15)  where e15 is e with every double rounded to the
//                       printed 15 significant digits, and str_congr: every expression built along another
//                       construction path that is `eq` to e prints the same string
//   rt <e>      same execution and oracle, for inputs outside the modelled printing fragment (the model
//               answers SKIP:oracle-only)
//   pr <e>      print only (no round-trip oracle: the expression contains a class the parser has no name for,
//               or a name that the parser reads as something else); still compared with the model
//   names       the printer's function-name table through the real `init_str_printer_names()`
#include "exprgen.h"
#include <symengine/parser.h>
#include <symengine/printers.h>
#include <symengine/printers/strprinter.h>
#include <symengine/real_double.h>
#include <symengine/complex_double.h>
#include <symengine/visitor.h>
#include <symengine/mp_class.h>
#include <cmath>

using namespace SymEngine;

// ------------------------------------------------------------------ helpers
static double round15(double d)
{
    if (!std::isfinite(d))
        return d;
    char buf[64];
    snprintf(buf, sizeof buf, "%.15g", d); // independent of print_double
    return strtod(buf, nullptr);
}

// e with every double rounded to 15 significant digits (textually, on the dump)
static std::string round_dump(const std::string &s, bool &has_float)
{
    std::string o;
    size_t i = 0;
    has_float = false;
    while (i < s.size()) {
        if (s.compare(i, 3, "(D ") == 0 && i + 20 <= s.size() && s[i + 19] == ')') {
            double d = vsexp::hex_dbl(s.substr(i + 3, 16));
            o += "(D " + vsexp::dbl_hex(round15(d)) + ")";
            i += 20;
            has_float = true;
        } else if (s.compare(i, 4, "(CD ") == 0 && i + 38 <= s.size() && s[i + 37] == ')') {
            double a = vsexp::hex_dbl(s.substr(i + 4, 16)), b = vsexp::hex_dbl(s.substr(i + 21, 16));
            o += "(CD " + vsexp::dbl_hex(round15(a)) + " " + vsexp::dbl_hex(round15(b)) + ")";
            i += 38;
            has_float = true;
        } else
            o.push_back(s[i++]);
    }
    return o;
}

static bool has_type(const Basic &b, TypeID t)
{
    if (b.get_type_code() == t)
        return true;
    for (auto &a : b.get_args())
        if (has_type(*a, t))
            return true;
    return false;
}

// two strings that differ only in the sign of a floating-point zero ("-0.0" vs "0.0", " + -0.0" vs " + 0.0"):
// the consequence of eq(0.0, -0.0) (defect D1); anything else keeps the key `congr`
static std::string drop_zero_signs(const std::string &s)
{
    std::string o;
    for (size_t i = 0; i < s.size(); i++) {
        if (s[i] == '-' && s.compare(i + 1, 3, "0.0") == 0
            && (i + 4 >= s.size() || !(isdigit((unsigned char)s[i + 4]) || s[i + 4] == 'e'))
            && (i == 0 || !(isalnum((unsigned char)s[i - 1]) || s[i - 1] == '.' || s[i - 1] == '_')))
            continue;
        o.push_back(s[i]);
    }
    // "a - 0.0*I" and "a + 0.0*I": the sign was merged into the operator
    std::string t;
    for (size_t i = 0; i < o.size(); i++) {
        if (o.compare(i, 6, " - 0.0") == 0 && (i + 6 >= o.size() || !(isdigit((unsigned char)o[i + 6]) || o[i + 6] == 'e'))) {
            t += " + 0.0";
            i += 5;
        } else
            t.push_back(o[i]);
    }
    return t;
}
static std::string congr_key(const std::string &a, const std::string &b)
{
    return drop_zero_signs(a) == drop_zero_signs(b) ? "congr-signed-zero" : "congr";
}

// e rebuilt bottom-up through the public smart constructors (the parser builds its result this way)
static RCP<const Basic> canon(const RCP<const Basic> &e)
{
    vec_basic a = e->get_args();
    if (a.empty())
        return e;
    for (auto &x : a)
        x = canon(x);
    if (is_a<Add>(*e))
        return add(a);
    if (is_a<Mul>(*e))
        return mul(a);
    if (is_a<Pow>(*e))
        return pow(a[0], a[1]);
    if (is_a_sub<OneArgFunction>(*e))
        return down_cast<const OneArgFunction &>(*e).create(a[0]);
    if (is_a_sub<TwoArgFunction>(*e))
        return down_cast<const TwoArgFunction &>(*e).create(a[0], a[1]);
    if (is_a_sub<MultiArgFunction>(*e))
        return down_cast<const MultiArgFunction &>(*e).create(a);
    return e;
}

static void check_congr(const RCP<const Basic> &e, const std::string &s, const RCP<const Basic> &v, const char *path,
                        std::string &oracle)
{
    if (v.is_null() || !eq(*v, *e))
        return;
    stat(std::string("congr_pairs_") + path);
    std::string s2 = v->__str__();
    if (s2 != s && oracle == "ok")
        oracle = std::string("FAIL:") + congr_key(s, s2) + ":eq expressions print differently (path " + path + "): ["
                 + s + "] vs [" + s2 + "]";
}

// `sx` is the dump the object was rebuilt from, or empty for objects the wire format cannot carry (Piecewise)
static std::string run_obj(const RCP<const Basic> &e, const std::string &sx, bool roundtrip, std::string &oracle)
{
    std::string s = e->__str__();
    // ---- (a) str_congr: other construction paths
    // a1: the same object rebuilt from the dump once more, and from the dump of the dump
    if (!sx.empty())
        check_congr(e, s, vsexp::parse(vsexp::dump(*e)), "rebuild", oracle);
    // a2: rebuilt through the public smart constructors with the arguments reversed
    try {
        vec_basic args = e->get_args();
        std::reverse(args.begin(), args.end());
        RCP<const Basic> v;
        if (is_a<Add>(*e))
            v = add(args);
        else if (is_a<Mul>(*e))
            v = mul(args);
        if (!v.is_null())
            check_congr(e, s, v, "reversed-args", oracle);
        if (is_a<Add>(*e) || is_a<Mul>(*e)) {
            // left fold instead of the n-ary constructor
            std::reverse(args.begin(), args.end());
            RCP<const Basic> acc = args[0];
            for (size_t i = 1; i < args.size(); i++)
                acc = is_a<Add>(*e) ? add(acc, args[i]) : mul(acc, args[i]);
            check_congr(e, s, acc, "fold", oracle);
        }
    } catch (const std::exception &) {
        stat("congr_path_exception");
    }
    // a3: substitute a symbol away and back
    try {
        set_basic fs = free_symbols(*e);
        if (!fs.empty()) {
            RCP<const Basic> x = *fs.begin(), q = symbol("q_fresh_");
            map_basic_basic m1, m2;
            m1[x] = q;
            m2[q] = x;
            check_congr(e, s, e->subs(m1)->subs(m2), "subs-roundtrip", oracle);
        }
    } catch (const std::exception &) {
        stat("congr_path_exception");
    }
    if (!roundtrip)
        return s;
    // ---- (b) round trip
    bool has_float = false;
    std::string rd = round_dump(sx, has_float);
    RCP<const Basic> e15 = has_float ? vsexp::parse(rd) : e;
    if (sx.empty() && (has_type(*e, SYMENGINE_REAL_DOUBLE) || has_type(*e, SYMENGINE_COMPLEX_DOUBLE)))
        return s; // no rounded copy can be built without a dump
    RCP<const Basic> p;
    try {
        p = parse(s);
    } catch (const std::exception &ex) {
        if (oracle == "ok")
            oracle = "FAIL:roundtrip-parse:parse(str(e)) threw '" + std::string(ex.what()) + "' on [" + s + "]";
        return s;
    }
    stat(has_float ? "roundtrip_float" : "roundtrip_exact");
    bool same = eq(*p, *e15);
    if (!same) {
        // An expression that is not a fixpoint of its own constructors -- an *unevaluated* float operation such as
        // Pow(E, 2.5), or a factor (y**-1)**(1/3) that pow() itself would rewrite to y**(-1/3), left behind by a
        // rewrite inside the library (canonical-form business of C03/C04) -- is necessarily rebuilt differently by
        // the constructors the parser calls: compare with the re-constructed expression.
        try {
            RCP<const Basic> c15 = canon(e15);
            if (!eq(*c15, *e15) && eq(*p, *c15)) {
                stat(has_float ? "roundtrip_float_input_not_a_constructor_fixpoint"
                               : "roundtrip_input_not_a_constructor_fixpoint");
                return s;
            }
        } catch (const std::exception &) {
        }
    }
    if (!same) {
        if (oracle == "ok")
            oracle = "FAIL:roundtrip:parse(str(e)) != e: str=[" + s + "] reparsed prints [" + p->__str__() + "] dump "
                     + vsexp::dump(*p);
    } else {
        // a4: the parsed object is a further construction path
        if (!has_float)
            check_congr(e, s, p, "parse-of-str", oracle);
        else {
            std::string s15 = e15->__str__();
            std::string sp = p->__str__();
            if (sp != s15 && oracle == "ok")
                oracle = "FAIL:" + congr_key(s15, sp) + ":eq expressions print differently (path parse-of-str, rounded): ["
                         + s15 + "] vs [" + sp + "]";
        }
    }
    return s;
}

static std::string run_str(const std::string &sx, bool roundtrip, std::string &oracle)
{
    return run_obj(vsexp::parse(sx), sx, roundtrip, oracle);
}

static RCP<const Basic> piecewise_from_seed(uint64_t seed);

std::string hx_run(const std::string &line, std::string &oracle)
{
    if (line.compare(0, 5, "rtpw ") == 0) {
        // a Piecewise rebuilt from its seed (the wire format has no Piecewise): oracle only
        RCP<const Basic> e = piecewise_from_seed(strtoull(line.c_str() + 5, nullptr, 10));
        stat("piecewise_roundtrips");
        return run_obj(e, "", true, oracle);
    }
    if (line == "names") {
        std::vector<std::string> names = init_str_printer_names();
        std::vector<std::string> out;
        for (size_t i = 0; i < names.size(); i++)
            if (!names[i].empty())
                out.push_back(type_code_name((TypeID)i) + "=" + names[i]);
        return join(out, ",");
    }
    if (line.compare(0, 4, "str ") == 0)
        return run_str(line.substr(4), true, oracle);
    if (line.compare(0, 3, "rt ") == 0)
        return run_str(line.substr(3), true, oracle);
    if (line.compare(0, 3, "pr ") == 0)
        return run_str(line.substr(3), false, oracle);
    if (line.compare(0, 5, "pair ") == 0) {
        // str_congr on an explicit pair: `eq` expressions must print identically
        auto nodes = vsexp::parse_all(line.substr(5));
        if (nodes.size() != 2)
            return "bad-op";
        RCP<const Basic> a = vsexp::build(nodes[0]), b = vsexp::build(nodes[1]);
        std::string sa = a->__str__(), sb = b->__str__();
        bool e = eq(*a, *b);
        if (e && sa != sb)
            oracle = "FAIL:" + congr_key(sa, sb) + ":eq expressions print differently: [" + sa + "] vs [" + sb + "]";
        stat(e ? "pair_eq" : "pair_neq");
        return std::string(e ? "1 " : "0 ") + sa + " | " + sb;
    }
    return "bad-op";
}

// ------------------------------------------------------------------ generation
static RCP<const Basic> X(int i)
{
    return vgen::sym(i);
}
// finite doubles only, no -0.0, no complex double with a zero part
static bool finite_doubles_only(const Basic &b)
{
    if (is_a<RealDouble>(b)) {
        double d = down_cast<const RealDouble &>(b).i;
        return std::isfinite(d) && !(d == 0 && std::signbit(d));
    }
    if (is_a<ComplexDouble>(b)) {
        auto z = down_cast<const ComplexDouble &>(b).i;
        return std::isfinite(z.real()) && std::isfinite(z.imag()) && z.real() != 0 && z.imag() != 0;
    }
    for (auto &a : b.get_args())
        if (!finite_doubles_only(*a))
            return false;
    return true;
}

static void put(const char *op, const RCP<const Basic> &e, const std::string &tag)
{
    // the round-trip fragment has finite doubles only, no -0.0 and no complex double with a zero part (these
    // arise as results of float arithmetic, e.g. -1 * 0.0); they are covered by the signed-zero family
    if (std::string(op) == "str" && !finite_doubles_only(*e))
        return;
    emit(std::string(op) + " " + vsexp::dump(*e), tag);
}

static double bits_dbl(uint64_t u)
{
    double d;
    memcpy(&d, &u, 8);
    return d;
}

static double rand_double(Rng &r)
{
    switch (r.below(9)) {
        case 0: { // arbitrary finite bit pattern
            uint64_t u = r.next();
            if (((u >> 52) & 0x7ff) == 0x7ff)
                u &= ~(1ULL << 62);
            return bits_dbl(u);
        }
        case 1: { // short decimal
            double m = (double)r.range(-99999, 99999);
            return m / std::pow(10.0, (double)r.range(0, 8));
        }
        case 2: { // around a power of ten (rounding carries into the next decade)
            double p = std::pow(10.0, (double)r.range(-8, 24));
            double d = p * (1.0 + (double)r.range(-4, 4) * 1.1e-16);
            return r.coin() ? d : -d;
        }
        case 3: { // 14..17 digit integers: the `.` / `.0` tail and the fixed/exponent switch
            double p = std::pow(10.0, (double)r.range(13, 17));
            double d = std::floor(p * (0.1 + 0.9 * (double)r.below(1000000) / 1e6));
            return r.coin(1, 3) ? -d : d;
        }
        case 4: { // small magnitudes: the 1e-5 / 0.0001 switch
            double p = std::pow(10.0, -(double)r.range(3, 7));
            return p * (double)r.range(1, 99) * (r.coin() ? 1 : -1);
        }
        case 5: { // ties at the 15th digit: k + 0.5 ulp-of-15-digits patterns
            double base = (double)r.range(100000000000000LL, 999999999999999LL);
            return (base + 0.5) / std::pow(10.0, (double)r.range(0, 14));
        }
        case 6: { // subnormals and the largest values
            uint64_t u = r.coin() ? (r.next() & 0xfffffffffffffULL) : (0x7fe0000000000000ULL | (r.next() & 0xfffffffffffffULL));
            return bits_dbl(u | (r.coin(1, 4) ? (1ULL << 63) : 0));
        }
        case 7:
            return (double)r.range(-1000, 1000);
        default: { // a/b
            double d = (double)r.range(-50, 50) / (double)r.range(1, 97);
            return d;
        }
    }
}

static RCP<const Number> rand_number(Rng &r, bool floats, bool big)
{
    unsigned k = r.below(100);
    if (k < 30)
        return integer(r.range(-12, 12));
    if (big && k < 38) {
        integer_class v(1);
        int limbs = 1 + (int)r.below(3);
        for (int i = 0; i < limbs; i++)
            v = v * integer_class(4294967296UL) + integer_class((unsigned long)(r.next() & 0xffffffffUL));
        return integer(r.coin() ? v : integer_class(-v));
    }
    if (k < 55)
        return Rational::from_two_ints(*integer(r.range(-9, 9)), *integer(r.range(2, 11)));
    if (k < 78) {
        rational_class re(r.range(-3, 3), r.range(1, 4)), im(r.range(-3, 3), r.range(1, 4));
        canonicalize(re);
        canonicalize(im);
        return Complex::from_mpq(re, im);
    }
    if (floats && k < 92) {
        double d = rand_double(r);
        return real_double(d == 0 ? 0.0 : d);
    }
    if (floats) {
        // a zero part makes the printed text re-parse to a different (exact or signed-zero) object: own family
        double a = rand_double(r), b = rand_double(r);
        return complex_double(std::complex<double>(a == 0 ? 1.5 : a, b == 0 ? -2.5 : b));
    }
    return integer(r.range(-100, 100));
}

typedef RCP<const Basic> (*fn1)(const RCP<const Basic> &);
typedef RCP<const Basic> (*fn2)(const RCP<const Basic> &, const RCP<const Basic> &);

// every class with an entry in init_str_printer_names() that the parser knows under the printed name
// ---- work bounds: the generator must never start a big-number computation -------------------------------------
// bits of an exact number (numerator + denominator; real + imaginary part), 64 for floats
static unsigned long num_bits(const Basic &n)
{
    if (is_a<Integer>(n))
        return mpz_sizeinbase(get_mpz_t(down_cast<const Integer &>(n).as_integer_class()), 2);
    if (is_a<Rational>(n)) {
        const rational_class &q = down_cast<const Rational &>(n).as_rational_class();
        return mpz_sizeinbase(get_mpz_t(get_num(q)), 2) + mpz_sizeinbase(get_mpz_t(get_den(q)), 2);
    }
    if (is_a<Complex>(n)) {
        const Complex &c = down_cast<const Complex &>(n);
        return num_bits(*c.real_part()) + num_bits(*c.imaginary_part());
    }
    return 64;
}
// Number ** Number costs about bits(base) * |exponent| bits of result: refuse above ~10^6 (also any non-word exponent)
static RCP<const Basic> safe_pow(const RCP<const Basic> &b, const RCP<const Basic> &e)
{
    if (is_a_Number(*b) && is_a_Number(*e)) {
        unsigned long eb = num_bits(*e);
        if (is_a<Integer>(*e) || is_a<Rational>(*e) || is_a<Complex>(*e)) {
            if (eb > 40)
                throw std::runtime_error("gen: exponent too large for a numeric base");
            double mag = std::ldexp(1.0, (int)std::min<unsigned long>(eb, 40));
            if ((double)num_bits(*b) * mag > 1e6)
                throw std::runtime_error("gen: power too large");
        }
    }
    return pow(b, e);
}
// a function of a *number* is evaluated by its constructor (gamma(10**20) = factorial, primepi, primorial, zeta,
// polygamma, beta ... of a big integer never finish): numeric arguments stay small, anything else becomes symbolic
static RCP<const Basic> tame_arg(const RCP<const Basic> &a, int k)
{
    if (!is_a_Number(*a))
        return a;
    if (is_a<Integer>(*a) && num_bits(*a) <= 5)
        return a;
    if (is_a<Rational>(*a) && num_bits(*a) <= 10)
        return a;
    return add(a, X(k)); // f(number + symbol) is not evaluated
}

static RCP<const Basic> rand_known_function(Rng &r, const RCP<const Basic> &a0, const RCP<const Basic> &b0)
{
    RCP<const Basic> a = tame_arg(a0, 0), b = tame_arg(b0, 1);
    static const fn1 one[] = {sin,   cos,   tan,   cot,   csc,   sec,   asin,     acos,     asec,  acsc,
                              atan,  acot,  sinh,  csch,  cosh,  sech,  tanh,     coth,     asinh, acsch,
                              acosh, atanh, acoth, asech, (fn1)log, lambertw, dirichlet_eta, floor, ceiling, erf,
                              erfc,  loggamma, gamma, abs, sign, primepi, primorial, (fn1)zeta};
    static const fn2 two[] = {atan2, (fn2)zeta, lowergamma, uppergamma, beta, polygamma};
    unsigned k = r.below(100);
    if (k < 70)
        return one[r.below(sizeof one / sizeof one[0])](a);
    if (k < 90)
        return two[r.below(sizeof two / sizeof two[0])](a, b);
    vec_basic v{a, b, X((int)r.below(4))};
    return r.coin() ? max(v) : min(v);
}

static vgen::Opts opts_for(Rng &r, bool floats)
{
    vgen::Opts o;
    o.rationals = true;
    o.gaussian = r.coin();
    o.floats = floats;
    o.bigints = r.coin(1, 4);
    o.radicals = r.coin();
    o.symexp = !o.radicals && !floats && r.coin(); // no symbolic exponents that could sum to rationals (known crash)
    o.negpow = true;
    o.infs = false;
    o.binders = false;
    return o;
}

static RCP<const Basic> rand_arith(Rng &r, int depth, bool floats)
{
    vgen::Opts o = opts_for(r, floats);
    return vgen::rand_expr(r, o, depth);
}

static RCP<const Boolean> rand_rel(Rng &r, int depth)
{
    RCP<const Basic> a = rand_arith(r, depth, false), b = rand_arith(r, depth, false);
    for (int tries = 0; tries < 8; tries++) {
        RCP<const Boolean> rel;
        try {
            switch (r.below(6)) {
                case 0:
                    rel = Eq(a, b);
                    break;
                case 1:
                    rel = Ne(a, b);
                    break;
                case 2:
                    rel = Le(a, b);
                    break;
                case 3:
                    rel = Lt(a, b);
                    break;
                case 4:
                    rel = Ge(a, b);
                    break;
                default:
                    rel = Gt(a, b);
            }
        } catch (const std::exception &) {
            rel = null;
        }
        if (!rel.is_null() && is_a_Relational(*rel))
            return rel;
        a = add(a, X((int)r.below(4)));
        b = mul(b, X((int)r.below(4)));
    }
    return Lt(X(0), X(1));
}

static RCP<const Boolean> rand_bool(Rng &r, int depth)
{
    if (depth <= 0 || r.coin(1, 3))
        return rand_rel(r, 1 + (int)r.below(2));
    unsigned k = r.below(4);
    if (k == 3)
        return logical_not(rand_bool(r, depth - 1));
    int n = 2 + (int)r.below(2);
    if (k == 2) {
        vec_boolean v;
        for (int i = 0; i < n; i++)
            v.push_back(rand_bool(r, depth - 1));
        return logical_xor(v);
    }
    set_boolean s;
    for (int i = 0; i < n; i++)
        s.insert(rand_bool(r, depth - 1));
    return k == 0 ? logical_and(s) : logical_or(s);
}

void hx_gen(Rng &r, const std::string &tier)
{
    bool th = tier == "thorough";
    int N = th ? 12 : 1;
    emit("names", "names");
    RCP<const Basic> x = X(0), y = X(1), z = X(2);

    // --- numbers on their own and in every operand position
    for (int i = 0; i < 120 * N; i++) {
        RCP<const Number> n = rand_number(r, true, true);
        if (!finite_doubles_only(*n))
            continue;
        put("str", n, "number");
        try {
            switch (r.below(8)) {
                case 0:
                    put("str", mul(n, x), "number-coef");
                    break;
                case 1:
                    put("str", add(n, x), "number-coef");
                    break;
                case 2:
                    put("str", safe_pow(n, x), "number-base");
                    break;
                case 3:
                    put("str", safe_pow(x, n), "number-exp");
                    break;
                case 4:
                    put("str", add(mul(n, x), y), "number-coef");
                    break;
                case 5:
                    put("str", add(y, mul(n, safe_pow(x, integer(2)))), "number-coef");
                    break;
                case 6:
                    put("str", div(mul(n, x), y), "number-coef");
                    break;
                default:
                    put("str", function_symbol("f", vec_basic{n, mul(n, y)}), "number-arg");
            }
        } catch (const std::exception &) {
        }
    }
    // --- integers around the machine-word boundaries of the parser (strtol / LONG_MAX, 64-bit wrap, 10**18..10**20),
    //     alone and as coefficient, exponent, base, rational numerator / denominator, function argument
    {
        std::vector<integer_class> bs;
        integer_class two63 = integer_class(1) << 63, two64 = integer_class(1) << 64, ten18(1), ten19, ten20;
        for (int i = 0; i < 18; i++)
            ten18 *= 10;
        ten19 = ten18 * 10;
        ten20 = ten19 * 10;
        for (const integer_class &b : {two63, two64, ten18, ten19, ten20, integer_class(two63 >> 32), integer_class(two63 >> 31)})
            for (int d = -2; d <= 2; d++)
                bs.push_back(b + d);
        for (int i = 0; i < 12 * N; i++) { // random 18-, 19-, 20-digit integers
            integer_class lo = i % 3 == 0 ? integer_class(ten18 / 10) : i % 3 == 1 ? ten18 : ten19;
            integer_class v = lo + (integer_class((unsigned long)(r.next() >> 1)) * 9) % (lo * 9);
            bs.push_back(v);
        }
        size_t k = 0;
        for (const integer_class &b : bs) {
            for (int sgn = 0; sgn < 2; sgn++) {
                RCP<const Integer> n = integer(sgn ? integer_class(-b) : b);
                put("str", n, "integer-boundary");
                try {
                    switch ((k++) % 6) {
                        case 0:
                            put("str", add(mul(n, x), y), "integer-boundary");
                            break;
                        case 1:
                            put("str", safe_pow(x, n), "integer-boundary");
                            break;
                        case 2:
                            put("str", Rational::from_two_ints(*n, *integer(7)), "integer-boundary");
                            put("str", mul(Rational::from_two_ints(*integer(3), *n), y), "integer-boundary");
                            break;
                        case 3:
                            put("str", function_symbol("f", vec_basic{n, add(n, x)}), "integer-boundary");
                            break;
                        case 4:
                            put("str", safe_pow(n, div(x, integer(3))), "integer-boundary");
                            break;
                        default:
                            put("str", add(n, mul(Complex::from_two_nums(*n, *integer(1)), z)), "integer-boundary");
                    }
                } catch (const std::exception &) {
                }
            }
        }
    }
    // doubles: every family of rand_double, positive and negative
    for (int i = 0; i < 150 * N; i++) {
        double d = rand_double(r);
        if (!std::isfinite(d) || (d == 0 && std::signbit(d)))
            continue;
        put("str", real_double(d), "double");
    }
    static const double fixed[] = {0.0, 1.0, 0.1, 1e15, 1e14, 999999999999999.0, 9999999999999998.0, 123456789012345.0,
                                   -123456789012345.0, 1e-4, 1e-5, 9.9999999999999995e-5, 0.00012345, 1e22, 1e23, 1e100,
                                   1e-100, 5e-324, 1.7976931348623157e308, 0.30000000000000004, 2.5, -2.5, 1.0 / 3,
                                   2.0 / 3, 100.0, 1e16, 123456789.125, 0.5, 12345678901234.5, 1234567890123456.0};
    for (double d : fixed)
        put("str", real_double(d), "double-boundary");

    // --- arithmetic trees
    for (int i = 0; i < 260 * N; i++) {
        bool fl = r.coin(1, 4);
        RCP<const Basic> e = rand_arith(r, 2 + (int)r.below(th ? 4 : 3), fl);
        if (!finite_doubles_only(*e) || has_type(*e, SYMENGINE_NOT_A_NUMBER) || has_type(*e, SYMENGINE_INFTY))
            continue;
        put("str", e, fl ? "arith-float" : "arith");
    }
    // --- powers: negative / rational / complex bases and exponents, nested powers, exp and sqrt forms
    for (int i = 0; i < 100 * N; i++) {
        try {
            RCP<const Basic> b = r.coin() ? rcp_static_cast<const Basic>(rand_number(r, r.coin(1, 4), false))
                                          : rand_arith(r, 1, false);
            RCP<const Basic> e2 = r.coin() ? rcp_static_cast<const Basic>(rand_number(r, r.coin(1, 4), false))
                                           : rand_arith(r, 1, false);
            if (is_a<Integer>(*e2) && (!mp_fits_slong_p(down_cast<const Integer &>(*e2).as_integer_class())
                                       || std::labs(down_cast<const Integer &>(*e2).as_int()) > 150))
                continue; // safe_pow(number, huge integer) does not terminate in reasonable time
            RCP<const Basic> p = safe_pow(b, e2);
            if (!finite_doubles_only(*p) || has_type(*p, SYMENGINE_NOT_A_NUMBER) || has_type(*p, SYMENGINE_INFTY))
                continue;
            put("str", p, "pow");
            put("str", safe_pow(p, X((int)r.below(3))), "pow-nested");
            put("str", safe_pow(X((int)r.below(3)), p), "pow-nested");
            put("str", div(X(3), p), "pow-den");
            put("str", mul(integer(-1), p), "pow-neg");
            put("str", sub(x, p), "pow-neg");
        } catch (const std::exception &) {
        }
    }
    // --- products with denominators
    for (int i = 0; i < 80 * N; i++) {
        try {
            vec_basic fs;
            int n = 1 + (int)r.below(4);
            for (int k = 0; k < n; k++) {
                RCP<const Basic> b = r.coin(2, 3) ? X((int)r.below(5)) : rand_arith(r, 1, false);
                RCP<const Basic> ex;
                switch (r.below(6)) {
                    case 0:
                        ex = integer(-1);
                        break;
                    case 1:
                        ex = integer(-(long)r.range(2, 4));
                        break;
                    case 2:
                        ex = Rational::from_two_ints(*integer(-(long)r.range(1, 3)), *integer(r.range(2, 3)));
                        break;
                    case 3:
                        ex = Rational::from_two_ints(*integer(r.range(1, 5)), *integer(r.range(2, 3)));
                        break;
                    case 4:
                        ex = neg(X((int)r.below(3)));
                        break;
                    default:
                        ex = integer(r.range(1, 3));
                }
                fs.push_back(safe_pow(b, ex));
            }
            if (r.coin())
                fs.push_back(rand_number(r, false, false));
            if (r.coin(1, 4))
                fs.push_back(exp(neg(x)));
            RCP<const Basic> m = mul(fs);
            if (has_type(*m, SYMENGINE_NOT_A_NUMBER) || has_type(*m, SYMENGINE_INFTY))
                continue;
            put("str", m, "mul-den");
            put("str", add(m, y), "mul-den");
        } catch (const std::exception &) {
        }
    }
    // --- every printed function the parser knows
    for (int i = 0; i < 90 * N; i++) {
        try {
            RCP<const Basic> a = rand_arith(r, (int)r.below(3), false), b = rand_arith(r, (int)r.below(2), false);
            RCP<const Basic> f = rand_known_function(r, a, b);
            if (has_type(*f, SYMENGINE_NOT_A_NUMBER) || has_type(*f, SYMENGINE_INFTY))
                continue;
            put("str", f, "function");
            put("str", add(mul(integer(r.range(-3, 3)), f), safe_pow(f, integer(-2))), "function");
        } catch (const std::exception &) {
        }
    }
    // --- relationals and booleans
    for (int i = 0; i < 60 * N; i++) {
        put("str", rand_rel(r, 1 + (int)r.below(3)), "relational");
        put("str", rand_bool(r, 1 + (int)r.below(2)), "boolean");
    }
    put("str", boolTrue, "boolean");
    put("str", boolFalse, "boolean");
    // --- symbol names accepted by the tokenizer
    static const char *names[] = {"x1", "_a", "a_b_c", "X", "alpha2", "\xce\xb1", "\xce\xb1\xce\xb2_1", "x\xc3\xa9", "__",
                                  "Pi", "Sin", "sqrt2", "e1", "II", "ooo", "piecewise", "E1", "infty"};
    for (const char *nm : names) {
        RCP<const Basic> s = symbol(nm);
        put("str", s, "symbol-name");
        put("str", add(mul(integer(-2), safe_pow(s, integer(2))), function_symbol(std::string("F") + nm, s)), "symbol-name");
    }
    // --- constants and infinities (positive and unsigned)
    for (auto c : {rcp_static_cast<const Basic>(pi), rcp_static_cast<const Basic>(E),
                   rcp_static_cast<const Basic>(EulerGamma), rcp_static_cast<const Basic>(Catalan),
                   rcp_static_cast<const Basic>(GoldenRatio), rcp_static_cast<const Basic>(Inf),
                   rcp_static_cast<const Basic>(ComplexInf), rcp_static_cast<const Basic>(Nan),
                   rcp_static_cast<const Basic>(NegInf)}) {
        put("str", c, "constant");
        try {
            put("str", add(c, x), "constant");
            put("str", safe_pow(x, c), "constant");
            put("str", safe_pow(c, x), "constant");
            put("str", mul(c, sin(x)), "constant");
        } catch (const std::exception &) {
        }
    }
    // --- signed zeros: eq(0.0, -0.0) holds, the texts differ (consequence of defect D1)
    {
        RCP<const Basic> pz = real_double(0.0), nz = real_double(-0.0);
        emit("pair " + vsexp::dump(*pz) + " " + vsexp::dump(*nz), "signed-zero");
        emit("pair " + vsexp::dump(*add(function_symbol("f", pz), y)) + " " + vsexp::dump(*add(function_symbol("f", nz), y)),
             "signed-zero");
        emit("pair " + vsexp::dump(*add(x, y)) + " " + vsexp::dump(*add(y, x)), "pair");
        emit("pair " + vsexp::dump(*mul(x, add(y, z))) + " " + vsexp::dump(*mul(add(z, y), x)), "pair");
        emit("pair " + vsexp::dump(*add(x, y)) + " " + vsexp::dump(*add(x, z)), "pair");
        put("pr", nz, "signed-zero");
        put("pr", safe_pow(x, nz), "signed-zero");
        put("pr", complex_double(std::complex<double>(0.0, -0.1)), "signed-zero");
        put("pr", complex_double(std::complex<double>(-0.0, 2.0)), "signed-zero");
        put("pr", complex_double(std::complex<double>(1.0, -0.0)), "signed-zero");
    }
    // --- printed, but not re-parsed to the same class (no parser name): print correspondence only
    put("pr", truncate(x), "no-parser-name");
    put("pr", conjugate(add(x, y)), "no-parser-name");
    put("pr", mul(integer(2), truncate(div(x, integer(3)))), "no-parser-name");
    // --- names the parser reads as something else (Symbol "e" is the constant E, FunctionSymbol "sin" is Sin)
    put("pr", symbol("e"), "reserved-name");
    put("pr", symbol("I"), "reserved-name");
    put("pr", add(symbol("pi"), symbol("oo")), "reserved-name");
    put("pr", function_symbol("sin", x), "reserved-name");
    // --- KroneckerDelta / LeviCivita: parser-known classes
    put("str", kronecker_delta(x, y), "function-kd-lc");
    put("str", add(kronecker_delta(x, add(y, one)), one), "function-kd-lc");
    put("str", levi_civita(vec_basic{x, y, z}), "function-kd-lc");
    // --- outside the modelled printing fragment: oracle only (rebuilt from the seed inside the op line)
    for (int i = 0; i < 12 * N; i++)
        emit("rtpw " + std::to_string(r.next() % 1000000007ULL), "piecewise");
}

static RCP<const Basic> piecewise_from_seed(uint64_t seed)
{
    Rng r(seed);
    RCP<const Basic> x = X(0), y = X(1), z = X(2);
    if (seed % 7 == 0) {
        PiecewiseVec pv;
        pv.push_back({x, Lt(x, y)});
        pv.push_back({safe_pow(y, integer(2)), Le(y, z)});
        pv.push_back({z, boolTrue});
        return piecewise(std::move(pv));
    }
    for (int tries = 0; tries < 20; tries++) {
        PiecewiseVec v;
        int n = 1 + (int)r.below(3);
        for (int k = 0; k < n; k++)
            v.push_back({rand_arith(r, 2, false), rand_rel(r, 1)});
        v.push_back({rand_arith(r, 1, false), boolTrue});
        try {
            RCP<const Basic> p = piecewise(std::move(v));
            if (is_a<Piecewise>(*p) && !has_type(*p, SYMENGINE_NOT_A_NUMBER) && !has_type(*p, SYMENGINE_INFTY))
                return r.coin(1, 3) ? add(mul(integer(2), p), x) : p;
        } catch (const std::exception &) {
        }
    }
    PiecewiseVec pv;
    pv.push_back({x, Lt(x, y)});
    pv.push_back({z, boolTrue});
    return piecewise(std::move(pv));
}
