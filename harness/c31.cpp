// C31: series(f, x, n) returns the Taylor coefficients of f at 0 up to order n.
//
// Op line:  series <sexp of f> <prec>          (series variable is always x)
// Output :  the complete dictionary of the returned polynomial: "deg:coef" joined by ',' in ascending
//           degree, coef an exact rational "n" or "n/d"; "0" for the empty dictionary;
//           "SKIP" if some coefficient is not an Integer/Rational (then only the oracles judge the case).
//
// Oracles (both independent of the Lean model):
//  A  Taylor coefficients by repeated exact differentiation with the library's own diff + subs(x=0),
//     divided by k!  (another code path of the library); compared exactly, and numerically (eval_double)
//     when symbolic constants are involved.  Orders limited by expression growth.
//  B  an exact rational power-series evaluator written here (plain GMP mpq, textbook O(n^2) recurrences:
//     J.C.P. Miller for powers, the defining ODEs for exp/log/sin/cos/…), walking the expression tree.
//     Works with `prec + SLACK` terms and tracks how many leading terms are still exact after a division
//     by a series with zero constant term (removable singularities such as sin(x)/x).
//
// Oracle keys:  coeff (a coefficient of degree < prec differs from B), taylor (differs from A),
//               precloss (differs from B only in the top `v` degrees, v = total order of the poles that
//               cancel in the expression: the library silently loses precision there),
//               negdeg (negative exponents returned for a function that is analytic at 0).
#include "common.h"
#include "sexp.h"
#include <gmp.h>
#include <symengine/series.h>
#include <symengine/series_generic.h>
#include <symengine/eval_double.h>
#include <symengine/visitor.h>
#include <symengine/subs.h>
#include <cmath>
#include <functional>

using namespace SymEngine;

// ------------------------------------------------------------------ exact rationals on the GMP C API
struct Q {
    mpq_t v;
    Q()
    {
        mpq_init(v);
    }
    Q(long n)
    {
        mpq_init(v);
        mpq_set_si(v, n, 1);
    }
    Q(long n, unsigned long d)
    {
        mpq_init(v);
        mpq_set_si(v, n, d);
        mpq_canonicalize(v);
    }
    Q(const Q &o)
    {
        mpq_init(v);
        mpq_set(v, o.v);
    }
    Q &operator=(const Q &o)
    {
        mpq_set(v, o.v);
        return *this;
    }
    ~Q()
    {
        mpq_clear(v);
    }
    Q operator+(const Q &o) const
    {
        Q r;
        mpq_add(r.v, v, o.v);
        return r;
    }
    Q operator-(const Q &o) const
    {
        Q r;
        mpq_sub(r.v, v, o.v);
        return r;
    }
    Q operator-() const
    {
        Q r;
        mpq_neg(r.v, v);
        return r;
    }
    Q operator*(const Q &o) const
    {
        Q r;
        mpq_mul(r.v, v, o.v);
        return r;
    }
    Q operator/(const Q &o) const
    {
        if (mpq_sgn(o.v) == 0)
            throw std::runtime_error("oracle: division by zero");
        Q r;
        mpq_div(r.v, v, o.v);
        return r;
    }
    bool operator==(const Q &o) const
    {
        return mpq_equal(v, o.v) != 0;
    }
    bool operator!=(const Q &o) const
    {
        return !(*this == o);
    }
    bool is0() const
    {
        return mpq_sgn(v) == 0;
    }
    int sgn() const
    {
        return mpq_sgn(v);
    }
    std::string str() const
    {
        char *c = mpq_get_str(nullptr, 10, v);
        std::string s(c);
        free(c);
        return s;
    }
};

static Q q_of(const Basic &b)
{
    Q r;
    if (is_a<Integer>(b)) {
        mpq_set_z(r.v, get_mpz_t(down_cast<const Integer &>(b).as_integer_class()));
    } else {
        mpq_set(r.v, get_mpq_t(down_cast<const Rational &>(b).as_rational_class()));
    }
    return r;
}
static bool is_rat(const Basic &b)
{
    return is_a<Integer>(b) || is_a<Rational>(b);
}

// exact q-th root of a positive rational, if it exists
static bool q_root(const Q &c, unsigned long q, Q &out)
{
    if (c.sgn() <= 0)
        return false;
    mpz_t n, d;
    mpz_init(n);
    mpz_init(d);
    bool ok = mpz_root(n, mpq_numref(c.v), q) != 0;
    ok = (mpz_root(d, mpq_denref(c.v), q) != 0) && ok;
    if (ok) {
        mpq_set_num(out.v, n);
        mpq_set_den(out.v, d);
        mpq_canonicalize(out.v);
    }
    mpz_clear(n);
    mpz_clear(d);
    return ok;
}

// ------------------------------------------------------------------ oracle B: exact power series
struct NA { // the oracle does not apply (pole, branch point, symbolic constant, unknown node)
    std::string why;
};

static int W = 0; // working number of terms

struct PS {
    std::vector<Q> c; // W coefficients
    int acc;          // the first `acc` coefficients are exact
    PS() : c(W), acc(W) {}
    int val() const
    {
        for (int i = 0; i < W; i++)
            if (!c[i].is0())
                return i;
        return W;
    }
};
static int g_shift_total = 0; // total order of cancelled poles in the current expression
static bool g_root_shift = false; // a root of x^v * unit was taken

static PS ps_const(const Q &q)
{
    PS r;
    if (W > 0)
        r.c[0] = q;
    return r;
}
static PS ps_x()
{
    PS r;
    if (W > 1)
        r.c[1] = Q(1);
    return r;
}
static PS ps_add(const PS &a, const PS &b)
{
    PS r;
    for (int i = 0; i < W; i++)
        r.c[i] = a.c[i] + b.c[i];
    r.acc = std::min(a.acc, b.acc);
    return r;
}
static PS ps_scale(const PS &a, const Q &q)
{
    PS r;
    for (int i = 0; i < W; i++)
        r.c[i] = a.c[i] * q;
    r.acc = a.acc;
    return r;
}
static PS ps_mul(const PS &a, const PS &b)
{
    PS r;
    for (int i = 0; i < W; i++) {
        if (a.c[i].is0())
            continue;
        for (int j = 0; i + j < W; j++)
            if (!b.c[j].is0())
                r.c[i + j] = r.c[i + j] + a.c[i] * b.c[j];
    }
    r.acc = std::min(a.acc, b.acc);
    return r;
}
static PS ps_deriv(const PS &a)
{ // coefficient k of a' ; the last slot is unknown, callers only use it through integrate
    PS r;
    for (int i = 0; i + 1 < W; i++)
        r.c[i] = a.c[i + 1] * Q(i + 1);
    r.acc = a.acc;
    return r;
}
static PS ps_integ(const PS &a)
{
    PS r;
    for (int i = 1; i < W; i++)
        r.c[i] = a.c[i - 1] / Q(i);
    r.acc = a.acc;
    return r;
}
static PS ps_inv(const PS &b)
{
    if (b.c[0].is0())
        throw NA{"pole"};
    PS g;
    g.c[0] = Q(1) / b.c[0];
    for (int k = 1; k < W; k++) {
        Q s;
        for (int j = 1; j <= k; j++)
            s = s + b.c[j] * g.c[k - j];
        g.c[k] = -(s / b.c[0]);
    }
    g.acc = b.acc;
    return g;
}
static PS ps_shift_down(const PS &a, int v)
{
    PS r;
    for (int i = 0; i + v < W; i++)
        r.c[i] = a.c[i + v];
    r.acc = a.acc - v;
    return r;
}
// a / b where b may vanish at 0 to order v <= val(a): removable singularity
static PS ps_div(const PS &a, const PS &b)
{
    int v = b.val();
    if (v >= std::min(b.acc, W))
        throw NA{"division by a series that is zero to working precision"};
    if (v == 0)
        return ps_mul(a, ps_inv(b));
    if (a.val() < v)
        throw NA{"pole"};
    g_shift_total += v;
    PS r = ps_mul(ps_shift_down(a, v), ps_inv(ps_shift_down(b, v)));
    return r;
}
static PS ps_powi(const PS &a, unsigned long n)
{
    PS r = ps_const(Q(1)), x = a;
    while (n) {
        if (n & 1)
            r = ps_mul(r, x);
        n >>= 1;
        if (n)
            x = ps_mul(x, x);
    }
    return r;
}
// h = u^(p/q) by Miller's recurrence  k*u0*h_k = sum_{j=1..k} (r*j - (k-j)) u_j h_{k-j}
static PS ps_powq(const PS &u, long p, unsigned long q)
{
    Q root;
    if (!q_root(u.c[0], q, root))
        throw NA{"root of the constant term is not rational"};
    Q h0(1);
    for (long i = 0; i < std::labs(p); i++)
        h0 = h0 * root;
    if (p < 0)
        h0 = Q(1) / h0;
    Q r(p, q);
    PS h;
    h.c[0] = h0;
    for (int k = 1; k < W; k++) {
        Q s;
        for (int j = 1; j <= k; j++)
            s = s + (r * Q(j) - Q(k - j)) * u.c[j] * h.c[k - j];
        h.c[k] = s / (Q(k) * u.c[0]);
    }
    h.acc = u.acc;
    return h;
}
static void need0(const PS &f, const char *fn)
{
    if (!f.c[0].is0())
        throw NA{std::string(fn) + " of a non-zero constant"};
}
// g' = f' g, g0 = 1
static PS ps_exp(const PS &f)
{
    need0(f, "exp");
    PS g;
    g.c[0] = Q(1);
    for (int k = 1; k < W; k++) {
        Q s;
        for (int j = 1; j <= k; j++)
            s = s + Q(j) * f.c[j] * g.c[k - j];
        g.c[k] = s / Q(k);
    }
    g.acc = f.acc;
    return g;
}
static PS ps_log(const PS &f)
{
    if (f.c[0] != Q(1))
        throw NA{"log of a constant other than 1"};
    return ps_integ(ps_mul(ps_deriv(f), ps_inv(f)));
}
// (S, C): S' = f' C, C' = sg f' S  (sg = -1 trigonometric, +1 hyperbolic)
static void ps_sincos(const PS &f, int sg, PS &S, PS &C)
{
    need0(f, "sin/cos/sinh/cosh");
    S = PS();
    C = PS();
    C.c[0] = Q(1);
    for (int k = 1; k < W; k++) {
        Q s, c;
        for (int j = 1; j <= k; j++) {
            s = s + Q(j) * f.c[j] * C.c[k - j];
            c = c + Q(j) * f.c[j] * S.c[k - j];
        }
        S.c[k] = s / Q(k);
        C.c[k] = (sg < 0 ? -c : c) / Q(k);
    }
    S.acc = C.acc = f.acc;
}
static PS ps_one_plus(const PS &a, int sign_of_a)
{
    PS r = sign_of_a < 0 ? ps_scale(a, Q(-1)) : a;
    r.c[0] = r.c[0] + Q(1);
    return r;
}
// Lambert W: w' = f' / (e^w (1 + w)), fixed-point iteration gaining one order per round
static PS ps_lambertw(const PS &f)
{
    need0(f, "lambertw");
    PS w;
    PS df = ps_deriv(f);
    for (int it = 0; it < W; it++) {
        PS den = ps_mul(ps_exp(w), ps_one_plus(w, 1));
        w = ps_integ(ps_mul(df, ps_inv(den)));
    }
    w.acc = f.acc;
    return w;
}

static RCP<const Symbol> X()
{
    static RCP<const Symbol> x = symbol("x");
    return x;
}

static PS evalB(const RCP<const Basic> &e);

static PS evalB_pow(const RCP<const Basic> &base, const RCP<const Basic> &ex)
{
    if (is_a<Integer>(*ex)) {
        long n = down_cast<const Integer &>(*ex).as_int();
        PS b = evalB(base);
        if (n >= 0)
            return ps_powi(b, n);
        return ps_div(ps_const(Q(1)), ps_powi(b, -n));
    }
    if (is_a<Rational>(*ex)) {
        const Rational &r = down_cast<const Rational &>(*ex);
        long p = mp_get_si(get_num(r.as_rational_class()));
        unsigned long q = mp_get_ui(get_den(r.as_rational_class()));
        PS b = evalB(base);
        if (b.c[0].is0()) {
            // x^v * u with u(0) > 0: (x^v)^(p/q) = |x|^(v p/q) is real-analytic iff v is even and v*p/q is an
            // even non-negative integer (then it equals x^(v p/q))
            int v = b.val();
            if (v >= std::min(b.acc, W) || v % 2 != 0 || (v * p) % (long)q != 0)
                throw NA{"branch point"};
            long k = v * p / (long)q;
            if (k < 0 || k % 2 != 0)
                throw NA{"branch point"};
            PS u = ps_shift_down(b, v);
            PS h = ps_powq(u, p, q);
            PS r;
            for (int i = 0; i + k < W; i++)
                r.c[i + k] = h.c[i];
            r.acc = std::min((long)W, h.acc + k);
            g_root_shift = true;
            g_shift_total += (int)(v - k); // the library knows base/x^v only to prec - v terms
            return r;
        }
        return ps_powq(b, p, q);
    }
    if (eq(*base, *E))
        return ps_exp(evalB(ex));
    return ps_exp(ps_mul(evalB(ex), ps_log(evalB(base))));
}

static PS evalB(const RCP<const Basic> &e)
{
    const Basic &b = *e;
    if (is_rat(b))
        return ps_const(q_of(b));
    if (is_a<Symbol>(b)) {
        if (eq(b, *X()))
            return ps_x();
        throw NA{"free symbol"};
    }
    if (is_a<Add>(b)) {
        const Add &a = down_cast<const Add &>(b);
        PS r = ps_const(q_of(*a.get_coef()));
        for (auto &t : a.get_dict()) {
            if (!is_rat(*t.second))
                throw NA{"non-rational coefficient"};
            r = ps_add(r, ps_scale(evalB(t.first), q_of(*t.second)));
        }
        return r;
    }
    if (is_a<Mul>(b)) {
        const Mul &m = down_cast<const Mul &>(b);
        if (!is_rat(*m.get_coef()))
            throw NA{"non-rational coefficient"};
        PS num = ps_const(q_of(*m.get_coef())), den = ps_const(Q(1));
        bool has_den = false;
        for (auto &t : m.get_dict()) {
            if (is_a<Integer>(*t.second) && down_cast<const Integer &>(*t.second).is_negative()) {
                long n = -down_cast<const Integer &>(*t.second).as_int();
                den = ps_mul(den, ps_powi(evalB(t.first), n));
                has_den = true;
            } else
                num = ps_mul(num, evalB_pow(t.first, t.second));
        }
        return has_den ? ps_div(num, den) : num;
    }
    if (is_a<Pow>(b)) {
        const Pow &p = down_cast<const Pow &>(b);
        return evalB_pow(p.get_base(), p.get_exp());
    }
    if (is_a_sub<OneArgFunction>(b)) {
        RCP<const Basic> arg = down_cast<const OneArgFunction &>(b).get_arg();
        PS S, C;
        switch (b.get_type_code()) {
            case SYMENGINE_SIN:
                ps_sincos(evalB(arg), -1, S, C);
                return S;
            case SYMENGINE_COS:
                ps_sincos(evalB(arg), -1, S, C);
                return C;
            case SYMENGINE_TAN:
                ps_sincos(evalB(arg), -1, S, C);
                return ps_mul(S, ps_inv(C));
            case SYMENGINE_SEC:
                ps_sincos(evalB(arg), -1, S, C);
                return ps_inv(C);
            case SYMENGINE_SINH:
                ps_sincos(evalB(arg), 1, S, C);
                return S;
            case SYMENGINE_COSH:
                ps_sincos(evalB(arg), 1, S, C);
                return C;
            case SYMENGINE_TANH:
                ps_sincos(evalB(arg), 1, S, C);
                return ps_mul(S, ps_inv(C));
            case SYMENGINE_LOG:
                return ps_log(evalB(arg));
            case SYMENGINE_ATAN: {
                PS f = evalB(arg);
                need0(f, "atan");
                return ps_integ(ps_mul(ps_deriv(f), ps_inv(ps_one_plus(ps_mul(f, f), 1))));
            }
            case SYMENGINE_ATANH: {
                PS f = evalB(arg);
                need0(f, "atanh");
                return ps_integ(ps_mul(ps_deriv(f), ps_inv(ps_one_plus(ps_mul(f, f), -1))));
            }
            case SYMENGINE_ASIN: {
                PS f = evalB(arg);
                need0(f, "asin");
                return ps_integ(ps_mul(ps_deriv(f), ps_powq(ps_one_plus(ps_mul(f, f), -1), -1, 2)));
            }
            case SYMENGINE_ASINH: {
                PS f = evalB(arg);
                need0(f, "asinh");
                return ps_integ(ps_mul(ps_deriv(f), ps_powq(ps_one_plus(ps_mul(f, f), 1), -1, 2)));
            }
            case SYMENGINE_LAMBERTW:
                return ps_lambertw(evalB(arg));
            default:
                break;
        }
    }
    throw NA{"node " + type_code_name(b.get_type_code())};
}

// ------------------------------------------------------------------ oracle A: diff + subs
static size_t node_count(const Basic &b, size_t limit)
{
    size_t n = 1;
    for (auto &a : b.get_args()) {
        if (n > limit)
            break;
        n += node_count(*a, limit - n);
    }
    return n;
}

static bool num_close(double a, double b)
{
    if (std::isnan(a) || std::isnan(b) || std::isinf(a) || std::isinf(b))
        return false;
    return std::fabs(a - b) <= 1e-8 * (1.0 + std::fabs(a) + std::fabs(b));
}

// ------------------------------------------------------------------ run
static std::string coef_str(const RCP<const Basic> &c)
{
    if (is_a<Integer>(*c))
        return vsexp::int_str(down_cast<const Integer &>(*c).as_integer_class());
    return vsexp::rat_str(down_cast<const Rational &>(*c).as_rational_class());
}

// the fragment of theorem SymVerif.C31.series_sound_partial (mirror of Series.covered in the Lean model)
static bool cov(const Basic &b);
static bool cov_pow(const Basic &base, const Basic &ex)
{
    if (is_a<Integer>(ex))
        return !down_cast<const Integer &>(ex).is_zero() && cov(base);
    if (is_a<Rational>(ex))
        return false;
    return cov(ex) && (eq(base, *E) || cov(base));
}
static bool cov(const Basic &b)
{
    if (is_rat(b))
        return true;
    if (is_a<Symbol>(b))
        return down_cast<const Symbol &>(b).get_name() == "x";
    if (is_a<Add>(b)) {
        const Add &a = down_cast<const Add &>(b);
        if (!cov(*a.get_coef()))
            return false;
        for (auto &t : a.get_dict())
            if (!cov(*t.first) || !cov(*t.second))
                return false;
        return true;
    }
    if (is_a<Mul>(b)) {
        const Mul &m = down_cast<const Mul &>(b);
        if (!cov(*m.get_coef()))
            return false;
        for (auto &t : m.get_dict())
            if (!cov_pow(*t.first, *t.second))
                return false;
        return true;
    }
    if (is_a<Pow>(b)) {
        const Pow &p = down_cast<const Pow &>(b);
        return cov_pow(*p.get_base(), *p.get_exp());
    }
    switch (b.get_type_code()) {
        case SYMENGINE_SIN:
        case SYMENGINE_COS:
        case SYMENGINE_SEC:
        case SYMENGINE_LOG:
        case SYMENGINE_ATAN:
        case SYMENGINE_SINH:
        case SYMENGINE_COSH:
        case SYMENGINE_ATANH:
            return b.get_args().size() == 1 && cov(*b.get_args()[0]);
        default:
            return false;
    }
}

std::string hx_run(const std::string &line, std::string &oracle)
{
    auto nodes = vsexp::parse_all(line);
    if (nodes.size() == 2 && nodes[0].atom == "cov") {
        RCP<const Basic> e0 = vsexp::build(nodes[1]);
        bool c = cov(*e0);
        stat(c ? "cov_in_proved_fragment" : "cov_outside_proved_fragment");
        return c ? "1" : "0";
    }
    if (nodes.size() != 3 || nodes[0].atom != "series")
        return "bad-op";
    RCP<const Basic> e = vsexp::build(nodes[1]);
    int prec = std::stoi(nodes[2].atom);
    if (prec < 1)
        return "bad-op";
    RCP<const Symbol> x = X();

    RCP<const SeriesCoeffInterface> ser = SymEngine::series(e, x, (unsigned)prec);
    umap_int_basic d = ser->as_dict();
    std::map<int, RCP<const Basic>> dict(d.begin(), d.end());
    bool rational = true, negdeg = false, excess = false;
    for (auto &kv : dict) {
        if (!is_rat(*kv.second))
            rational = false;
        if (kv.first < 0)
            negdeg = true;
        if (kv.first >= prec)
            excess = true;
    }
    std::string out;
    if (!rational)
        out = "SKIP";
    else {
        std::vector<std::string> items;
        for (auto &kv : dict)
            items.push_back(std::to_string(kv.first) + ":" + coef_str(kv.second));
        out = items.empty() ? "0" : join(items, ",");
    }
    stat(rational ? "impl_rational" : "impl_symbolic");
    if (cov(*e))
        stat("series_in_proved_fragment");
    if (excess)
        stat("impl_terms_beyond_prec");
    auto coeff = [&](int k) -> RCP<const Basic> {
        auto it = dict.find(k);
        return it == dict.end() ? RCP<const Basic>(zero) : it->second;
    };

    // ---- oracle B
    bool b_applied = false;
    if (rational) {
        const int SLACK = 10;
        W = prec + SLACK;
        g_shift_total = 0;
        g_root_shift = false;
        try {
            PS t = evalB(e);
            if (t.acc >= prec) {
                b_applied = true;
                stat("oracleB_applied");
                stat("oracleB_coefficients", prec);
                if (negdeg) {
                    oracle = "FAIL:negdeg:negative exponent " + std::to_string(dict.begin()->first)
                             + " returned for a function analytic at 0; expected leading terms "
                             + t.c[0].str() + " + " + (W > 1 ? t.c[1].str() : "0") + "*x";
                } else {
                    for (int k = 0; k < prec; k++) {
                        Q got = q_of(*coeff(k));
                        if (got != t.c[k]) {
                            bool loss = g_shift_total > 0 && k >= prec - g_shift_total;
                            oracle = std::string("FAIL:") + (loss ? "precloss" : "coeff") + ":degree "
                                     + std::to_string(k) + " got " + got.str() + " expected " + t.c[k].str()
                                     + (loss ? " (a pole of total order " + std::to_string(g_shift_total)
                                                   + " cancels in this expression; the top degrees below the "
                                                     "requested order are lost or wrong)"
                                             : "");
                            break;
                        }
                    }
                }
                if (g_shift_total > 0)
                    stat("oracleB_removable_singularity");
            } else
                stat("oracleB_na_precision");
        } catch (const NA &na) {
            stat("oracleB_na");
        } catch (const std::runtime_error &) {
            stat("oracleB_na");
        }
    }

    // ---- oracle A
    if (oracle == "ok") {
        int maxk = std::min(prec - 1, 9);
        RCP<const Basic> dk = e;
        RCP<const Integer> fact = integer(1);
        map_basic_basic at0{{x, zero}};
        int checked = 0;
        for (int k = 0; k <= maxk; k++) {
            if (k > 0) {
                if (node_count(*dk, 4000) > 4000) {
                    stat("oracleA_stopped_growth");
                    break;
                }
                try {
                    dk = dk->diff(x);
                } catch (const std::exception &) {
                    // diff itself failed (e.g. a canonical-form assertion inside the derivative code:
                    // that is a defect of another property, not of the series module)
                    stat("oracleA_diff_exception");
                    break;
                }
                fact = rcp_static_cast<const Integer>(fact->mulint(*integer(k)));
            }
            RCP<const Basic> v;
            try {
                v = dk->subs(at0);
            } catch (const std::exception &) {
                stat("oracleA_inconclusive");
                break;
            }
            if (has_symbol(*v, *x) || is_a<NaN>(*v) || is_a<Infty>(*v)) {
                stat("oracleA_inconclusive");
                break;
            }
            RCP<const Basic> tk, ck = coeff(k), df;
            try {
                tk = div(v, fact);
                df = expand(sub(tk, ck));
            } catch (const std::exception &) {
                stat("oracleA_inconclusive");
                break;
            }
            if (eq(*df, *zero)) {
                checked++;
                continue;
            }
            // not syntactically equal: decide numerically
            double a, c;
            try {
                a = eval_double(*tk);
                c = eval_double(*ck);
            } catch (const std::exception &) {
                stat("oracleA_inconclusive");
                break;
            }
            if (std::isnan(a) || std::isinf(a)) { // 0/0 forms at a removable singularity etc.
                stat("oracleA_inconclusive");
                break;
            }
            if (num_close(a, c)) {
                checked++;
                stat("oracleA_numeric_agreement");
                continue;
            }
            std::ostringstream ss;
            ss.precision(15);
            ss << "FAIL:taylor:degree " << k << " got " << ck->__str__() << " (" << c
               << ") expected f^(k)(0)/k! = " << tk->__str__() << " (" << a << ")";
            oracle = ss.str();
            break;
        }
        stat("oracleA_coefficients", checked);
        if (checked > 0)
            stat("oracleA_applied");
        if (checked == 0 && !b_applied)
            stat("no_oracle_applied");
    }
    return out;
}

// ------------------------------------------------------------------ generator
struct Gen {
    Rng &r;
    RCP<const Basic> x;
    explicit Gen(Rng &rr) : r(rr), x(X()) {}

    RCP<const Number> q(bool allow_neg = true)
    {
        static const int nums[] = {1, 2, 3, 1, 1, 2, 3, 4, 5, 1};
        static const int dens[] = {1, 1, 1, 2, 3, 3, 2, 3, 2, 4};
        int i = (int)r.below(10);
        int n = nums[i];
        if (allow_neg && r.coin(1, 3))
            n = -n;
        return Rational::from_two_ints(*integer(n), *integer(dens[i]));
    }
    // polynomial with zero constant term and non-zero linear or higher term
    RCP<const Basic> zeroP()
    {
        switch (r.below(7)) {
            case 0:
            case 1:
                return x;
            case 2:
                return mul(q(), x);
            case 3:
                return add(mul(q(), x), mul(q(), pow(x, integer(2))));
            case 4:
                return pow(x, integer(2 + (int)r.below(2)));
            case 5:
                return add(x, mul(q(), pow(x, integer(3))));
            default:
                return neg(x);
        }
    }
    RCP<const Basic> fzero(int k, const RCP<const Basic> &a)
    {
        switch (k) {
            case 0:
                return sin(a);
            case 1:
                return tan(a);
            case 2:
                return atan(a);
            case 3:
                return asin(a);
            case 4:
                return sinh(a);
            case 5:
                return tanh(a);
            case 6:
                return asinh(a);
            case 7:
                return atanh(a);
            default:
                return lambertw(a);
        }
    }
    // value 0 at x = 0
    RCP<const Basic> zero_(int d)
    {
        if (d <= 0)
            return zeroP();
        switch (r.below(12)) {
            case 0:
            case 1:
            case 2:
            case 3:
                return fzero((int)r.below(9), zero_(d - 1));
            case 4:
                return mul(zero_(d - 1), unit(d - 1));
            case 5:
                return add(zero_(d - 1), zero_((int)r.below(d)));
            case 6:
                return sub(exp(zero_(d - 1)), integer(1));
            case 7:
                return log(one(d - 1));
            case 8:
                return sub(r.coin() ? cos(zero_(d - 1)) : cosh(zero_(d - 1)), integer(1));
            case 9:
                return pow(zero_(d - 1), integer(2 + (int)r.below(2)));
            case 10:
                return div(zero_(d - 1), unit(d - 1));
            default:
                return mul(q(), zero_(d - 1));
        }
    }
    // value exactly 1 at x = 0
    RCP<const Basic> one(int d)
    {
        if (d <= 0)
            return add(integer(1), zeroP());
        switch (r.below(11)) {
            case 0:
            case 1:
                return add(integer(1), zero_(d));
            case 2:
                return exp(zero_(d - 1));
            case 3:
                return cos(zero_(d - 1));
            case 4:
                return cosh(zero_(d - 1));
            case 5:
                return sec(zero_(d - 1));
            case 6:
                return mul(one(d - 1), one((int)r.below(d)));
            case 7:
                return pow(one(d - 1), integer((int)r.range(-3, 4)));
            case 8:
                return div(integer(1), one(d - 1));
            case 9: {
                static const int ps[] = {1, -1, 3, 1, 2, -1, -3, 1, 5};
                static const int qs[] = {2, 2, 2, 3, 3, 3, 2, 4, 2};
                int i = (int)r.below(9);
                return pow(one(d - 1), Rational::from_two_ints(*integer(ps[i]), *integer(qs[i])));
            }
            default:
                return pow(one(d - 1), zero_((int)r.below(d))); // general power f^g = exp(g log f)
        }
    }
    // non-zero rational value at x = 0
    RCP<const Basic> unit(int d)
    {
        switch (r.below(6)) {
            case 0:
            case 1:
                return one(d);
            case 2:
                return mul(q(), one(d));
            case 3: {
                return add(q(), zero_(d));
            }
            case 4: { // root of a perfect power plus a series
                static const int base[] = {4, 9, 8, 27, 16, 1};
                static const int rt[] = {2, 2, 3, 3, 4, 2};
                int i = (int)r.below(6);
                int p = r.coin(1, 3) ? -1 : 1;
                RCP<const Basic> b = add(integer(base[i]), zero_(d > 0 ? d - 1 : 0));
                if (r.coin(1, 4)) { // rational perfect power: base / k^root
                    long k = 2 + (long)r.below(2), den = 1;
                    for (int j = 0; j < rt[i]; j++)
                        den *= k;
                    b = add(Rational::from_two_ints(*integer(base[i]), *integer(den)), zero_(d > 0 ? d - 1 : 0));
                }
                return pow(b, Rational::from_two_ints(*integer(p), *integer(rt[i])));
            }
            default:
                return pow(add(q(), zero_(d > 0 ? d - 1 : 0)), integer((int)r.range(-3, 3)));
        }
    }
    RCP<const Basic> any(int d)
    {
        return r.coin() ? zero_(d) : unit(d);
    }
    // symbolic constants: f(c + zero), judged numerically by oracle A
    RCP<const Basic> nonrat(int d)
    {
        RCP<const Basic> z = zero_(d);
        RCP<const Number> c = q();
        RCP<const Number> h = Rational::from_two_ints(*integer(r.coin() ? 1 : -1), *integer(2 + (int)r.below(3)));
        switch (r.below(16)) {
            case 0:
                return sin(add(c, z));
            case 1:
                return cos(add(c, z));
            case 2:
                return tan(add(h, z));
            case 3:
                return exp(add(c, z));
            case 4:
                return log(add(q(false), z));
            case 5:
                return atan(add(c, z));
            case 6:
                return asin(add(h, z));
            case 7:
                return acos(add(h, z));
            case 8:
                return acos(z);
            case 9:
                return sinh(add(c, z));
            case 10:
                return cosh(add(c, z));
            case 11:
                return tanh(add(c, z));
            case 12:
                return asinh(add(c, z));
            case 13:
                return atanh(add(h, z));
            case 14:
                return sqrt(add(integer(2 + (int)r.below(2)), z));
            default:
                return pow(integer(2 + (int)r.below(2)), z);
        }
    }
    // analytic quotients whose numerator and denominator both vanish at 0
    RCP<const Basic> removable()
    {
        RCP<const Basic> z = r.coin(2, 3) ? x : zeroP();
        auto v1 = [&](int k) -> RCP<const Basic> { // valuation-1 functions of z
            switch (k) {
                case 0:
                    return sin(z);
                case 1:
                    return sub(exp(z), integer(1));
                case 2:
                    return log(add(integer(1), z));
                case 3:
                    return tan(z);
                case 4:
                    return atan(z);
                case 5:
                    return sinh(z);
                case 6:
                    return asin(z);
                case 7:
                    return tanh(z);
                case 8:
                    return lambertw(z);
                default:
                    return z;
            }
        };
        switch (r.below(5)) {
            case 0:
                return div(v1((int)r.below(9)), z);
            case 1:
                return div(z, v1((int)r.below(9)));
            case 2:
                return div(v1((int)r.below(10)), v1((int)r.below(10)));
            case 3:
                return div(sub(integer(1), cos(z)), pow(z, integer(2)));
            default:
                return div(sub(z, sin(z)), pow(z, integer(3)));
        }
    }
};

static void emit_case(const RCP<const Basic> &e, int prec, const std::string &tag)
{
    std::string d = vsexp::dump(*e);
    emit("series " + d + " " + std::to_string(prec), tag);
    emit("cov " + d, "trivial-cov");
}

void hx_gen(Rng &r, const std::string &tier)
{
    bool th = tier == "thorough";
    Gen g(r);
    int maxprec = th ? 20 : 12;
    RCP<const Basic> x = g.x;
    // fixed boundary family: every supported function of x and of x + x^2, every small order
    {
        std::vector<RCP<const Basic>> args = {x, add(x, pow(x, integer(2))), mul(integer(2), x)};
        for (auto &a : args) {
            std::vector<RCP<const Basic>> fs
                = {sin(a),  cos(a),   tan(a),  sec(a),  exp(a),   log(add(integer(1), a)), atan(a), asin(a),
                   sinh(a), cosh(a),  tanh(a), asinh(a), atanh(a), lambertw(a), div(integer(1), add(integer(1), a)),
                   sqrt(add(integer(1), a)), pow(add(integer(4), a), Rational::from_two_ints(*integer(-1), *integer(2))),
                   pow(add(integer(1), a), integer(-2)), pow(add(integer(1), a), a)};
            for (auto &f : fs)
                for (int p : {1, 2, 3, 4, 5, 6, 9, maxprec})
                    emit_case(f, p, "fixed");
        }
    }
    int n = th ? 24000 : 3000;
    for (int i = 0; i < n; i++) {
        int d = (int)r.below(4);
        int prec = 1 + (int)r.below(maxprec);
        if (d == 3 && prec > 14)
            prec = 14; // depth-3 compositions of Newton iterations get expensive above this
        emit_case(g.any(d), prec, "depth" + std::to_string(d));
    }
    for (int i = 0; i < (th ? 1500 : 200); i++)
        emit_case(g.nonrat((int)r.below(2)), 1 + (int)r.below(7), "nonrat");
    for (int i = 0; i < (th ? 800 : 100); i++)
        emit_case(g.removable(), 2 + (int)r.below(maxprec - 1), "removable");
    // even roots of x^(2m) * (1 + ...): real-analytic, series_nthroot takes its ldeg != 0 branch
    for (int i = 0; i < (th ? 200 : 30); i++) {
        int m = 1 + (int)r.below(2);
        RCP<const Basic> u = g.one((int)r.below(2));
        RCP<const Basic> b = expand(mul(pow(x, integer(4 * m)), add(integer(1), g.zeroP())));
        if (r.coin(1, 3))
            b = mul(pow(x, integer(4 * m)), u);
        emit_case(pow(b, Rational::from_two_ints(*integer(1), *integer(2))), 4 * m + 1 + (int)r.below(6), "rootval");
    }
}
