// C12: eval_double / eval_double_single_dispatch / eval_double_visitor_pattern / evalf(<=53) /
// eval_complex_double on random closed canonical trees.
//
// op lines:   ev <dump>     real evaluators
//             evc <dump>    complex evaluator
// output:     v=<bits|E:..>;sd=<bits|E:..>;sp=<special table>;o=<dump in real iteration order>
//             (evc: v=<re bits>,<im bits>|E:..)
// oracles (independent of the Lean model):
//   accuracy      eval_double vs long-double reference with a running first-order error bound
//   sd_agree      eval_double_single_dispatch == eval_double bit for bit wherever both succeed
//   vp_agree      eval_double_visitor_pattern == eval_double
//   evalf         evalf(b, 53, Real) is real_double(eval_double(b)); evalf(b, 53, Complex) likewise
//   caccuracy     eval_complex_double vs std::complex<long double> reference (fixed relative tolerance)
#include "evalfam.h" // (evalfam.h rev 2: the build stamp only hashes this file)
#include <symengine/complex_double.h>
#include <symengine/real_double.h>

using namespace SymEngine;
using namespace evf;

typedef std::complex<long double> CLD;

static CLD node_at(const Basic &b, CLD z)
{
    const CLD one(1, 0);
    switch (b.get_type_code()) {
        case SYMENGINE_SIN: return std::sin(z);
        case SYMENGINE_COS: return std::cos(z);
        case SYMENGINE_TAN: return std::sin(z) / std::cos(z);
        case SYMENGINE_COT: return std::cos(z) / std::sin(z);
        case SYMENGINE_SEC: return one / std::cos(z);
        case SYMENGINE_CSC: return one / std::sin(z);
        case SYMENGINE_ASIN: return std::asin(z);
        case SYMENGINE_ACOS: return std::acos(z);
        case SYMENGINE_ATAN: return std::atan(z);
        case SYMENGINE_ASEC: return std::acos(one / z);
        case SYMENGINE_ACSC: return std::asin(one / z);
        case SYMENGINE_ACOT: return std::atan(one / z);
        case SYMENGINE_SINH: return std::sinh(z);
        case SYMENGINE_COSH: return std::cosh(z);
        case SYMENGINE_TANH: return std::sinh(z) / std::cosh(z);
        case SYMENGINE_COTH: return std::cosh(z) / std::sinh(z);
        case SYMENGINE_SECH: return one / std::cosh(z);
        case SYMENGINE_CSCH: return one / std::sinh(z);
        case SYMENGINE_ASINH: return std::asinh(z);
        case SYMENGINE_ACOSH: return std::acosh(z);
        case SYMENGINE_ATANH: return std::atanh(z);
        case SYMENGINE_ACSCH: return std::asinh(one / z);
        case SYMENGINE_ACOTH: return std::atanh(one / z);
        case SYMENGINE_ASECH: return std::acosh(one / z);
        case SYMENGINE_LOG: return std::log(z);
        case SYMENGINE_ABS: return CLD(std::abs(z), 0);
        case SYMENGINE_UNEVALUATED_EXPR: return z;
        default: throw Unsupported(type_code_name(b.get_type_code()));
    }
}

static CLD cref(const Basic &b)
{
    switch (b.get_type_code()) {
        case SYMENGINE_INTEGER:
        case SYMENGINE_RATIONAL:
        case SYMENGINE_REAL_DOUBLE:
        case SYMENGINE_CONSTANT: {
            RefEval re;
            return CLD(re.eval(b).v, 0);
        }
        case SYMENGINE_COMPLEX: {
            const Complex &c = down_cast<const Complex &>(b);
            return CLD((LD)mp_get_d(c.real_), (LD)mp_get_d(c.imaginary_));
        }
        case SYMENGINE_COMPLEX_DOUBLE: {
            auto z = down_cast<const ComplexDouble &>(b).i;
            return CLD(z.real(), z.imag());
        }
        case SYMENGINE_ADD: {
            const Add &a = down_cast<const Add &>(b);
            CLD s = cref(*a.get_coef());
            for (auto &p : a.get_dict())
                s += cref(*p.first) * cref(*p.second);
            return s;
        }
        case SYMENGINE_MUL: {
            const Mul &m = down_cast<const Mul &>(b);
            CLD s = cref(*m.get_coef());
            for (auto &p : m.get_dict()) {
                if (eq(*p.first, *E))
                    s *= std::exp(cref(*p.second));
                else
                    s *= std::pow(cref(*p.first), cref(*p.second));
            }
            return s;
        }
        case SYMENGINE_POW: {
            const Pow &p = down_cast<const Pow &>(b);
            if (eq(*p.get_base(), *E))
                return std::exp(cref(*p.get_exp()));
            return std::pow(cref(*p.get_base()), cref(*p.get_exp()));
        }
        default:
            break;
    }
    vec_basic a = b.get_args();
    if (a.size() != 1)
        throw Unsupported(type_code_name(b.get_type_code()));
    return node_at(b, cref(*a[0]));
}

// same tree, every leaf perturbed relatively by ~1e-13: a crude condition estimate for the complex oracle
static CLD cref_perturbed(const Basic &b, Rng &r, int imag_sign);

static RCP<const Basic> complex_tree(TreeGen &g, int depth)
{
    Rng &r = g.r;
    if (depth <= 0) {
        unsigned k = r.below(6);
        if (k == 0)
            return Complex::from_two_nums(*g.small_rat(), *g.small_rat());
        if (k == 1)
            return complex_double(std::complex<double>(0.25 * (double)r.range(-8, 8), 0.5 * (double)r.range(-5, 5)));
        if (k == 2)
            return mul(I, g.small_rat());
        return g.leaf();
    }
    unsigned k = r.below(10);
    if (k < 3)
        return add(mul(g.small_rat(), complex_tree(g, depth - 1)), complex_tree(g, depth - 1));
    if (k < 5)
        return mul(complex_tree(g, depth - 1), complex_tree(g, depth - 1));
    if (k < 6)
        return pow(complex_tree(g, depth - 1), r.coin() ? (RCP<const Basic>)integer(r.range(-2, 3)) : (RCP<const Basic>)g.small_rat());
    if (k < 7)
        return pow(E, complex_tree(g, depth - 1));
    static const char *names[] = {"Sin", "Cos", "Tan", "Cot", "Sec", "Csc", "ASin", "ACos", "ATan", "ASec", "ACsc", "ACot",
                                  "Sinh", "Cosh", "Tanh", "Coth", "Sech", "Csch", "ASinh", "ACosh", "ATanh", "ACsch",
                                  "ACoth", "ASech", "Log", "Abs"};
    return vsexp::build_named(names[r.below(26)], {complex_tree(g, depth - 1)});
}

void hx_gen(Rng &rng, const std::string &tier)
{
    long n = tier == "thorough" ? 24000 : 2600;
    TreeGen g(rng);
    // fixed boundary cases first
    const char *fixed[] = {
        "ev (^ (k E) 10)", "ev (^ (k E) 100)", "ev (* 2 ((k E) 7))", "ev (k pi)", "ev (k E)", "ev (k EulerGamma)",
        "ev (k Catalan)", "ev (k GoldenRatio)", "ev 1/10", "ev 2/3", "ev -7", "ev (s x)", "ev (Zeta 3 1)", "ev (Sign (Sin 1))",
        "ev (Floor (Sin 1))", "ev (+ 1/10 ((k pi) 1/3) ((Sin 1) 1) ((Cos 2) -2))", "ev (k foo)",
        "ev (Max (Sin 1) (Cos 1) (k pi))", "ev (Piecewise (Sin 1) (StrictLessThan (Cos 1) (Sin 1)) 2 true)",
        "evc (C 1 2)", "evc (Sin (C 1/2 -1/3))", "evc (ATan2 (Sin 1) 2)", "evc (+ (C 0 1) ((Sin 1) 1))"};
    for (auto f : fixed)
        emit(f, "fixed");
    for (long i = 0; i < n; i++) {
        int depth = 1 + (int)rng.below(4);
        RCP<const Basic> e = g.expr(depth);
        if (is_a_Number(*e) && rng.coin(3, 4))
            continue;
        std::string tag = "d" + std::to_string(depth) + "-" + type_code_name(e->get_type_code());
        emit("ev " + vsexp::dump(*e), tag);
    }
    long nc = n / 8;
    for (long i = 0; i < nc; i++) {
        int depth = 1 + (int)rng.below(3);
        RCP<const Basic> e;
        try {
            e = complex_tree(g, depth);
        } catch (std::exception &) {
            continue;
        }
        emit("evc " + vsexp::dump(*e), "complex-d" + std::to_string(depth));
    }
}

template <class F>
static std::string guarded(F f, double &val, bool &ok)
{
    try {
        val = f();
        ok = true;
        return bits(val);
    } catch (const SymEngine::VerifAssertError &) {
        throw;
    } catch (const std::exception &e) {
        ok = false;
        return exc_name(e);
    }
}

std::string hx_run(const std::string &op, std::string &oracle)
{
    size_t sp = op.find(' ');
    std::string cmd = op.substr(0, sp), rest = op.substr(sp + 1);
    RCP<const Basic> e = vsexp::parse(rest);
    if (cmd == "evc") {
        std::string out;
        std::complex<double> z;
        bool ok = true;
        try {
            z = eval_complex_double(*e);
            out = "v=" + bits(z.real()) + "," + bits(z.imag());
        } catch (const SymEngine::VerifAssertError &) {
            throw;
        } catch (const std::exception &ex) {
            ok = false;
            out = "v=" + exc_name(ex);
        }
        stat(ok ? "complex_evaluated" : "complex_rejected_by_impl");
        if (ok) {
            // evalf(…, Complex) must be the same value
            RCP<const Basic> f = evalf(*e, 53, EvalfDomain::Complex);
            if (!is_a<ComplexDouble>(*f) || !same_bits(down_cast<const ComplexDouble &>(*f).i.real(), z.real())
                || !same_bits(down_cast<const ComplexDouble &>(*f).i.imag(), z.imag()))
                oracle = "FAIL:evalf:complex evalf differs from eval_complex_double";
            try {
                CLD r = cref(*e);
                LD mag = std::abs(r);
                std::complex<double> rd((double)r.real(), (double)r.imag());
                if (!std::isfinite((double)mag) || mag > 1e6L || mag < 1e-6L) {
                    stat("complex_discarded");
                } else {
                    // crude conditioning: compare with the same tree evaluated in complex<double> by the harness' formulas
                    LD diff = std::abs(CLD(z.real(), z.imag()) - r);
                    if (diff > 1e-9L * mag) {
                        // distinguish ill-conditioning (branch cuts, cancellation) from a wrong formula: re-evaluate
                        // the reference at slightly perturbed leaves
                        // (relative perturbations and a tiny imaginary part of either sign: branch cuts on the real axis)
                        Rng pr(12345), pr2(12345), pr3(999);
                        CLD r2 = cref_perturbed(*e, pr, +1), r3 = cref_perturbed(*e, pr2, -1), r4 = cref_perturbed(*e, pr3, 0);
                        if (std::abs(r2 - r) > 1e-11L * mag || std::abs(r3 - r) > 1e-11L * mag || std::abs(r4 - r) > 1e-11L * mag)
                            stat("complex_discarded");
                        else
                            oracle = "FAIL:caccuracy:eval_complex_double=(" + tostr(z.real()) + "," + tostr(z.imag())
                                     + ") ref=(" + tostr((double)r.real()) + "," + tostr((double)r.imag()) + ")";
                    } else
                        stat("complex_accuracy_checked");
                }
            } catch (Unsupported &) {
                stat("complex_no_reference");
            }
        }
        return out;
    }
    if (cmd != "ev")
        throw std::runtime_error("bad op");
    std::map<std::string, long> kinds;
    count_kinds(*e, kinds);
    for (auto &kv : kinds)
        stat("kind_" + kv.first, kv.second);
    double v = 0, sd = 0, vp = 0;
    bool okv, oksd, okvp;
    std::string sv = guarded([&] { return eval_double(*e); }, v, okv);
    std::string ssd = guarded([&] { return eval_double_single_dispatch(*e); }, sd, oksd);
    std::string svp = guarded([&] { return eval_double_visitor_pattern(*e); }, vp, okvp);
    std::vector<std::string> spec;
    collect_special(*e, [](const Basic &b) { return eval_double(b); }, spec);
    // operand values as the single-dispatch evaluator computes them (they differ from the visitor's wherever the
    // two evaluators disagree, e.g. finding D17)
    collect_special(*e, [](const Basic &b) { return eval_double_single_dispatch(b); }, spec);
    std::string out = "v=" + sv + ";sd=" + ssd + ";sp=" + join(spec, ",") + ";o=" + odump(*e);
    if (svp != sv)
        oracle = "FAIL:vp_agree:eval_double_visitor_pattern=" + svp + " eval_double=" + sv;
    if (okv && oksd && !same_bits(v, sd)) {
        std::ostringstream s;
        s.precision(17);
        s << "FAIL:sd_agree:eval_double=" << v << " eval_double_single_dispatch=" << sd << " (" << ulp_dist(v, sd) << " ulp)";
        oracle = s.str();
    }
    if (okv && !oksd)
        stat("sd_not_implemented");
    if (okv) {
        RCP<const Basic> f = evalf(*e, 53, EvalfDomain::Real);
        if (!is_a<RealDouble>(*f) || !same_bits(down_cast<const RealDouble &>(*f).i, v))
            oracle = "FAIL:evalf:evalf(53, Real) differs from eval_double";
        RCP<const Basic> f2 = evalf(*e, 20, EvalfDomain::Real);
        if (!is_a<RealDouble>(*f2) || !same_bits(down_cast<const RealDouble &>(*f2).i, v))
            oracle = "FAIL:evalf:evalf(20, Real) differs from eval_double";
        try {
            RefEval re;
            Ref r = re.eval(*e);
            Verdict vd = judge(r, v);
            if (vd.discarded)
                stat("accuracy_discarded_illconditioned");
            else if (!vd.ok)
                oracle = "FAIL:accuracy:" + vd.why;
            else
                stat("accuracy_checked");
        } catch (Unsupported &u) {
            stat("accuracy_no_reference");
        }
    } else
        stat("impl_error_" + sv);
    return out;
}

static CLD cref_perturbed(const Basic &b, Rng &r, int imag_sign)
{
    // re-evaluate after multiplying every numeric leaf by (1 + δ), |δ| ≤ 1e-13, via a rebuilt reference walk
    struct W {
        Rng &r;
        int isg;
        CLD pert(CLD z)
        {
            LD d = ((LD)r.below(2001) - 1000) * 1e-16L;
            return z * CLD(1 + d, (LD)isg * 1e-13L);
        }
        CLD go(const Basic &b)
        {
            switch (b.get_type_code()) {
                case SYMENGINE_INTEGER:
                case SYMENGINE_RATIONAL:
                case SYMENGINE_REAL_DOUBLE:
                case SYMENGINE_CONSTANT:
                case SYMENGINE_COMPLEX:
                case SYMENGINE_COMPLEX_DOUBLE:
                    return pert(cref(b));
                case SYMENGINE_ADD: {
                    const Add &a = down_cast<const Add &>(b);
                    CLD s = go(*a.get_coef());
                    for (auto &p : a.get_dict())
                        s += go(*p.first) * go(*p.second);
                    return s;
                }
                case SYMENGINE_MUL: {
                    const Mul &m = down_cast<const Mul &>(b);
                    CLD s = go(*m.get_coef());
                    for (auto &p : m.get_dict()) {
                        if (eq(*p.first, *E))
                            s *= std::exp(go(*p.second));
                        else
                            s *= std::pow(go(*p.first), cref(*p.second));
                    }
                    return s;
                }
                case SYMENGINE_POW: {
                    const Pow &p = down_cast<const Pow &>(b);
                    if (eq(*p.get_base(), *E))
                        return std::exp(go(*p.get_exp()));
                    return std::pow(go(*p.get_base()), cref(*p.get_exp()));
                }
                default: {
                    vec_basic a = b.get_args();
                    if (a.size() != 1)
                        throw Unsupported("arity");
                    return node_at(b, go(*a[0]));
                }
            }
        }
    } w{r, imag_sign};
    return w.go(b);
}
