// C43: results do not depend on the integer backend.
//
// This file must compile unchanged against every integer backend (gmp, gmpxx, boostmp): it uses
// only SymEngine::integer_class / rational_class, the mp_* wrapper functions that exist for every
// backend, and the public symengine API.
//
// Op lines
//   mp <fn> <decimal args...>     one call of the backend's mp_* function (or integer_class operator)
//   work <family> <k>             deterministic exact workload number k of a family, through the
//                                 higher layers (ntheory, Rational, expand, polynomials, printing)
// Output: decimal numbers separated by single blanks (canonical, identical for every backend).
#include "common.h"
#include <symengine/mp_class.h>
#include <symengine/integer.h>
#include <symengine/rational.h>
#include <symengine/ntheory.h>
#include <symengine/ntheory_funcs.h>
#include <symengine/add.h>
#include <symengine/mul.h>
#include <symengine/pow.h>
#include <symengine/symbol.h>
#include <symengine/visitor.h>
#include <symengine/polys/uintpoly.h>
#include <symengine/polys/uratpoly.h>
#include <symengine/polys/uexprpoly.h>
#include <symengine/matrix.h>
#include <symengine/parser.h>
#include <climits>
#include <algorithm>
#include <unistd.h>
#include <signal.h>
#include <sys/wait.h>
#include <poll.h>

using namespace SymEngine;
typedef integer_class Z;

static Z zparse(const std::string &s)
{
    return Z(s);
}
static std::string zs(const Z &z)
{
    return tostr(z);
}
static std::string digest(const std::string &s)
{
    // long outputs are replaced by length + two polynomial hashes (the same on every backend)
    if (s.size() <= 300)
        return s;
    unsigned long long h1 = 0, h2 = 1469598103934665603ULL;
    for (unsigned char c : s) {
        h1 = (h1 * 131 + c) % 1000000007ULL;
        h2 = (h2 ^ c) * 1099511628211ULL;
    }
    return "#" + std::to_string(s.size()) + ":" + std::to_string(h1) + ":" + std::to_string(h2) + ":"
           + s.substr(0, 40);
}

// ------------------------------------------------------------------ independent oracle helpers
// (plain schoolbook checks written against integer_class operators +,-,*,comparison only)
static Z zpow(const Z &a, unsigned long n)
{
    Z r(1);
    for (unsigned long i = 0; i < n; i++)
        r = r * a;
    return r;
}
static Z zabs(const Z &a)
{
    return a < 0 ? Z(-a) : a;
}
static void fail(std::string &oracle, const std::string &key, const std::string &d)
{
    if (oracle == "ok")
        oracle = "FAIL:" + key + ":" + d;
}

static std::string run_mp(const std::vector<std::string> &w, std::string &oracle)
{
    const std::string &f = w[1];
    auto A = [&](size_t i) { return zparse(w.at(i)); };
    auto UL = [&](size_t i) { return std::stoul(w.at(i)); };
    stat("mp_" + f);
    if (f == "fdiv_qr" || f == "tdiv_qr") {
        Z a = A(2), b = A(3), q, r;
        if (f == "fdiv_qr")
            mp_fdiv_qr(q, r, a, b);
        else
            mp_tdiv_qr(q, r, a, b);
        if (q * b + r != a || !(zabs(r) < zabs(b)))
            fail(oracle, f, "a != q*b+r or |r| >= |b|");
        if (f == "fdiv_qr" && r != 0 && ((r < 0) != (b < 0)))
            fail(oracle, f, "remainder sign differs from divisor sign");
        if (f == "tdiv_qr" && r != 0 && ((r < 0) != (a < 0)))
            fail(oracle, f, "remainder sign differs from dividend sign");
        return zs(q) + " " + zs(r);
    }
    if (f == "fdiv_qr_alias") { // q and r alias the inputs (the Boost code copies for that reason)
        Z a = A(2), b = A(3), a0 = a, b0 = b;
        mp_fdiv_qr(a, b, a, b);
        if (a * b0 + b != a0)
            fail(oracle, f, "aliased call: a != q*b+r");
        return zs(a) + " " + zs(b);
    }
    if (f == "fdiv_q" || f == "fdiv_r" || f == "cdiv_q" || f == "tdiv_q" || f == "div" || f == "mod") {
        Z a = A(2), b = A(3), r;
        if (f == "fdiv_q")
            mp_fdiv_q(r, a, b);
        else if (f == "fdiv_r")
            mp_fdiv_r(r, a, b);
        else if (f == "cdiv_q")
            mp_cdiv_q(r, a, b);
        else if (f == "tdiv_q")
            mp_tdiv_q(r, a, b);
        else if (f == "div")
            r = a / b;
        else
            r = a % b;
        if (f == "cdiv_q") { // q = ceil(a/b):  0 <= q*b - a < |b| in the direction of b
            Z d = r * b - a;
            if (!(zabs(d) < zabs(b)) || (d != 0 && ((d < 0) != (b < 0))))
                fail(oracle, f, "not the ceiling quotient");
        }
        return zs(r);
    }
    if (f == "fdiv_r_alias") {
        Z a = A(2), b = A(3);
        mp_fdiv_r(a, a, b);
        return zs(a);
    }
    if (f == "shl") {
        Z a = A(2);
        return zs(Z(a << UL(3)));
    }
    if (f == "shr") {
        Z a = A(2);
        return zs(Z(a >> UL(3)));
    }
    if (f == "gcd" || f == "lcm") {
        Z a = A(2), b = A(3), r;
        if (f == "gcd")
            mp_gcd(r, a, b);
        else
            mp_lcm(r, a, b);
        if (r < 0)
            fail(oracle, f, "negative result");
        return zs(r);
    }
    if (f == "gcdext") {
        Z a = A(2), b = A(3), g, s, t, g2;
        mp_gcdext(g, s, t, a, b);
        mp_gcd(g2, a, b);
        if (a * s + b * t != g || g != g2)
            fail(oracle, f, "Bezout identity or gcd violated");
        // the cofactor normalisation documented for mpz_gcdext
        {
            Z aa = zabs(a), bb = zabs(b), g2x = g * 2;
            Z sa = Z(a < 0 ? -1 : (a > 0 ? 1 : 0)), sb = Z(b < 0 ? -1 : (b > 0 ? 1 : 0));
            bool s_ok, t_ok;
            if (a == 0 && b == 0)
                s_ok = (s == 0), t_ok = (t == 0);
            else if (aa == bb)
                s_ok = (s == 0), t_ok = (t == sb);
            else {
                s_ok = (b == 0 || bb == g2x) ? (s == sa) : (g2x * zabs(s) < bb);
                t_ok = (a == 0 || aa == g2x) ? (t == sb) : (g2x * zabs(t) < aa);
            }
            if (!s_ok || !t_ok)
                fail(oracle, "gcdext-norm", "cofactors are not the ones documented for mpz_gcdext");
        }
        return zs(g) + " " + zs(s) + " " + zs(t);
    }
    if (f == "invert") {
        Z a = A(2), m = A(3), r;
        bool ok = mp_invert(r, a, m);
        if (!ok)
            return "0";
        Z chk = (a * r - 1) % m;
        if (chk != 0 || r < 0 || !(r < zabs(m)))
            fail(oracle, f, "not the inverse in [0,|m|)");
        return "1 " + zs(r);
    }
    if (f == "powm") {
        Z b = A(2), e = A(3), m = A(4), r;
        mp_powm(r, b, e, m);
        if (r < 0 || !(r < zabs(m)))
            fail(oracle, f, "result outside [0,|m|)");
        return zs(r);
    }
    if (f == "pow_ui") {
        Z a = A(2), r;
        mp_pow_ui(r, a, UL(3));
        return digest(zs(r));
    }
    if (f == "root" || f == "rootrem") {
        Z i = A(2), r, rem;
        unsigned long n = UL(3);
        bool exact = false;
        if (f == "root")
            exact = mp_root(r, i, n);
        else
            mp_rootrem(r, rem, i, n);
        // truncated n-th root: |r|^n <= |i| < (|r|+1)^n, sign of i
        Z ar = zabs(r), ai = zabs(i);
        if (!(zpow(ar, n) <= ai) || !(ai < zpow(ar + 1, n)) || (r != 0 && ((r < 0) != (i < 0))))
            fail(oracle, f, "not the truncated integer root");
        if (f == "root") {
            if (exact != (zpow(r, n) == i))
                fail(oracle, f, "exactness flag wrong");
            return std::string(exact ? "1 " : "0 ") + zs(r);
        }
        if (rem != i - zpow(r, n))
            fail(oracle, f, "remainder wrong");
        return zs(r) + " " + zs(rem);
    }
    if (f == "sqrt") {
        Z i = A(2);
        Z r = mp_sqrt(i);
        if (!(r * r <= i) || !(i < (r + 1) * (r + 1)) || r < 0)
            fail(oracle, f, "not floor(sqrt)");
        return zs(r);
    }
    if (f == "sqrtrem") {
        Z i = A(2), r, rem;
        mp_sqrtrem(r, rem, i);
        if (r * r + rem != i || rem < 0 || !(i < (r + 1) * (r + 1)))
            fail(oracle, f, "not floor(sqrt) with remainder");
        return zs(r) + " " + zs(rem);
    }
    if (f == "perfect_power_p") {
        return mp_perfect_power_p(A(2)) ? "1" : "0";
    }
    if (f == "perfect_power_p_t") {
        // the same call in a child process with a time limit (w[3] seconds): a backend that gives no
        // answer in that time has no result to compare
        Z i = A(2);
        int limit = (int)UL(3);
        int fd[2];
        if (pipe(fd) != 0)
            return "bad-op";
        std::cout.flush();
        pid_t pid = fork();
        if (pid == 0) {
            close(fd[0]);
            char c = mp_perfect_power_p(i) ? '1' : '0';
            ssize_t wr = write(fd[1], &c, 1);
            (void)wr;
            _exit(0);
        }
        close(fd[1]);
        struct pollfd pfd = {fd[0], POLLIN, 0};
        char c = '?';
        int pr = poll(&pfd, 1, limit * 1000);
        bool got = pr > 0 && read(fd[0], &c, 1) == 1;
        close(fd[0]);
        if (!got)
            kill(pid, SIGKILL);
        int st;
        waitpid(pid, &st, 0);
        if (!got) {
            fail(oracle, "perfect-power-hang", "no answer within " + std::to_string(limit) + " s");
            return "TIMEOUT";
        }
        return std::string(1, c);
    }
    if (f == "perfect_square_p") {
        Z i = A(2);
        bool b = mp_perfect_square_p(i);
        if (i >= 0) {
            Z r = mp_sqrt(i);
            if (b != (r * r == i))
                fail(oracle, f, "disagrees with sqrt");
        } else if (b)
            fail(oracle, f, "negative number reported as square");
        return b ? "1" : "0";
    }
    if (f == "legendre")
        return std::to_string(mp_legendre(A(2), A(3)));
    if (f == "jacobi")
        return std::to_string(mp_jacobi(A(2), A(3)));
    if (f == "kronecker") {
        Z a = A(2), n = A(3);
        int k = mp_kronecker(a, n);
        if (n == 0 && k != ((a == 1 || a == -1) ? 1 : 0))
            fail(oracle, "kronecker-zero", "(a|0) must be 1 for |a| = 1 and 0 otherwise");
        return std::to_string(k);
    }
    if (f == "nextprime") {
        Z r;
        mp_nextprime(r, A(2));
        return zs(r);
    }
    if (f == "probab_prime_p") {
        Z i = A(2);
        int r = mp_probab_prime_p(i, 25);
        if (i < 0 && (r != 0) != (mp_probab_prime_p(zabs(i), 25) != 0))
            fail(oracle, "probab-prime-negative", "sign changes the answer");
        return r ? "1" : "0"; // 1 (probably) and 2 (certainly) are both "prime"
    }
    if (f == "fib" || f == "lucnum" || f == "fac") {
        Z r;
        unsigned long n = UL(2);
        if (f == "fib")
            mp_fib_ui(r, n);
        else if (f == "lucnum")
            mp_lucnum_ui(r, n);
        else
            mp_fac_ui(r, n);
        return digest(zs(r));
    }
    if (f == "fib2" || f == "lucnum2") {
        Z a, b;
        unsigned long n = UL(2);
        if (f == "fib2")
            mp_fib2_ui(a, b, n);
        else
            mp_lucnum2_ui(a, b, n);
        return digest(zs(a) + " " + zs(b));
    }
    if (f == "bin") {
        Z r;
        mp_bin_ui(r, A(2), UL(3));
        return digest(zs(r));
    }
    if (f == "primorial")
        return digest(zs(mp_primorial(UL(2))));
    if (f == "scan1") {
        unsigned long r = mp_scan1(A(2));
        return r == ULONG_MAX ? "max" : std::to_string(r);
    }
    if (f == "and") {
        Z r;
        mp_and(r, A(2), A(3));
        return zs(r);
    }
    if (f == "get_si") // only generated for values that fit
        return std::to_string(mp_get_si(A(2)));
    if (f == "get_ui") // |i| must fit
        return std::to_string(mp_get_ui(A(2)));
    if (f == "fits_ulong")
        return mp_fits_ulong_p(A(2)) ? "1" : "0";
    if (f == "fits_slong")
        return mp_fits_slong_p(A(2)) ? "1" : "0";
    if (f == "sign")
        return std::to_string(mp_sign(A(2)));
    if (f == "abs")
        return zs(mp_abs(A(2)));
    if (f == "cmpabs") {
        int c = mp_cmpabs(A(2), A(3));
        return std::to_string(c < 0 ? -1 : (c > 0 ? 1 : 0));
    }
    if (f == "divisible_p")
        return mp_divisible_p(A(2), A(3)) ? "1" : "0";
    if (f == "divexact") { // only generated for exact divisions
        Z r;
        mp_divexact(r, A(2), A(3));
        return zs(r);
    }
    if (f == "addmul") {
        Z r = A(2);
        mp_addmul(r, A(3), A(4));
        return zs(r);
    }
    if (f == "hex")
        return mp_get_hex_str(A(2));
    if (f == "arith") { // operators + - * unary-, comparison
        Z a = A(2), b = A(3);
        int c = a < b ? -1 : (a == b ? 0 : 1);
        return digest(zs(a + b) + " " + zs(a - b) + " " + zs(a * b) + " " + zs(-a) + " " + std::to_string(c));
    }
    if (f == "q") { // rational_class: construct+canonicalize a/b and c/d, then + - * / cmp sign abs pow
        Z a = A(2), b = A(3), c = A(4), d = A(5);
        unsigned long n = UL(6);
        // sign normalisation first, as Rational::from_two_ints does (boostorg/rational issue 27)
        if (b < 0) {
            a = -a;
            b = -b;
        }
        if (d < 0) {
            c = -c;
            d = -d;
        }
        rational_class p(a, b), q(c, d);
        canonicalize(p);
        canonicalize(q);
        auto qs = [](const rational_class &x) { return zs(Z(get_num(x))) + "/" + zs(Z(get_den(x))); };
        std::string o = qs(p) + " " + qs(q) + " " + qs(p + q) + " " + qs(p - q) + " " + qs(p * q);
        if (c != 0)
            o += " " + qs(p / q);
        else
            o += " -";
        o += std::string(" ") + (p < q ? "-1" : (p == q ? "0" : "1"));
        o += " " + std::to_string(mp_sign(p)) + " " + qs(mp_abs(p));
        rational_class pw;
        mp_pow_ui(pw, p, n);
        o += " " + qs(pw);
        return digest(o);
    }
    return "bad-op";
}

// ------------------------------------------------------------------ workload
static Z rand_z(Rng &r, unsigned maxbits, bool allow_neg = true)
{
    unsigned bits = 1 + (unsigned)r.below(maxbits);
    Z v(0);
    for (unsigned done = 0; done < bits; done += 30) {
        unsigned k = std::min(30u, bits - done);
        v = v * Z(1UL << k) + Z((unsigned long)(r.next() & ((1UL << k) - 1)));
    }
    switch (r.below(8)) {
        case 0:
            v = zpow(Z(2), bits); // power of two
            break;
        case 1:
            v = zpow(Z(2), bits) - 1;
            break;
        case 2:
            v = zpow(Z(2), bits) + 1;
            break;
        default:
            break;
    }
    if (allow_neg && r.coin(1, 3))
        v = -v;
    return v;
}

static std::string istr(const RCP<const Basic> &b)
{
    return b->__str__();
}

static std::string run_work(const std::string &fam, unsigned long k)
{
    uint64_t fh = 1469598103934665603ULL;
    for (unsigned char c : fam)
        fh = (fh ^ c) * 1099511628211ULL;
    Rng r((fh % 1000003ULL) * 1000ULL + k);
    std::ostringstream o;
    stat("work_" + fam);
    if (fam == "nt") { // elementary number theory on moderately big integers
        RCP<const Integer> a = integer(rand_z(r, 200)), b = integer(rand_z(r, 120));
        if (b->is_zero())
            b = integer(7);
        RCP<const Integer> g, s, t, q, rem;
        gcd_ext(outArg(g), outArg(s), outArg(t), *a, *b);
        o << istr(gcd(*a, *b)) << " " << istr(lcm(*a, *b)) << " " << istr(g) << " " << istr(s) << " " << istr(t);
        o << " " << istr(mod(*a, *b)) << " " << istr(quotient(*a, *b)) << " " << istr(mod_f(*a, *b)) << " "
          << istr(quotient_f(*a, *b));
        quotient_mod(outArg(q), outArg(rem), *a, *b);
        o << " " << istr(q) << " " << istr(rem);
        quotient_mod_f(outArg(q), outArg(rem), *a, *b);
        o << " " << istr(q) << " " << istr(rem);
        RCP<const Integer> inv;
        int ok = mod_inverse(outArg(inv), *a, *b);
        o << " inv:" << ok;
        if (ok)
            o << ":" << istr(inv);
        o << " div:" << divides(*a, *b);
        return o.str();
    }
    if (fam == "prime") {
        RCP<const Integer> a = integer(zabs(rand_z(r, 70)));
        o << (probab_prime_p(*a) != 0) << " " << istr(nextprime(*a)); // 1 "probably" / 2 "certainly" both mean prime
        unsigned long n = 2 + r.below(2000000);
        RCP<const Integer> m = integer((long)n);
        std::vector<RCP<const Integer>> pf;
        prime_factors(pf, *m);
        o << " " << n << "=";
        for (auto &p : pf)
            o << istr(p) << ".";
        o << " phi:" << istr(totient(m)) << " lam:" << istr(carmichael(m)) << " mu:" << mobius(*m);
        RCP<const Integer> pr;
        bool has = primitive_root(outArg(pr), *m);
        o << " pr:" << has;
        if (has)
            o << ":" << istr(pr);
        RCP<const Integer> f;
        int found = factor_trial_division(outArg(f), *m);
        o << " td:" << found;
        if (found)
            o << ":" << istr(f);
        return o.str();
    }
    if (fam == "symbols") { // legendre/jacobi/kronecker inside their documented domains
        Z a = rand_z(r, 90);
        Z n = zabs(rand_z(r, 60, false)) * 2 + 1; // odd positive
        RCP<const Integer> p = nextprime(*integer(zabs(rand_z(r, 50, false)) + 2));
        Z kn = rand_z(r, 60);
        if (kn == 0)
            kn = Z(12);
        o << jacobi(*integer(a), *integer(n)) << " " << legendre(*integer(a), *p) << " "
          << kronecker(*integer(a), *integer(kn));
        return o.str();
    }
    if (fam == "seq") {
        unsigned long n = 1 + r.below(400);
        RCP<const Integer> g, s;
        o << istr(fibonacci(n)) << " " << istr(lucas(n));
        fibonacci2(outArg(g), outArg(s), n);
        o << " " << istr(g) << " " << istr(s);
        lucas2(outArg(g), outArg(s), n);
        o << " " << istr(g) << " " << istr(s);
        unsigned long f = r.below(60);
        // every random draw in its own statement: the evaluation order of function arguments is unspecified
        Z bn0 = rand_z(r, 40);
        unsigned long bk = r.below(12), bern = r.below(30), hn = 1 + r.below(30);
        long hm = 1 + (long)r.below(3);
        o << " " << istr(factorial(f)) << " " << istr(binomial(*integer(bn0), bk));
        o << " " << istr(bernoulli(bern)) << " " << istr(harmonic(hn, hm));
        return digest(o.str());
    }
    if (fam == "modular") {
        RCP<const Integer> p = nextprime(*integer(zabs(rand_z(r, 40, false)) + 2));
        RCP<const Integer> a = integer(zabs(rand_z(r, 60, false)) + 1);
        RCP<const Integer> n = integer((long)(2 + r.below(5)));
        RCP<const Integer> ord;
        // all roots (sorted): nthroot_mod / powermod return *one* root, chosen through Tonelli-Shanks with a
        // random non-residue (GMP: seeded from std::rand(), i.e. by the history of the process; Boost: a fixed
        // mt19937 seed) - not a function of the arguments, so only the complete lists are compared
        std::vector<RCP<const Integer>> roots;
        nthroot_mod_list(roots, a, n, p);
        o << roots.size();
        for (auto &rt : roots)
            o << ":" << istr(rt);
        long en = (long)r.range(-9, 9);
        long ed = (long)(1 + r.below(3));
        RCP<const Number> e = Rational::from_two_ints(*integer(en), *integer(ed));
        std::vector<RCP<const Integer>> pws;
        powermod_list(pws, a, e, p);
        std::vector<std::string> pstr;
        for (auto &pw : pws)
            pstr.push_back(istr(pw));
        std::sort(pstr.begin(), pstr.end());
        o << " pm:" << pws.size();
        for (auto &ps : pstr)
            o << ":" << ps;
        bool ho = multiplicative_order(outArg(ord), a, p);
        o << " ord:" << ho;
        if (ho)
            o << ":" << istr(ord);
        o << " qr:" << is_quad_residue(*a, *p);
        long r7 = (long)r.below(7), r11 = (long)r.below(11), r13 = (long)r.below(13);
        std::vector<RCP<const Integer>> rem{integer(r7), integer(r11), integer(r13)};
        std::vector<RCP<const Integer>> mods{integer(7), integer(11), integer(13)};
        RCP<const Integer> R;
        bool hc = crt(outArg(R), rem, mods);
        o << " crt:" << hc;
        if (hc)
            o << ":" << istr(R);
        return o.str();
    }
    if (fam == "rat") { // rational arithmetic, powers, roots, perfect powers
        Z n1 = rand_z(r, 90), d1 = rand_z(r, 60), n2 = rand_z(r, 50), d2 = rand_z(r, 40);
        if (d1 == 0)
            d1 = Z(3);
        if (d2 == 0)
            d2 = Z(-5);
        RCP<const Number> p = Rational::from_two_ints(*integer(n1), *integer(d1));
        RCP<const Number> q = Rational::from_two_ints(*integer(n2), *integer(d2));
        o << istr(p) << " " << istr(q) << " " << istr(p->add(*q)) << " " << istr(p->sub(*q)) << " "
          << istr(p->mul(*q));
        if (!q->is_zero())
            o << " " << istr(p->div(*q));
        long pe = (long)r.range(-6, 6);
        if (p->is_zero() && pe < 0)
            pe = -pe; // 0^(-k) is a division by zero (a precondition, not a backend matter)
        o << " " << istr(p->pow(*integer(pe)));
        // perfect powers / nth roots of constructed powers
        Z bn = zabs(rand_z(r, 14, false)) + 1, bd = zabs(rand_z(r, 10, false)) + 1;
        unsigned long e = 2 + r.below(4);
        bool perturb = r.coin(1, 3);
        RCP<const Number> pp = Rational::from_two_ints(*integer(zpow(bn, e) + (perturb ? 1 : 0)), *integer(zpow(bd, e)));
        if (is_a<Rational>(*pp)) {
            const Rational &R = down_cast<const Rational &>(*pp);
            RCP<const Number> root;
            bool ex = R.nth_root(outArg(root), e);
            o << " ipp:" << R.is_perfect_power() << " root:" << ex;
            if (ex)
                o << ":" << istr(root);
        } else {
            const Integer &I = down_cast<const Integer &>(*pp);
            RCP<const Integer> root;
            bool ex = i_nth_root(outArg(root), I, e);
            o << " ipp:" << perfect_power(I) << " iroot:" << ex << ":" << istr(root);
        }
        // fractional powers (Rational::powrat / Integer::pow_rat paths through pow())
        long xn = (long)r.range(-7, 7);
        long xd = (long)(2 + r.below(4));
        RCP<const Number> ex2 = Rational::from_two_ints(*integer(xn), *integer(xd));
        o << " " << istr(pow(pp, ex2)) << " " << istr(pow(p, ex2));
        return digest(o.str());
    }
    if (fam == "int") { // Integer::divint / powint / pow_negint / isqrt / i_nth_root / printing
        RCP<const Integer> a = integer(rand_z(r, 300)), b = integer(rand_z(r, 100));
        o << istr(a) << " " << istr(a->mulint(*b)) << " " << istr(a->addint(*b)) << " " << istr(a->subint(*b));
        if (!b->is_zero())
            o << " " << istr(a->divint(*b));
        RCP<const Integer> e = integer((long)r.range(-5, 9));
        if (!(a->is_zero() && e->is_negative()))
            o << " " << istr(a->powint(*e));
        o << " " << istr(isqrt(*iabs(*a)));
        RCP<const Integer> root;
        unsigned long n = 2 + r.below(6);
        bool ex = i_nth_root(outArg(root), *iabs(*a), n);
        o << " " << ex << ":" << istr(root) << " pp:" << perfect_power(*integer(rand_z(r, 90)));
        o << " " << a->__hash__() << " " << a->compare(*b);
        return digest(o.str());
    }
    if (fam == "expand") { // multinomial coefficients of (c1*x + c2*y + c3*z + c0)^k
        RCP<const Basic> x = symbol("x"), y = symbol("y"), z = symbol("z");
        unsigned kk = 2 + (unsigned)r.below(9);
        Z cx = rand_z(r, 20);
        long cyn = (long)r.range(-9, 9), cyd = (long)(1 + r.below(7)), c0 = (long)r.range(-3, 3);
        RCP<const Basic> base = add({mul(integer(cx), x), mul(Rational::from_two_ints(cyn, cyd), y), z, integer(c0)});
        RCP<const Basic> e = expand(pow(base, integer((long)kk)));
        // canonical listing: substitute numbers and evaluate exactly (order independent), plus term count
        map_basic_basic sub;
        sub[x] = integer(3);
        sub[y] = Rational::from_two_ints(2, 5);
        sub[z] = integer(-7);
        o << "k=" << kk << " nterms=" << e->get_args().size() << " val=" << istr(expand(e->subs(sub)));
        sub[x] = integer(1);
        sub[y] = integer(1);
        sub[z] = integer(1);
        o << " sum=" << istr(expand(e->subs(sub)));
        return digest(o.str());
    }
    if (fam == "poly") { // integer and rational univariate polynomials
        RCP<const Basic> x = symbol("x");
        std::vector<Z> c1, c2;
        unsigned d1 = 1 + (unsigned)r.below(8), d2 = 1 + (unsigned)r.below(6);
        for (unsigned i = 0; i <= d1; i++)
        {
            unsigned cb = r.coin(1, 4) ? 90 : 12;
            c1.push_back(rand_z(r, cb));
        }
        for (unsigned i = 0; i <= d2; i++)
            c2.push_back(rand_z(r, 12));
        if (c2.back() == 0)
            c2.back() = Z(1);
        RCP<const UIntPoly> p = UIntPoly::from_vec(x, c1), q = UIntPoly::from_vec(x, c2);
        o << p->__str__() << " | " << add_upoly(*p, *q)->__str__() << " | " << sub_upoly(*p, *q)->__str__() << " | "
          << mul_upoly(*p, *q)->__str__();
        RCP<const UIntPoly> qu;
        bool dv = divides_upoly(*q, *mul_upoly(*p, *q), outArg(qu));
        o << " | div:" << dv;
        if (dv)
            o << ":" << qu->__str__();
        o << " | ev:" << zs(p->eval(Z(-3)));
        std::vector<rational_class> rc;
        for (unsigned i = 0; i <= d2; i++) {
            Z den = zabs(rand_z(r, 8, false)) + 1;
            rational_class qv(c2[i], den);
            canonicalize(qv);
            rc.push_back(qv);
        }
        RCP<const URatPoly> rp = URatPoly::from_vec(x, rc);
        o << " | " << rp->__str__() << " | " << mul_upoly(*rp, *rp)->__str__();
        return digest(o.str());
    }
    if (fam == "print") { // number printing and parsing round trip
        Z a = rand_z(r, 400);
        RCP<const Integer> ia = integer(a);
        std::string s = istr(ia);
        RCP<const Basic> back = parse(s);
        o << s << " " << eq(*back, *ia) << " " << mp_get_hex_str(a);
        Z d = zabs(rand_z(r, 100, false)) + 1;
        RCP<const Number> q = Rational::from_two_ints(*ia, *integer(d));
        o << " " << istr(q) << " " << eq(*parse(istr(q)), *q);
        return digest(o.str());
    }
    if (fam == "matrix") { // fraction-free exact linear algebra over the integers/rationals
        unsigned n = 2 + (unsigned)r.below(3);
        DenseMatrix M(n, n), Inv(n, n);
        for (unsigned i = 0; i < n; i++)
            for (unsigned j = 0; j < n; j++)
                M.set(i, j, integer(rand_z(r, 10)));
        RCP<const Basic> det = M.det();
        o << istr(det);
        if (!eq(*det, *zero)) {
            M.inv(Inv);
            o << " " << Inv.__str__();
        }
        return digest(o.str());
    }
    return "bad-op";
}

std::string hx_run(const std::string &line, std::string &oracle)
{
    auto w = split(line, ' ');
    if (w.size() >= 3 && w[0] == "mp") {
        // every generated mp op is inside the domain GMP documents: a backend that throws has no result
        try {
            return run_mp(w, oracle);
        } catch (const VerifAssertError &) {
            throw;
        } catch (const std::exception &e) {
            fail(oracle, "throw-" + w[1], std::string("exception: ") + e.what());
            return exc_name(e);
        }
    }
    if (w.size() == 2 && w[0] == "parse") {
        // an integer literal too long for `long`: must be read as decimal by every backend
        stat("parse");
        std::string lit = w[1], want = lit;
        size_t pos = lit[0] == '-' ? 1 : 0;
        size_t nz = lit.find_first_not_of('0', pos);
        if (nz == std::string::npos)
            nz = lit.size() - 1;
        want = lit.substr(0, pos) + lit.substr(nz);
        std::string got = parse(lit)->__str__();
        if (got != want)
            fail(oracle, "parse-leading-zero", "parse(" + lit + ") = " + got);
        return got;
    }
    if (w.size() == 3 && w[0] == "work")
        return run_work(w[1], std::stoul(w[2]));
    return "bad-op";
}

// ------------------------------------------------------------------ generation
static const char *WORK_FAMILIES[] = {"nt", "prime", "symbols", "seq", "modular", "rat", "int", "expand", "poly", "print", "matrix"};
// number of workload instances per family for which the expected (GMP build) results are tabulated
static const unsigned long WORK_TABLE = 60;

static std::string big(Rng &r, unsigned maxbits, bool neg = true)
{
    return zs(rand_z(r, maxbits, neg));
}

void hx_gen(Rng &r, const std::string &tier)
{
    bool th = tier == "thorough";
    if (tier == "worktable") { // used by the translator: every tabulated workload op
        for (auto fam : WORK_FAMILIES)
            for (unsigned long k = 0; k < WORK_TABLE; k++)
                emit(std::string("work ") + fam + " " + std::to_string(k), "work");
        return;
    }
    auto S = [](long v) { return std::to_string(v); };
    // ---- exhaustive small ranges
    int R1 = th ? 40 : 12;
    for (int a = -R1; a <= R1; a++)
        for (int b = -R1; b <= R1; b++) {
            std::string ab = S(a) + " " + S(b);
            if (b != 0) {
                for (auto f : {"fdiv_qr", "tdiv_qr", "fdiv_q", "fdiv_r", "cdiv_q", "tdiv_q", "div", "mod", "fdiv_qr_alias",
                               "fdiv_r_alias"})
                    emit(std::string("mp ") + f + " " + ab, "small-div");
                emit("mp invert " + ab, "small-invert");
                emit("mp kronecker " + ab, "small-symbol");
                if (b > 0 && b % 2 != 0)
                    emit("mp jacobi " + ab, "small-symbol");
                emit("mp divisible_p " + ab, "small-misc");
            }
            emit("mp gcd " + ab, "small-gcd");
            emit("mp lcm " + ab, "small-gcd");
            emit("mp gcdext " + ab, "small-gcd");
            emit("mp and " + ab, "small-bits");
            emit("mp cmpabs " + ab, "small-misc");
        }
    static const int primes[] = {3, 5, 7, 11, 13, 17, 19, 23, 29, 31, 37};
    for (int p : primes)
        for (int a = -R1; a <= R1; a++)
            emit("mp legendre " + S(a) + " " + S(p), "small-symbol");
    int R2 = th ? 3000 : 400;
    for (int i = -R2; i <= R2; i++) {
        for (int n = 1; n <= 6; n++)
            if (i >= 0 || n % 2 == 1) {
                emit("mp root " + S(i) + " " + S(n), "small-root");
                if (i >= 0 && (i % 7 == 0 || th))
                    emit("mp rootrem " + S(i) + " " + S(n), "small-root");
            }
        emit("mp perfect_power_p " + S(i), "small-pp");
        emit("mp perfect_square_p " + S(i), "small-pp");
        if (i >= 0) {
            emit("mp sqrt " + S(i), "small-root");
            emit("mp sqrtrem " + S(i), "small-root");
            emit("mp probab_prime_p " + S(i), "small-prime");
        }
        emit("mp nextprime " + S(i), "small-prime");
        emit("mp scan1 " + S(i), "small-bits");
        emit("mp sign " + S(i), "small-misc");
    }
    for (int b = -8; b <= 8; b++)
        for (int e = -6; e <= 8; e++)
            for (int m = -9; m <= 9; m++) {
                if (m == 0)
                    continue;
                if (e < 0) { // negative exponent only when the base is invertible
                    long g = std::abs(b), h = std::abs(m);
                    while (h) {
                        long t = g % h;
                        g = h;
                        h = t;
                    }
                    if (g != 1)
                        continue;
                }
                if (th || (b + e + m) % 3 == 0)
                    emit("mp powm " + S(b) + " " + S(e) + " " + S(m), "small-powm");
            }
    for (int n = 0; n <= (th ? 300 : 90); n++) {
        emit("mp fib " + S(n), "seq");
        emit("mp fib2 " + S(n), "seq");
        emit("mp lucnum " + S(n), "seq");
        emit("mp lucnum2 " + S(n), "seq");
        emit("mp fac " + S(n), "seq");
        emit("mp primorial " + S(n), "seq");
    }
    for (int n = -20; n <= 30; n++)
        for (int k = 0; k <= (th ? 12 : 6); k++)
            emit("mp bin " + S(n) + " " + S(k), "seq");
    for (int a = -20; a <= 20; a++)
        for (int k = 0; k <= 6; k++) {
            emit("mp shl " + S(a) + " " + S(k), "small-bits");
            if (a >= 0) // `>>` of a negative value is backend dependent and never used by symengine (docs)
                emit("mp shr " + S(a) + " " + S(k), "small-bits");
            emit("mp pow_ui " + S(a) + " " + S(k), "small-misc");
        }
    // conversions at the word boundaries
    for (const char *v : {"0", "1", "-1", "9223372036854775807", "9223372036854775808", "-9223372036854775808",
                          "-9223372036854775809", "18446744073709551615", "18446744073709551616", "4294967295",
                          "4294967296", "-4294967296", "-18446744073709551615"}) {
        std::string s(v);
        emit("mp fits_ulong " + s, "convert");
        emit("mp fits_slong " + s, "convert");
        emit("mp hex " + s, "convert");
        emit("mp abs " + s, "convert");
        Z z = zparse(s);
        if (mp_fits_slong_p(z))
            emit("mp get_si " + s, "convert");
        if (mp_fits_ulong_p(zabs(z)))
            emit("mp get_ui " + s, "convert");
    }
    // ---- edge cases inside the domain GMP documents, on which the backends disagreed when this check
    //      was written (docs/C43.md D1..D11)
    for (int a = -4; a <= 4; a++)
        emit("mp kronecker " + S(a) + " 0", "edge-kronecker-zero");
    for (int a = -9; a <= 9; a++)
        for (int n : {-1, -3, -5, -9, -15, -21, -35})
            emit("mp jacobi " + S(a) + " " + S(n), "edge-jacobi-negative");
    for (int i = 0; i <= (th ? 200 : 40); i++) {
        emit("mp probab_prime_p " + S(-i), "edge-prime-negative");
    }
    {
        // a non-perfect-power above 2^1024, with a time limit
        emit("mp perfect_power_p_t " + zs(zpow(Z(2), 1030) + 1) + " 10", "edge-pp-large");
        if (th) {
            emit("mp perfect_power_p_t " + zs(zpow(Z(3), 700) + 2) + " 10", "edge-pp-large");
            emit("mp perfect_power_p_t " + zs(zpow(Z(7), 130) - 2) + " 10", "edge-pp-large");
            emit("mp perfect_power_p_t " + zs(zpow(Z(10), 400)) + " 10", "edge-pp-large");
        }
    }
    {
        // integer literals too long for `long`, with and without leading zeros (octal digits only after a
        // leading zero: a literal such as 08 is tokenised differently, that is C17's business)
        emit("parse 0777777777777777777777777", "parse-leading-zero");
        emit("parse -0777777777777777777777777", "parse-leading-zero");
        emit("parse 00000000000000000000000000000000000012345671234567123456712345671", "parse-leading-zero");
        for (int k = 0; k < (th ? 40 : 8); k++) {
            std::string d;
            unsigned len = 23 + (unsigned)r.below(30);
            for (unsigned j = 0; j < len; j++)
                d.push_back((char)('0' + r.below(8)));
            if (d[0] == '0')
                d[0] = '1';
            emit(std::string("parse ") + (r.coin(1, 3) ? "-" : "") + "0" + d, "parse-leading-zero");
            std::string e;
            for (unsigned j = 0; j < len; j++)
                e.push_back((char)('0' + r.below(10)));
            if (e[0] == '0')
                e[0] = '9';
            emit(std::string("parse ") + (r.coin(1, 3) ? "-" : "") + e, "parse-plain");
        }
    }
    // ---- random big arguments
    int N = th ? 1500 : 250;
    unsigned bitsizes[] = {64, 130, 500, 2000};
    for (int it = 0; it < N; it++) {
        unsigned mb = bitsizes[r.below(4)];
        std::string a = big(r, mb), b = big(r, r.coin() ? mb : mb / 2 + 1);
        if (b == "0")
            b = "-3";
        std::string ab = a + " " + b;
        switch (r.below(14)) {
            case 0:
                emit("mp fdiv_qr " + ab, "big-div");
                emit("mp cdiv_q " + ab, "big-div");
                break;
            case 1:
                emit("mp tdiv_qr " + ab, "big-div");
                emit("mp fdiv_r_alias " + ab, "big-div");
                emit("mp mod " + ab, "big-div");
                break;
            case 2:
                emit("mp gcdext " + ab, "big-gcd");
                break;
            case 3:
                emit("mp gcd " + ab, "big-gcd");
                emit("mp lcm " + ab, "big-gcd");
                break;
            case 4:
                emit("mp invert " + ab, "big-invert");
                break;
            case 5: {
                // roots: random, and perfect powers +-1
                unsigned n = 1 + (unsigned)r.below(6);
                Z base = zabs(rand_z(r, std::max(2u, mb / n), false));
                Z v = zpow(base, n) + Z((long)r.range(-1, 1));
                if (r.coin(1, 3))
                    v = zabs(zparse(a));
                if (n % 2 == 1 && r.coin(1, 3))
                    v = -v;
                if (v < 0 && n % 2 == 0)
                    v = -v;
                emit("mp root " + zs(v) + " " + S(n), "big-root");
                if (v >= 0) {
                    emit("mp rootrem " + zs(v) + " " + S(n), "big-root");
                    emit("mp sqrtrem " + zs(v), "big-root");
                }
                break;
            }
            case 6: {
                // exact perfect powers up to 900 bits; perfect powers +-1 and random numbers only up to
                // ~100 bits: the Boost implementation (Newton from x = 1 for every prime exponent up to
                // log2 i) needs minutes beyond 256 bits and never finishes beyond 2^1024 (docs/C43.md)
                unsigned n = 2 + (unsigned)r.below(9);
                bool exact = r.coin(1, 3);
                unsigned bb = exact ? std::min(mb, 900u) : 100u;
                Z base = zabs(rand_z(r, std::max(2u, bb / n), false));
                Z v = zpow(base, n);
                if (!exact)
                    v = v + Z((long)r.range(-1, 1));
                if (!exact && r.coin(1, 4))
                    v = rand_z(r, 100);
                // the negative of an even power is not a perfect power: keep that case small as well
                if (r.coin(1, 4) && (!exact || n % 2 == 1 || bb <= 100))
                    v = -v;
                emit("mp perfect_power_p " + zs(v), exact ? "big-pp-exact" : "big-pp");
                emit("mp perfect_square_p " + zs(v), "big-pp");
                break;
            }
            case 7: {
                Z m = zparse(b);
                Z e = zabs(rand_z(r, 80, false));
                emit("mp powm " + a + " " + zs(e) + " " + zs(m), "big-powm");
                Z aa = zparse(a), g;
                mp_gcd(g, aa, m);
                if (g == 1)
                    emit("mp powm " + a + " " + zs(-e) + " " + zs(m), "big-powm-neg");
                break;
            }
            case 8: {
                Z n = zabs(rand_z(r, 80, false)) * 2 + 1;
                emit("mp jacobi " + big(r, 100) + " " + zs(n), "big-symbol");
                Z kn = rand_z(r, 80);
                if (kn != 0)
                    emit("mp kronecker " + big(r, 100) + " " + zs(kn), "big-symbol");
                Z p;
                mp_nextprime(p, zabs(rand_z(r, 60, false)) + 2);
                emit("mp legendre " + big(r, 100) + " " + zs(p), "big-symbol");
                break;
            }
            case 9: {
                Z v = zabs(rand_z(r, 64, false));
                emit("mp nextprime " + zs(v), "big-prime");
                emit("mp probab_prime_p " + zs(v), "big-prime");
                Z p;
                mp_nextprime(p, v);
                emit("mp probab_prime_p " + zs(p), "big-prime");
                break;
            }
            case 10:
                emit("mp and " + ab, "big-bits");
                emit("mp scan1 " + a, "big-bits");
                emit("mp shl " + a + " " + S(r.below(200)), "big-bits");
                if (a[0] != '-')
                    emit("mp shr " + a + " " + S(r.below(200)), "big-bits");
                break;
            case 11:
                emit("mp arith " + ab, "big-arith");
                emit("mp hex " + a, "big-arith");
                emit("mp cmpabs " + ab, "big-arith");
                emit("mp addmul " + big(r, mb) + " " + ab, "big-arith");
                break;
            case 12: {
                Z q = zparse(a), d = zparse(b);
                emit("mp divexact " + zs(q * d) + " " + b, "big-div");
                emit("mp divisible_p " + zs(q * d + Z((long)r.below(2))) + " " + b, "big-div");
                emit("mp pow_ui " + big(r, 100) + " " + S(r.below(40)), "big-arith");
                break;
            }
            default: {
                std::string d1 = big(r, 80), d2 = big(r, 80);
                if (d1 == "0")
                    d1 = "1";
                if (d2 == "0")
                    d2 = "-1";
                emit("mp q " + big(r, 120) + " " + d1 + " " + big(r, 120) + " " + d2 + " " + S(r.below(12)), "big-rational");
                break;
            }
        }
    }
    // ---- workload (expected results tabulated from the GMP build; see docs/C43.md)
    for (auto fam : WORK_FAMILIES) {
        unsigned long cnt = th ? WORK_TABLE : 12;
        unsigned long start = th ? 0 : r.below(WORK_TABLE - cnt + 1);
        for (unsigned long k = start; k < start + cnt; k++)
            emit(std::string("work ") + fam + " " + std::to_string(k), std::string("work-") + fam);
    }
}
