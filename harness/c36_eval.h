// Independent numeric evaluator used by the C36 and C37 oracles.
//
// Expressions are walked through their *stored fields* (coef_/dict_ of Add and Mul, base/exp of
// Pow, get_arg(s) of functions) and evaluated over std::complex<long double> with principal
// branches.  Nothing here calls the library's eval_double / eval_complex_double / subs / expand.
//   Symbol            environment lookup (missing symbols get a value hashed from the name)
//   FunctionSymbol    a fixed analytic body per (name, arity)
//   Unsup             outside what is implemented (case skipped by the caller, counted)
//   Sing              the point is singular / too close to a pole or a branch point (point discarded)
#ifndef VERIF_C36_EVAL_H
#define VERIF_C36_EVAL_H
#include "common.h"
#include "sexp.h"
#include <cmath>
#include <complex>
#include <symengine/visitor.h>

namespace nev
{
using namespace SymEngine;
typedef long double R;
typedef std::complex<R> C;

struct Unsup {
    std::string why;
    explicit Unsup(const std::string &w) : why(w) {}
};
struct Sing {
    std::string why;
    explicit Sing(const std::string &w) : why(w) {}
};

struct Env {
    std::map<std::string, C> sym;
    uint64_t salt = 0;
    bool cut_guard = true; // discard points closer than 1e-6 (relative) to a branch cut
    mutable R min_cut_dist = 1e30L;
};

inline uint64_t strhash(const std::string &s, uint64_t salt)
{
    uint64_t h = 1469598103934665603ULL ^ (salt * 0x9E3779B97F4A7C15ULL);
    for (unsigned char c : s) {
        h ^= c;
        h *= 1099511628211ULL;
    }
    h ^= h >> 29;
    h *= 0xBF58476D1CE4E5B9ULL;
    h ^= h >> 32;
    return h;
}
inline R unit(uint64_t h) // in (0,1)
{
    return ((R)((h >> 11) % 1000003ULL) + 0.5L) / 1000003.0L;
}
inline C fix0(C z)
{
    // -0.0 in the imaginary part would select the lower side of a cut
    if (z.imag() == 0)
        z = C(z.real(), 0.0L);
    if (z.real() == 0)
        z = C(0.0L, z.imag());
    return z;
}
inline C mpz_c(const integer_class &z)
{
    return C((R)mp_get_d(z), 0);
}
inline C mpq_c(const rational_class &q)
{
    // exact enough for the sizes generated here (|num|,|den| < 2^53 mostly); larger values lose
    // relative 1e-16, far below the comparison tolerance
    return C((R)mp_get_d(get_num(q)) / (R)mp_get_d(get_den(q)), 0);
}
inline void guard_neg_real_cut(const C &z, const Env &env, const char *what)
{
    // principal log / non-integer power: cut along the negative real axis
    R m = std::abs(z);
    if (m < 1e-12L)
        throw Sing(std::string(what) + " of ~0");
    if (z.real() < 0) {
        R d = std::fabs(z.imag()) / m;
        if (d < env.min_cut_dist)
            env.min_cut_dist = d;
        if (env.cut_guard && d < 1e-6L && d != 0)
            throw Sing(std::string(what) + " near cut");
    }
}
inline C clog(const C &z, const Env &env)
{
    guard_neg_real_cut(z, env, "log");
    return std::log(fix0(z));
}
inline C ipow(C b, long n)
{
    bool inv = n < 0;
    unsigned long m = inv ? (unsigned long)(-n) : (unsigned long)n;
    C r(1, 0);
    while (m) {
        if (m & 1)
            r *= b;
        b *= b;
        m >>= 1;
    }
    if (inv) {
        if (std::abs(r) < 1e-200L)
            throw Sing("0**negative");
        return C(1, 0) / r;
    }
    return r;
}
inline C cpow(const C &b, const C &e, const Env &env)
{
    if (b == C(0, 0)) {
        if (e == C(0, 0))
            return C(1, 0);
        if (e.real() > 0)
            return C(0, 0);
        throw Sing("0**non-positive");
    }
    return std::exp(e * clog(b, env));
}

inline C fbody(const std::string &name, const std::vector<C> &a)
{
    // arbitrary but fixed analytic bodies: distinct per name and sensitive to every argument
    uint64_t h = strhash(name, 77);
    C acc(unit(h) - 0.5L, unit(h >> 7) - 0.5L);
    for (size_t i = 0; i < a.size(); i++) {
        C c1(1.0L + unit(h >> (3 + i)), 0.25L * (R)(i + 1));
        acc = acc + c1 * a[i] + C(0.125L * (R)(i + 1), 0) * a[i] * a[i] * (i % 2 ? C(0, 1) : C(1, 0));
    }
    return acc;
}

inline C ev(const Basic &b, const Env &env);
inline C ev(const RCP<const Basic> &b, const Env &env)
{
    return ev(*b, env);
}

inline bool is_real(const C &z)
{
    return std::fabs(z.imag()) <= 1e-13L * (1 + std::fabs(z.real()));
}

inline C ev(const Basic &b, const Env &env)
{
    const C I_(0, 1);
    switch (b.get_type_code()) {
        case SYMENGINE_INTEGER:
            return mpz_c(down_cast<const Integer &>(b).as_integer_class());
        case SYMENGINE_RATIONAL:
            return mpq_c(down_cast<const Rational &>(b).as_rational_class());
        case SYMENGINE_COMPLEX: {
            const Complex &c = down_cast<const Complex &>(b);
            return C(mpq_c(c.real_).real(), mpq_c(c.imaginary_).real());
        }
        case SYMENGINE_REAL_DOUBLE:
            return C(down_cast<const RealDouble &>(b).i, 0);
        case SYMENGINE_COMPLEX_DOUBLE: {
            auto z = down_cast<const ComplexDouble &>(b).i;
            return C(z.real(), z.imag());
        }
        case SYMENGINE_SYMBOL: {
            const std::string &n = down_cast<const Symbol &>(b).get_name();
            auto it = env.sym.find(n);
            if (it != env.sym.end())
                return it->second;
            uint64_t h = strhash(n, env.salt);
            return C(0.3L + 1.7L * unit(h), -0.9L + 1.8L * unit(h >> 13));
        }
        case SYMENGINE_CONSTANT: {
            const std::string &n = down_cast<const Constant &>(b).get_name();
            if (n == "pi")
                return C(3.14159265358979323846264338327950288L, 0);
            if (n == "E")
                return C(2.71828182845904523536028747135266250L, 0);
            if (n == "EulerGamma")
                return C(0.57721566490153286060651209008240243L, 0);
            if (n == "Catalan")
                return C(0.91596559417721901505460351493238411L, 0);
            if (n == "GoldenRatio")
                return C(1.61803398874989484820458683436563811L, 0);
            throw Unsup("constant " + n);
        }
        case SYMENGINE_ADD: {
            const Add &a = down_cast<const Add &>(b);
            C s = ev(*a.get_coef(), env);
            for (auto &p : a.get_dict())
                s += ev(*p.first, env) * ev(*p.second, env);
            return s;
        }
        case SYMENGINE_MUL: {
            const Mul &m = down_cast<const Mul &>(b);
            C s = ev(*m.get_coef(), env);
            for (auto &p : m.get_dict()) {
                if (is_a<Integer>(*p.second)
                    && mp_fits_slong_p(down_cast<const Integer &>(*p.second).as_integer_class())) {
                    s *= ipow(ev(*p.first, env), down_cast<const Integer &>(*p.second).as_int());
                } else if (is_a<Constant>(*p.first) && down_cast<const Constant &>(*p.first).get_name() == "E") {
                    s *= std::exp(ev(*p.second, env));
                } else {
                    s *= cpow(ev(*p.first, env), ev(*p.second, env), env);
                }
            }
            return s;
        }
        case SYMENGINE_POW: {
            const Pow &p = down_cast<const Pow &>(b);
            if (is_a<Integer>(*p.get_exp())
                && mp_fits_slong_p(down_cast<const Integer &>(*p.get_exp()).as_integer_class()))
                return ipow(ev(*p.get_base(), env), down_cast<const Integer &>(*p.get_exp()).as_int());
            if (is_a<Constant>(*p.get_base()) && down_cast<const Constant &>(*p.get_base()).get_name() == "E")
                return std::exp(ev(*p.get_exp(), env));
            return cpow(ev(*p.get_base(), env), ev(*p.get_exp(), env), env);
        }
        case SYMENGINE_FUNCTIONSYMBOL: {
            const FunctionSymbol &f = down_cast<const FunctionSymbol &>(b);
            std::vector<C> a;
            for (auto &x : f.get_args())
                a.push_back(ev(*x, env));
            return fbody(f.get_name() + "/" + std::to_string(a.size()), a);
        }
        default:
            break;
    }
    vec_basic args = b.get_args();
    auto one_arg = [&]() -> C {
        if (args.size() != 1)
            throw Unsup("arity");
        return ev(*args[0], env);
    };
    auto nz = [&](const C &d, const char *w) -> C {
        if (std::abs(d) < 1e-9L)
            throw Sing(w);
        return d;
    };
    switch (b.get_type_code()) {
        case SYMENGINE_SIN:
            return std::sin(one_arg());
        case SYMENGINE_COS:
            return std::cos(one_arg());
        case SYMENGINE_TAN: {
            C z = one_arg();
            return std::sin(z) / nz(std::cos(z), "tan pole");
        }
        case SYMENGINE_COT: {
            C z = one_arg();
            return std::cos(z) / nz(std::sin(z), "cot pole");
        }
        case SYMENGINE_SEC:
            return C(1, 0) / nz(std::cos(one_arg()), "sec pole");
        case SYMENGINE_CSC:
            return C(1, 0) / nz(std::sin(one_arg()), "csc pole");
        case SYMENGINE_SINH:
            return std::sinh(one_arg());
        case SYMENGINE_COSH:
            return std::cosh(one_arg());
        case SYMENGINE_TANH: {
            C z = one_arg();
            return std::sinh(z) / nz(std::cosh(z), "tanh pole");
        }
        case SYMENGINE_COTH: {
            C z = one_arg();
            return std::cosh(z) / nz(std::sinh(z), "coth pole");
        }
        case SYMENGINE_SECH:
            return C(1, 0) / nz(std::cosh(one_arg()), "sech pole");
        case SYMENGINE_CSCH:
            return C(1, 0) / nz(std::sinh(one_arg()), "csch pole");
        case SYMENGINE_LOG:
            return clog(one_arg(), env);
        case SYMENGINE_ABS:
            return C(std::abs(one_arg()), 0);
        case SYMENGINE_SIGN: {
            C z = one_arg();
            R m = std::abs(z);
            if (m == 0)
                return C(0, 0);
            if (m < 1e-12L)
                throw Sing("sign near 0");
            return z / m;
        }
        case SYMENGINE_CONJUGATE:
            return std::conj(one_arg());
        case SYMENGINE_UNEVALUATED_EXPR:
            return one_arg();
        // inverse functions through their logarithmic definitions (principal branches as in
        // Abramowitz-Stegun / SymPy); points near the cuts are discarded by clog/cpow guards
        case SYMENGINE_ASIN: {
            C z = one_arg();
            return -I_ * clog(I_ * z + cpow(C(1, 0) - z * z, C(0.5L, 0), env), env);
        }
        case SYMENGINE_ACOS: {
            C z = one_arg();
            C as = -I_ * clog(I_ * z + cpow(C(1, 0) - z * z, C(0.5L, 0), env), env);
            return C(1.57079632679489661923132169163975144L, 0) - as;
        }
        case SYMENGINE_ATAN: {
            C z = one_arg();
            nz(C(1, 0) + z * z, "atan branch point");
            return (I_ / C(2, 0)) * (clog(C(1, 0) - I_ * z, env) - clog(C(1, 0) + I_ * z, env));
        }
        case SYMENGINE_ACOT: {
            C z = nz(one_arg(), "acot 0");
            C w = C(1, 0) / z;
            nz(C(1, 0) + w * w, "acot branch point");
            return (I_ / C(2, 0)) * (clog(C(1, 0) - I_ * w, env) - clog(C(1, 0) + I_ * w, env));
        }
        case SYMENGINE_ASEC: {
            C z = nz(one_arg(), "asec 0");
            C w = C(1, 0) / z;
            C as = -I_ * clog(I_ * w + cpow(C(1, 0) - w * w, C(0.5L, 0), env), env);
            return C(1.57079632679489661923132169163975144L, 0) - as;
        }
        case SYMENGINE_ACSC: {
            C z = nz(one_arg(), "acsc 0");
            C w = C(1, 0) / z;
            return -I_ * clog(I_ * w + cpow(C(1, 0) - w * w, C(0.5L, 0), env), env);
        }
        case SYMENGINE_ASINH: {
            C z = one_arg();
            return clog(z + cpow(z * z + C(1, 0), C(0.5L, 0), env), env);
        }
        case SYMENGINE_ACOSH: {
            C z = one_arg();
            return clog(z + cpow(z + C(1, 0), C(0.5L, 0), env) * cpow(z - C(1, 0), C(0.5L, 0), env), env);
        }
        case SYMENGINE_ATANH: {
            C z = one_arg();
            return (clog(C(1, 0) + z, env) - clog(C(1, 0) - z, env)) / C(2, 0);
        }
        case SYMENGINE_ATAN2: {
            if (args.size() != 2)
                throw Unsup("arity");
            C y = ev(*args[0], env), x = ev(*args[1], env);
            if (is_real(y) && is_real(x)) {
                if (std::fabs(y.real()) < 1e-12L && x.real() <= 1e-12L)
                    throw Sing("atan2 on the cut");
                return C(std::atan2(y.real(), x.real()), 0);
            }
            // complex arguments: -i*log((x + i*y)/sqrt(x^2 + y^2))
            C r2 = x * x + y * y;
            C s = cpow(r2, C(0.5L, 0), env);
            return -I_ * clog((x + I_ * y) / nz(s, "atan2 0,0"), env);
        }
        case SYMENGINE_GAMMA: {
            C z = one_arg();
            if (!is_real(z))
                throw Unsup("gamma of a non-real point");
            R x = z.real();
            if (x <= 0 && std::fabs(x - std::round(x)) < 1e-9L)
                throw Sing("gamma pole");
            if (std::fabs(x) > 50)
                throw Sing("gamma overflow");
            return C(std::tgamma(x), 0);
        }
        case SYMENGINE_ERF: {
            C z = one_arg();
            if (!is_real(z))
                throw Unsup("erf of a non-real point");
            return C(std::erf(z.real()), 0);
        }
        case SYMENGINE_ERFC: {
            C z = one_arg();
            if (!is_real(z))
                throw Unsup("erfc of a non-real point");
            return C(std::erfc(z.real()), 0);
        }
        case SYMENGINE_MAX:
        case SYMENGINE_MIN: {
            bool mx = b.get_type_code() == SYMENGINE_MAX;
            R best = 0;
            bool first = true;
            for (auto &a : args) {
                C v = ev(*a, env);
                if (!is_real(v))
                    throw Unsup("max/min of a non-real point");
                if (first || (mx ? v.real() > best : v.real() < best))
                    best = v.real();
                first = false;
            }
            return C(best, 0);
        }
        default:
            throw Unsup("class " + type_code_name(b.get_type_code()));
    }
}

// |a - b| <= tol * max(1, |a|, |b|)
inline bool close(const C &a, const C &b, R tol)
{
    R m = std::max((R)1, std::max(std::abs(a), std::abs(b)));
    return std::abs(a - b) <= tol * m;
}
inline bool finite(const C &a)
{
    return std::isfinite(a.real()) && std::isfinite(a.imag()) && std::abs(a) < 1e200L;
}

// Compare two expressions at `npoints` random points.  Returns +1 all judged points agree,
// 0 nothing could be judged, -1 some point disagrees (detail filled).  `positive`: symbols take
// positive real values, otherwise generic complex values.
inline int compare_at_points(const Basic &a, const Basic &b, uint64_t seed, int npoints, bool positive, R tol,
                             std::string &detail, int *judged_out = nullptr, int *discarded_out = nullptr)
{
    set_basic syms = free_symbols(a);
    set_basic sb = free_symbols(b);
    syms.insert(sb.begin(), sb.end());
    int judged = 0, discarded = 0;
    for (int k = 0; k < npoints; k++) {
        Env env;
        env.salt = seed * 1315423911ULL + (uint64_t)k;
        for (auto &s : syms) {
            const std::string &n = down_cast<const Symbol &>(*s).get_name();
            uint64_t h = strhash(n, env.salt);
            if (positive)
                env.sym[n] = C(0.2L + 3.3L * unit(h), 0);
            else
                env.sym[n] = C(-1.6L + 3.2L * unit(h), -1.3L + 2.6L * unit(h >> 17));
        }
        try {
            C va = ev(a, env), vb = ev(b, env);
            if (!finite(va) || !finite(vb)) {
                discarded++;
                continue;
            }
            judged++;
            if (!close(va, vb, tol)) {
                std::ostringstream ss;
                ss.precision(12);
                ss << "point#" << k << " lhs=(" << (double)va.real() << "," << (double)va.imag() << ") rhs=("
                   << (double)vb.real() << "," << (double)vb.imag() << ")";
                for (auto &kv : env.sym)
                    ss << " " << kv.first << "=(" << (double)kv.second.real() << "," << (double)kv.second.imag()
                       << ")";
                detail = ss.str();
                if (judged_out)
                    *judged_out = judged;
                if (discarded_out)
                    *discarded_out = discarded;
                return -1;
            }
        } catch (const Sing &) {
            discarded++;
        }
    }
    if (judged_out)
        *judged_out = judged;
    if (discarded_out)
        *discarded_out = discarded;
    return judged > 0 ? 1 : 0;
}

} // namespace nev
#endif
