// C04: canonical form is unique - results ignore operand order and grouping.
//
// Op line:   perm <kind> <A1> ... <An>      kind = add | mul | max | min | and | or ;  2 <= n <= 8
// operands are canonical dumps (harness/sexp.h; Max/Min arguments sorted by their own dump).
//
// The harness combines the n operands on the real library in MANY ways:
//   * every binary bracketing of every permutation, *exhaustively*, by dynamic programming over the
//     sub-multisets:  res(S) = { op(r1, r2) : S = S1 + S2 (ordered split), r1 in res(S1), r2 in res(S2) }
//     (3^n pairwise calls; if the property holds every res(S) is a singleton);
//   * the n-ary function on every permutation (n <= 5; sampled above);
//   * mixed groupings: n-ary over blocks, then n-ary over the block results (sampled).
// Output:  "<c> <dump of the left fold in the listed order>",  c = 1 all variants structurally identical
// (same dump, eq() true), c = 0 some differ, c = U the operands lie in a class for which the property is a
// *known* defect of the library (the flag is then reported through the oracle only).
// Oracle (the property itself, independent of the Lean model):
//   FAIL:order:<class>: sub-multiset, the two differing variants and their results.
#include "common.h"
#include "sexp.h"
#include <csetjmp>
#include <csignal>
#include <set>

using namespace SymEngine;

// ------------------------------------------------------------------ canonical dump (Max/Min sorted)
static std::string cdump(const Basic &b)
{
    if (is_a<Max>(b) || is_a<Min>(b)) {
        std::vector<std::string> items;
        for (auto &a : b.get_args())
            items.push_back(cdump(*a));
        return vsexp::dump_sorted(is_a<Max>(b) ? "Max" : "Min", items);
    }
    return vsexp::dump(b);
}

enum Kind { K_ADD, K_MUL, K_MAX, K_MIN, K_AND, K_OR, K_BAD };
static Kind kind_of(const std::string &s)
{
    if (s == "add")
        return K_ADD;
    if (s == "mul")
        return K_MUL;
    if (s == "max")
        return K_MAX;
    if (s == "min")
        return K_MIN;
    if (s == "and")
        return K_AND;
    if (s == "or")
        return K_OR;
    return K_BAD;
}
static const char *kind_name(Kind k)
{
    static const char *n[] = {"add", "mul", "max", "min", "and", "or", "?"};
    return n[k];
}

struct Val {
    RCP<const Basic> e; // null: the construction threw
    std::string d;      // dump, or the error token
};

static Val mk(const RCP<const Basic> &e)
{
    return Val{e, cdump(*e)};
}

static RCP<const Basic> raw_apply(Kind k, const vec_basic &v)
{
    switch (k) {
        case K_ADD:
            return v.size() == 2 ? add(v[0], v[1]) : add(v);
        case K_MUL:
            return v.size() == 2 ? mul(v[0], v[1]) : mul(v);
        case K_MAX:
            return max(v);
        case K_MIN:
            return min(v);
        case K_AND:
        case K_OR: {
            set_boolean s;
            for (auto &x : v)
                s.insert(vsexp::as_bool(x));
            return k == K_AND ? rcp_static_cast<const Basic>(logical_and(s))
                              : rcp_static_cast<const Basic>(logical_or(s));
        }
        default:
            throw std::runtime_error("kind");
    }
}

// `nary`: use the vector entry point even for two operands
static Val apply(Kind k, const std::vector<Val> &v, bool nary)
{
    vec_basic a;
    for (auto &x : v) {
        if (x.e.is_null())
            return x; // an error propagates
        a.push_back(x.e);
    }
    try {
        if (nary && (k == K_ADD))
            return mk(add(a));
        if (nary && (k == K_MUL))
            return mk(mul(a));
        return mk(raw_apply(k, a));
    } catch (const SymEngine::VerifAssertError &e) {
        return Val{RCP<const Basic>(), "E:Assert"};
    } catch (const std::exception &e) {
        return Val{RCP<const Basic>(), exc_name(e)};
    }
}

// ------------------------------------------------------------------ operand classes
// The library's normal forms are not confluent on all exact operands (docs/C04.md).  The predicates
// below are the same decidable predicates as `AC.addOperandSafe` / `AC.mulOperandSafe` of the Lean model
// (lean/SymVerif/Model/AC.lean), evaluated on the real objects; outside them an order-dependent result
// is a *known* finding, inside them it is a fresh violation.
static bool is_perfect_power(const integer_class &a) // a >= 2
{
    return mpz_perfect_power_p(get_mpz_t(a)) != 0;
}
static bool atom_base(const Basic &b)
{
    return !is_a_Number(b) && !is_a<Mul>(b) && !is_a<Pow>(b);
}
static bool safe_rad_base(const Basic &b)
{
    if (!is_a<Integer>(b))
        return false;
    const integer_class &i = down_cast<const Integer &>(b).as_integer_class();
    return i >= 2 && !is_perfect_power(i);
}
static bool add_operand_safe(const Basic &a)
{
    if (is_a<Mul>(a)) {
        const Mul &m = down_cast<const Mul &>(a);
        if (m.get_dict().size() == 1) {
            auto p = m.get_dict().begin();
            return !(is_a<Add>(*p->first) && eq(*p->second, *one));
        }
        return true;
    }
    if (is_a<Add>(a)) {
        for (auto &p : down_cast<const Add &>(a).get_dict())
            if (is_a<Add>(*p.first))
                return false;
        return true;
    }
    return true;
}
static bool factor_safe(const Basic &b, const Basic &e)
{
    return (atom_base(b) && add_operand_safe(e)) || (safe_rad_base(b) && is_a<Rational>(e));
}
static bool mul_operand_safe(const Basic &a)
{
    if (is_a<Mul>(a)) {
        for (auto &p : down_cast<const Mul &>(a).get_dict())
            if (!factor_safe(*p.first, *p.second))
                return false;
        return true;
    }
    if (is_a<Pow>(a)) {
        const Pow &p = down_cast<const Pow &>(a);
        return factor_safe(*p.get_base(), *p.get_exp());
    }
    return is_a_Number(a) || atom_base(a);
}

// the numeric-exponent fragment on which the Mul theorems of Props/C04 are proved (`AC.mulFragSyntactic`);
// used for the statistics only
static bool mul_frag_syntactic(const Basic &a)
{
    auto fac = [](const Basic &b, const Basic &e) { return atom_base(b) && is_a_Number(e); };
    if (is_a<Mul>(a)) {
        for (auto &p : down_cast<const Mul &>(a).get_dict())
            if (!fac(*p.first, *p.second))
                return false;
        return true;
    }
    if (is_a<Pow>(a))
        return fac(*down_cast<const Pow &>(a).get_base(), *down_cast<const Pow &>(a).get_exp());
    if (is_a_Number(a))
        return !down_cast<const Number &>(a).is_zero();
    return atom_base(a);
}

// the symbolic-exponent fragment (`AC.mulFragSyntacticS`): mul_operand_safe without numeric radicals and zero
static bool mul_frag_symbolic(const Basic &a)
{
    auto fac = [](const Basic &b, const Basic &e) { return atom_base(b) && add_operand_safe(e); };
    if (is_a<Mul>(a)) {
        for (auto &p : down_cast<const Mul &>(a).get_dict())
            if (!fac(*p.first, *p.second))
                return false;
        return true;
    }
    if (is_a<Pow>(a))
        return fac(*down_cast<const Pow &>(a).get_base(), *down_cast<const Pow &>(a).get_exp());
    if (is_a_Number(a))
        return !down_cast<const Number &>(a).is_zero();
    return atom_base(a);
}

// descriptive tags for the statistics / the oracle text: *why* an operand is outside the safe class
struct Classes {
    bool rad_neg = false;     // numeric radical with a negative base            (-2)**(1/3)
    bool rad_pp = false;      // numeric radical whose base is a perfect power   4**(1/3)
    bool rad_gauss = false;   // Gaussian base with a rational exponent          I**(1/2)
    bool mul_base = false;    // a product as the base of a factor               (x*y)**(1/2), (-x)**y
    bool pow_base = false;    // a power as the base of a factor                 (x**y)**z
    bool num_symexp = false;  // number raised to a non-numeric exponent         2**x
    bool sum_term = false;    // a sum as a term of a sum / c*(sum)              2*(x+y)
    bool exp_sum_term = false; // the same inside an exponent                    x**(2*(y+z))
    bool other = false;
    std::string str() const
    {
        std::string s;
        if (rad_neg)
            s += "+rad-negbase";
        if (rad_pp)
            s += "+rad-perfectpower";
        if (rad_gauss)
            s += "+rad-gaussian";
        if (mul_base)
            s += "+mulbase";
        if (pow_base)
            s += "+powbase";
        if (num_symexp)
            s += "+num-symexp";
        if (sum_term)
            s += "+sum-as-term";
        if (exp_sum_term)
            s += "+exp-sum-as-term";
        if (other)
            s += "+other";
        return s.empty() ? "safe" : s.substr(1);
    }
};
static void why_factor(const Basic &b, const Basic &e, Classes &c)
{
    if (factor_safe(b, e))
        return;
    bool any = false;
    if (is_a<Integer>(b) && is_a<Rational>(e)) {
        const integer_class &i = down_cast<const Integer &>(b).as_integer_class();
        if (i < 0)
            c.rad_neg = any = true;
        else if (i >= 2 && is_perfect_power(i))
            c.rad_pp = any = true;
    }
    if (is_a<Complex>(b) && is_a_Number(e))
        c.rad_gauss = any = true;
    if (is_a<Mul>(b))
        c.mul_base = any = true;
    if (is_a<Pow>(b))
        c.pow_base = any = true;
    if (is_a_Number(b) && !is_a_Number(e))
        c.num_symexp = any = true;
    if (atom_base(b) && !add_operand_safe(e))
        c.exp_sum_term = any = true;
    if (!any)
        c.other = true;
}
static void why(Kind k, const Basic &a, Classes &c)
{
    if (k == K_ADD) {
        if (!add_operand_safe(a))
            c.sum_term = true;
    } else if (k == K_MUL) {
        if (mul_operand_safe(a))
            return;
        if (is_a<Mul>(a)) {
            for (auto &p : down_cast<const Mul &>(a).get_dict())
                why_factor(*p.first, *p.second, c);
        } else if (is_a<Pow>(a)) {
            const Pow &p = down_cast<const Pow &>(a);
            why_factor(*p.get_base(), *p.get_exp(), c);
        } else
            c.other = true;
    }
}

// ------------------------------------------------------------------ the variants
struct Found {
    Val v;
    std::string how;
};

static uint64_t fnv(const std::string &s)
{
    uint64_t h = 1469598103934665603ULL;
    for (unsigned char ch : s) {
        h ^= ch;
        h *= 1099511628211ULL;
    }
    return h;
}

struct Outcome {
    bool all_same = true;
    std::string first;  // dump of the left fold in the listed order
    std::string detail; // two differing variants
    long variants = 0;
};

static Outcome run_variants(Kind k, const std::vector<Val> &ops, uint64_t seed)
{
    Outcome out;
    size_t n = ops.size();
    // left fold in the listed order
    {
        Val acc = ops[0];
        for (size_t i = 1; i < n; i++)
            acc = apply(k, {acc, ops[i]}, false);
        out.first = acc.d;
    }
    // (1) exhaustive binary bracketings of all permutations: DP over sub-multisets
    const size_t CAP = 4;
    size_t full = ((size_t)1 << n) - 1;
    std::vector<std::vector<Found>> res(full + 1);
    for (size_t i = 0; i < n; i++)
        res[(size_t)1 << i].push_back(Found{ops[i], std::to_string(i)});
    size_t bad_mask = 0;
    for (size_t mask = 1; mask <= full; mask++) {
        if ((mask & (mask - 1)) == 0)
            continue;
        auto &cur = res[mask];
        for (size_t sub = (mask - 1) & mask; sub > 0; sub = (sub - 1) & mask) {
            size_t oth = mask ^ sub;
            for (auto &r1 : res[sub])
                for (auto &r2 : res[oth]) {
                    Val v = apply(k, {r1.v, r2.v}, false);
                    out.variants++;
                    bool seen = false;
                    for (auto &f : cur)
                        if (f.v.d == v.d) {
                            seen = true;
                            // eq() must agree with structural identity of the dumps
                            if (!v.e.is_null() && !f.v.e.is_null() && !eq(*v.e, *f.v.e)) {
                                out.all_same = false;
                                if (out.detail.empty())
                                    out.detail = "same dump but eq() false: " + v.d;
                            }
                            break;
                        }
                    if (!seen && cur.size() < CAP)
                        cur.push_back(Found{v, "(" + r1.how + " " + r2.how + ")"});
                }
        }
        if (cur.size() > 1) {
            if (bad_mask == 0 || __builtin_popcountll(mask) < __builtin_popcountll(bad_mask))
                bad_mask = mask;
        }
    }
    if (bad_mask) {
        out.all_same = false;
        auto &c = res[bad_mask];
        std::string sel;
        for (size_t i = 0; i < n; i++)
            if (bad_mask >> i & 1)
                sel += (sel.empty() ? "" : ",") + std::to_string(i) + "=" + ops[i].d;
        // eq() of the two differing results (should be false; if true the dump is not faithful)
        bool e = !c[0].v.e.is_null() && !c[1].v.e.is_null() && eq(*c[0].v.e, *c[1].v.e);
        out.detail = "operands {" + sel + "}: " + c[0].how + " => " + c[0].v.d + "  ;;  " + c[1].how + " => " + c[1].v.d
                     + (e ? "  (eq() says equal)" : "");
    }
    const Val &ref = res[full][0].v;
    // (2) n-ary on permutations
    std::vector<size_t> idx(n);
    for (size_t i = 0; i < n; i++)
        idx[i] = i;
    Rng r(seed);
    auto nary_of = [&](const std::vector<size_t> &p, size_t lo, size_t hi) {
        std::vector<Val> v;
        for (size_t i = lo; i < hi; i++)
            v.push_back(ops[p[i]]);
        if (v.size() == 1)
            return v[0];
        return apply(k, v, true);
    };
    auto check = [&](const Val &v, const std::string &how) {
        out.variants++;
        if (v.d != ref.d) {
            out.all_same = false;
            if (out.detail.empty())
                out.detail = "binary " + res[full][0].how + " => " + ref.d + "  ;;  " + how + " => " + v.d;
        } else if (!v.e.is_null() && !ref.e.is_null()) {
            if (!eq(*v.e, *ref.e)) {
                out.all_same = false;
                if (out.detail.empty())
                    out.detail = "same dump but eq() false: " + v.d;
            } else if (v.e->hash() != ref.e->hash() || v.e->__str__() != ref.e->__str__()) {
                out.all_same = false;
                if (out.detail.empty())
                    out.detail = "same dump but hash/str differ: " + v.e->__str__() + " vs " + ref.e->__str__();
            }
        }
    };
    auto pstr = [&](const std::vector<size_t> &p) {
        std::string s = "nary[";
        for (size_t i = 0; i < p.size(); i++)
            s += (i ? " " : "") + std::to_string(p[i]);
        return s + "]";
    };
    if (n <= 5) {
        std::vector<size_t> p = idx;
        do {
            check(nary_of(p, 0, n), pstr(p));
        } while (std::next_permutation(p.begin(), p.end()));
    } else {
        for (int t = 0; t < 120; t++) {
            std::vector<size_t> p = idx;
            for (size_t i = n - 1; i > 0; i--)
                std::swap(p[i], p[r.below(i + 1)]);
            check(nary_of(p, 0, n), pstr(p));
        }
    }
    // (3) mixed: n-ary over consecutive blocks of a random permutation, then n-ary over the block results
    if (n >= 3)
        for (int t = 0; t < 40; t++) {
            std::vector<size_t> p = idx;
            for (size_t i = n - 1; i > 0; i--)
                std::swap(p[i], p[r.below(i + 1)]);
            std::vector<Val> blocks;
            std::string how = "blocks";
            size_t lo = 0;
            while (lo < n) {
                size_t len = 1 + r.below(n - lo);
                if (lo == 0 && len == n)
                    len = n - 1;
                blocks.push_back(nary_of(p, lo, lo + len));
                how += "[";
                for (size_t i = lo; i < lo + len; i++)
                    how += (i > lo ? " " : "") + std::to_string(p[i]);
                how += "]";
                lo += len;
            }
            check(apply(k, blocks, true), how);
        }
    return out;
}

static std::vector<Val> build_operands(const std::vector<vsexp::Node> &nodes)
{
    std::vector<Val> ops;
    for (size_t i = 2; i < nodes.size(); i++)
        ops.push_back(mk(vsexp::build(nodes[i])));
    return ops;
}

std::string hx_run(const std::string &line, std::string &oracle)
{
    std::vector<vsexp::Node> nodes = vsexp::parse_all(line);
    if (nodes.size() < 4 || !nodes[0].is_atom() || nodes[0].atom != "perm" || !nodes[1].is_atom())
        return "bad-op";
    Kind k = kind_of(nodes[1].atom);
    if (k == K_BAD || nodes.size() - 2 > 8)
        return "bad-op";
    std::vector<Val> ops = build_operands(nodes);
    Classes c;
    bool unsafe = false;
    for (auto &o : ops) {
        why(k, *o.e, c);
        if ((k == K_ADD && !add_operand_safe(*o.e)) || (k == K_MUL && !mul_operand_safe(*o.e)))
            unsafe = true;
    }
    Outcome o = run_variants(k, ops, fnv(line));
    stat(std::string("ops:") + kind_name(k));
    stat("n=" + std::to_string(ops.size()));
    stat("variants", o.variants);
    stat("class:" + c.str());
    if (k == K_ADD && !unsafe)
        stat("theorem-fragment:add");
    if (k == K_MUL) {
        bool in = true, ins = true;
        for (auto &o2 : ops) {
            in = in && mul_frag_syntactic(*o2.e);
            ins = ins && mul_frag_symbolic(*o2.e);
        }
        if (in)
            stat("theorem-fragment:mul-numeric-exponents");
        else if (ins)
            stat("theorem-fragment:mul-symbolic-exponents");
        else if (!unsafe)
            stat("oracle-only-safe:mul");
    }
    if (!o.all_same) {
        stat(std::string("differ:") + (unsafe ? "known-class" : "NEW"));
        oracle = std::string("FAIL:order:") + kind_name(k) + ":" + (unsafe ? "known-class " : "unexpected-class ")
                 + c.str() + ": " + o.detail;
    }
    std::string flag = unsafe ? "U" : (o.all_same ? "1" : "0");
    return flag + " " + o.first;
}

// ------------------------------------------------------------------ generator
static sigjmp_buf g_jmp;
static volatile sig_atomic_t g_guard = 0;
static void on_crash(int sig)
{
    if (g_guard)
        siglongjmp(g_jmp, sig);
    signal(sig, SIG_DFL);
    raise(sig);
}

static bool int_small(const integer_class &i, long lim)
{
    return mp_abs(i) <= integer_class(lim);
}
static size_t bitlen(const integer_class &i)
{
    return mpz_sizeinbase(get_mpz_t(i), 2);
}

// inside the Lean model's fragment (Model/Arith.lean)?  `in_exp`: inside an exponent position
static bool in_fragment(const Basic &b, bool in_exp, int depth = 0)
{
    if (depth > 60)
        return false;
    switch (b.get_type_code()) {
        case SYMENGINE_INTEGER: {
            const integer_class &i = down_cast<const Integer &>(b).as_integer_class();
            if (in_exp)
                return int_small(i, 30);
            return bitlen(mp_abs(i)) <= 400;
        }
        case SYMENGINE_RATIONAL: {
            const rational_class &q = down_cast<const Rational &>(b).as_rational_class();
            if (in_exp)
                return int_small(get_num(q), 30) && int_small(get_den(q), 1000);
            return bitlen(mp_abs(get_num(q))) <= 400 && bitlen(get_den(q)) <= 400;
        }
        case SYMENGINE_COMPLEX: {
            const Complex &c = down_cast<const Complex &>(b);
            for (const rational_class *q : {&c.real_, &c.imaginary_}) {
                if (bitlen(mp_abs(get_num(*q))) > 400 || bitlen(get_den(*q)) > 400)
                    return false;
                if (in_exp && !(int_small(get_num(*q), 30) && int_small(get_den(*q), 1000)))
                    return false;
            }
            return true;
        }
        case SYMENGINE_SYMBOL:
        case SYMENGINE_CONSTANT:
            return true;
        case SYMENGINE_ADD: {
            const Add &a = down_cast<const Add &>(b);
            if (!in_fragment(*a.get_coef(), in_exp, depth + 1))
                return false;
            for (auto &p : a.get_dict())
                if (!in_fragment(*p.first, in_exp, depth + 1) || !in_fragment(*p.second, in_exp, depth + 1))
                    return false;
            return true;
        }
        case SYMENGINE_MUL: {
            const Mul &m = down_cast<const Mul &>(b);
            if (!in_fragment(*m.get_coef(), in_exp, depth + 1))
                return false;
            for (auto &p : m.get_dict())
                if (!in_fragment(*p.first, in_exp, depth + 1) || !in_fragment(*p.second, true, depth + 1))
                    return false;
            return true;
        }
        case SYMENGINE_POW: {
            const Pow &p = down_cast<const Pow &>(b);
            return in_fragment(*p.get_base(), in_exp, depth + 1) && in_fragment(*p.get_exp(), true, depth + 1);
        }
        case SYMENGINE_FUNCTIONSYMBOL:
        case SYMENGINE_SIN:
        case SYMENGINE_COS:
        case SYMENGINE_LOG: {
            for (auto &a : b.get_args())
                if (!in_fragment(*a, in_exp, depth + 1))
                    return false;
            return true;
        }
        default:
            return false;
    }
}

struct Gen {
    Rng &r;
    bool th;
    long emitted = 0;
    std::vector<RCP<const Basic>> atoms, nums, pool;
    explicit Gen(Rng &rr, bool t) : r(rr), th(t) {}

    template <class F>
    RCP<const Basic> guarded(F f)
    {
        RCP<const Basic> res;
        g_guard = 1;
        int sig = sigsetjmp(g_jmp, 1);
        if (sig == 0) {
            try {
                res = f();
            } catch (...) {
                res = RCP<const Basic>();
            }
        } else
            res = RCP<const Basic>();
        g_guard = 0;
        return res;
    }
    RCP<const Basic> gpow(const RCP<const Basic> &a, const RCP<const Basic> &b)
    {
        return guarded([&]() { return pow(a, b); });
    }
    RCP<const Basic> gmul(const RCP<const Basic> &a, const RCP<const Basic> &b)
    {
        return guarded([&]() { return mul(a, b); });
    }
    RCP<const Basic> gadd(const RCP<const Basic> &a, const RCP<const Basic> &b)
    {
        return guarded([&]() { return add(a, b); });
    }
    RCP<const Basic> rat(long lo, long hi, const std::vector<long> &dens)
    {
        long d = dens[r.below(dens.size())];
        long n = r.range(lo * d, hi * d);
        return Rational::from_two_ints(*integer(n), *integer(d));
    }
    size_t pick_n()
    {
        unsigned k = r.below(100);
        if (k < 20)
            return 2;
        if (k < 50)
            return 3;
        if (k < 75)
            return 4;
        if (k < 90)
            return 5;
        return 6 + r.below(3);
    }
    void shuffle(vec_basic &v)
    {
        for (size_t i = v.size(); i > 1; i--)
            std::swap(v[i - 1], v[r.below(i)]);
    }
    // emit one multiset (and sometimes a second listing of it)
    void out(const char *kind, vec_basic v, const std::string &tag, bool frag = true)
    {
        if (v.size() < 2)
            return;
        if (v.size() > 8)
            v.resize(8);
        size_t len = 0;
        for (auto &x : v) {
            if (x.is_null())
                return;
            if (frag && !in_fragment(*x, false))
                return;
            len += cdump(*x).size();
        }
        if (len > (th ? 900u : 500u))
            return;
        shuffle(v);
        int reps = r.coin(1, 4) ? 2 : 1;
        for (int t = 0; t < reps; t++) {
            std::string line = std::string("perm ") + kind;
            for (auto &x : v)
                line += " " + cdump(*x);
            emit(line, tag + "/" + kind + "/n" + std::to_string(v.size()));
            emitted++;
            shuffle(v);
        }
    }
};

static void seed(Gen &g)
{
    auto x = symbol("x"), y = symbol("y"), z = symbol("z");
    g.atoms = {x, y, z, pi, E, function_symbol("f", x), function_symbol("g", {x, y}), sin(x), log(y), cos(z)};
    for (long v : {0L, 1L, -1L, 2L, -2L, 3L, -3L, 4L, 5L, 6L, -6L, 7L, 12L, 100L})
        g.nums.push_back(integer(v));
    g.nums.push_back(integer(integer_class("100000000000000000000")));
    for (auto pq : std::vector<std::pair<long, long>>{{1, 2}, {-1, 2}, {1, 3}, {2, 3}, {-2, 3}, {3, 2}, {-3, 2}, {1, 4},
                                                       {3, 4}, {5, 2}, {-4, 9}, {7, 5}, {1, 6}})
        g.nums.push_back(rational(pq.first, pq.second));
    g.nums.push_back(I);
    g.nums.push_back(neg(I));
    g.nums.push_back(Complex::from_two_nums(*integer(1), *integer(1)));
    g.nums.push_back(Complex::from_two_nums(*rational(1, 2), *rational(-3, 4)));
    g.nums.push_back(Complex::from_two_nums(*integer(0), *rational(2, 3)));
    // pool: atoms, numbers and small compounds built through the API
    for (auto &a : g.atoms)
        g.pool.push_back(a);
    for (auto &a : g.nums)
        g.pool.push_back(a);
    std::vector<RCP<const Basic>> extra = {
        mul(x, y), mul(integer(2), x), neg(x), mul(rational(1, 2), mul(x, y)), mul(I, x), add(x, y), add(x, integer(1)),
        sub(x, y), add(mul(integer(2), x), mul(integer(3), y)), pow(x, integer(2)), pow(x, integer(-1)),
        pow(y, integer(3)), pow(x, y), pow(integer(2), x), sqrt(x), pow(x, rational(1, 3)), sqrt(integer(2)),
        pow(integer(2), rational(1, 3)), sqrt(integer(3)), sqrt(mul(x, y)), pow(add(x, integer(1)), integer(2)),
        pow(add(x, y), integer(-1)), mul(x, pow(y, integer(-1))), mul(integer(2), sqrt(integer(3))),
        mul(pow(x, integer(2)), y), mul(sqrt(integer(2)), x), add(sqrt(integer(2)), integer(1)), pow(pi, integer(2)),
        mul(integer(3), pi), pow(E, x), mul(integer(2), add(x, y)), mul(x, add(x, y)), pow(sin(x), integer(2))};
    for (auto &a : extra)
        g.pool.push_back(a);
}

static RCP<const Basic> pick(Gen &g)
{
    return g.pool[g.r.below(g.pool.size())];
}

// numeric radicals: one base, exponents that (often) sum to an integer
static void fam_radical(Gen &g, int rounds)
{
    Rng &r = g.r;
    std::vector<RCP<const Basic>> safe = {integer(2), integer(3), integer(5), integer(6), integer(7), integer(10),
                                          integer(12), integer(18)};
    std::vector<RCP<const Basic>> pp = {integer(4), integer(8), integer(9), integer(16), integer(27), integer(36)};
    std::vector<RCP<const Basic>> negb = {integer(-1), integer(-2), integer(-3), integer(-4), integer(-8)};
    std::vector<RCP<const Basic>> ratb = {rational(1, 2), rational(2, 3), rational(3, 2), rational(4, 9), rational(-1, 2),
                                          rational(5, 12)};
    std::vector<RCP<const Basic>> cplxb = {I, Complex::from_two_nums(*integer(1), *integer(1)), mul(integer(2), I)};
    auto x = symbol("x"), y = symbol("y");
    std::vector<RCP<const Basic>> symb = {x,          mul(x, y),  mul(integer(2), x), neg(x),   add(x, integer(1)),
                                          pow(x, y),  sin(x),     pi,                 E,        mul(integer(-3), mul(x, y)),
                                          mul(I, x),  pow(x, integer(2)), add(x, y), mul(rational(1, 2), x)};
    for (int k = 0; k < rounds; k++) {
        unsigned cls = r.below(100);
        RCP<const Basic> b;
        std::string tag;
        if (cls < 30) {
            b = r.pick(safe);
            tag = "rad-plain";
        } else if (cls < 42) {
            b = r.pick(pp);
            tag = "rad-perfectpower";
        } else if (cls < 54) {
            b = r.pick(negb);
            tag = "rad-negbase";
        } else if (cls < 64) {
            b = r.pick(ratb);
            tag = "rad-ratbase";
        } else if (cls < 70) {
            b = r.pick(cplxb);
            tag = "rad-gaussian";
        } else {
            b = r.pick(symb);
            tag = "rad-symbolic";
        }
        size_t n = g.pick_n();
        size_t extra = r.below(3);
        if (extra >= n)
            extra = 0;
        size_t m = n - extra;
        std::vector<long> dens = r.coin() ? std::vector<long>{2, 3, 4, 6} : std::vector<long>{2, 4};
        if (r.coin(1, 5))
            dens = {3, 5};
        vec_basic es;
        RCP<const Basic> sum = zero;
        for (size_t i = 0; i < m; i++) {
            RCP<const Basic> e;
            if (i + 1 == m && m >= 2 && r.coin()) {
                // make the total an integer
                e = sub(integer(r.range(-1, 2)), sum);
            } else if (cls >= 70 && r.coin(1, 4)) {
                e = r.coin() ? rcp_static_cast<const Basic>(y) : sub(rational(1, 2), y);
            } else {
                e = g.rat(-2, 2, dens);
            }
            sum = add(sum, e);
            es.push_back(e);
        }
        vec_basic v;
        for (auto &e : es)
            v.push_back(g.gpow(b, e));
        for (size_t i = 0; i < extra; i++) {
            unsigned q = r.below(4);
            if (q == 0)
                v.push_back(r.pick(g.nums));
            else if (q == 1)
                v.push_back(g.gpow(r.pick(safe), g.rat(-1, 2, {2, 3})));
            else
                v.push_back(pick(g));
        }
        g.out("mul", v, tag);
        if (r.coin(1, 4)) {
            // the same radicals as terms of a sum (coefficients merge, keys are Mul / Pow)
            vec_basic w;
            for (auto &t : v)
                w.push_back(g.gmul(r.pick(g.nums), t));
            g.out("add", w, tag);
        }
    }
}

// sums: coefficient merging, cancellation, nested sums, Mul keys
static void fam_add(Gen &g, int rounds)
{
    Rng &r = g.r;
    for (int k = 0; k < rounds; k++) {
        size_t n = g.pick_n();
        vec_basic v;
        size_t nterms = 1 + r.below(3);
        vec_basic terms;
        for (size_t i = 0; i < nterms; i++)
            terms.push_back(pick(g));
        bool cancel = r.coin();
        for (size_t i = 0; i < n; i++) {
            unsigned q = r.below(10);
            if (q < 5) {
                v.push_back(g.gmul(r.pick(g.nums), r.pick(terms)));
            } else if (q < 6) {
                v.push_back(r.pick(g.nums));
            } else if (q < 8 && cancel && !v.empty()) {
                auto t = r.pick(v);
                v.push_back(t.is_null() ? t : g.gmul(minus_one, t));
            } else if (q < 9) {
                v.push_back(g.gadd(g.gmul(r.pick(g.nums), r.pick(terms)), pick(g)));
            } else
                v.push_back(pick(g));
        }
        g.out("add", v, cancel ? "add-cancel" : "add-merge");
    }
}

// products: exponent merging with integer / symbolic exponents, cancellation a * a**-1, nested products
static void fam_mul(Gen &g, int rounds)
{
    Rng &r = g.r;
    auto x = symbol("x"), y = symbol("y");
    std::vector<RCP<const Basic>> es = {integer(1), integer(2), integer(-1), integer(-2), integer(3), x, y, neg(x),
                                        mul(integer(2), x), add(x, y), sub(integer(1), x), sub(integer(-1), y)};
    for (int k = 0; k < rounds; k++) {
        size_t n = g.pick_n();
        vec_basic v;
        size_t nb = 1 + r.below(3);
        vec_basic bases;
        for (size_t i = 0; i < nb; i++)
            bases.push_back(r.coin(2, 3) ? r.pick(g.atoms) : pick(g));
        bool intonly = r.coin();
        for (size_t i = 0; i < n; i++) {
            unsigned q = r.below(10);
            if (q < 6) {
                RCP<const Basic> e = intonly ? rcp_static_cast<const Basic>(integer(r.range(-3, 3))) : r.pick(es);
                v.push_back(g.gpow(r.pick(bases), e));
            } else if (q < 7) {
                v.push_back(r.pick(g.nums));
            } else if (q < 8 && !v.empty()) {
                auto t = r.pick(v);
                v.push_back(t.is_null() ? t : g.gpow(t, minus_one));
            } else if (q < 9) {
                v.push_back(g.gmul(g.gpow(r.pick(bases), integer(r.range(-2, 2))), pick(g)));
            } else
                v.push_back(pick(g));
        }
        g.out("mul", v, intonly ? "mul-intexp" : "mul-symexp");
    }
}

static void fam_random(Gen &g, int rounds)
{
    Rng &r = g.r;
    for (int k = 0; k < rounds; k++) {
        size_t n = g.pick_n();
        vec_basic v;
        for (size_t i = 0; i < n; i++) {
            auto a = pick(g);
            if (r.coin(1, 3)) {
                auto b = pick(g);
                a = r.coin() ? g.gadd(a, b) : g.gmul(a, b);
            }
            if (a.is_null())
                a = pick(g);
            v.push_back(a);
        }
        g.out(r.coin() ? "add" : "mul", v, "random");
    }
}

static void fam_maxmin(Gen &g, int rounds)
{
    Rng &r = g.r;
    auto x = symbol("x"), y = symbol("y"), z = symbol("z");
    std::vector<RCP<const Basic>> real_nums;
    for (auto &a : g.nums)
        if (!is_a<Complex>(*a))
            real_nums.push_back(a);
    std::vector<RCP<const Basic>> ats = {x, y, z, pi, sin(x), function_symbol("f", x), add(x, y), mul(integer(2), x),
                                         pow(x, integer(2)), sqrt(integer(2))};
    for (int k = 0; k < rounds; k++) {
        bool ismax = r.coin();
        size_t n = g.pick_n();
        vec_basic v;
        for (size_t i = 0; i < n; i++) {
            unsigned q = r.below(10);
            if (q < 4)
                v.push_back(r.pick(real_nums));
            else if (q < 8)
                v.push_back(r.pick(ats));
            else {
                // a nested Max/Min (flattening), or the dual
                vec_basic w = {r.pick(ats), r.coin() ? r.pick(ats) : r.pick(real_nums)};
                if (r.coin())
                    w.push_back(r.pick(real_nums));
                bool inner_max = r.coin(3, 4) ? ismax : !ismax;
                v.push_back(g.guarded([&]() { return inner_max ? max(w) : min(w); }));
            }
        }
        g.out(ismax ? "max" : "min", v, "maxmin", false);
    }
}

static void fam_logic(Gen &g, int rounds)
{
    Rng &r = g.r;
    auto x = symbol("x"), y = symbol("y"), z = symbol("z");
    std::vector<RCP<const Boolean>> ats
        = {Lt(x, y), Le(y, x), Lt(y, z), Le(z, y), Eq(x, z), Ne(x, z), Le(x, integer(1)), Lt(integer(1), x),
           boolTrue, boolFalse, contains(x, interval(integer(0), integer(1))), Eq(y, integer(2))};
    for (int k = 0; k < rounds; k++) {
        bool isand = r.coin();
        size_t n = g.pick_n();
        vec_basic v;
        for (size_t i = 0; i < n; i++) {
            unsigned q = r.below(10);
            if (q < 6)
                v.push_back(r.pick(ats));
            else {
                set_boolean s = {r.pick(ats), r.pick(ats)};
                if (r.coin())
                    s.insert(r.pick(ats));
                bool inner_and = r.coin() ? isand : !isand;
                v.push_back(g.guarded([&]() -> RCP<const Basic> {
                    return inner_and ? rcp_static_cast<const Basic>(logical_and(s))
                                     : rcp_static_cast<const Basic>(logical_or(s));
                }));
            }
        }
        g.out(isand ? "and" : "or", v, "logic", false);
    }
}

void hx_gen(Rng &r, const std::string &tier)
{
    signal(SIGFPE, on_crash);
    signal(SIGSEGV, on_crash);
    signal(SIGABRT, on_crash);
    bool th = tier == "thorough";
    Gen g(r, th);
    seed(g);
    int f = th ? 12 : 1;
    fam_radical(g, 900 * f);
    fam_add(g, 500 * f);
    fam_mul(g, 500 * f);
    fam_random(g, 400 * f);
    fam_maxmin(g, 250 * f);
    fam_logic(g, 150 * f);
}
