// Random *real* expression generator over the public API (shared by several harnesses).
// Everything derives from the Rng passed in.  Features are switched by flags so that a
// harness can stay inside the fragment its Lean model covers.
#ifndef VERIF_EXPRGEN_H
#define VERIF_EXPRGEN_H
#include "common.h"
#include "sexp.h"
#include <symengine/derivative.h>
#include <symengine/subs.h>

namespace vgen
{
using namespace SymEngine;

struct Opts {
    bool rationals = true;
    bool gaussian = false;      // Complex numbers
    bool floats = false;        // RealDouble leaves
    bool bigints = false;       // multi-limb integers
    bool constants = true;      // pi, E
    bool functions = true;      // sin, cos, log, abs, exp, gamma ...
    bool fsymbols = true;       // f(x), g(x,y)
    bool radicals = false;      // rational exponents
    bool symexp = false;        // symbolic exponents x**y
    bool negpow = true;         // negative integer powers
    bool binders = false;       // Derivative / Subs nodes
    bool infs = false;          // oo, zoo, nan
    int nsyms = 4;
};

inline RCP<const Basic> sym(int i)
{
    static const char *names[] = {"x", "y", "z", "w", "u", "v"};
    return symbol(names[i % 6]);
}

inline RCP<const Number> rand_num(Rng &r, const Opts &o)
{
    unsigned k = r.below(100);
    if (o.bigints && k < 8) {
        integer_class v(1);
        int limbs = 1 + (int)r.below(4);
        for (int i = 0; i < limbs; i++) {
            v = v * integer_class(4294967296UL) + integer_class((unsigned long)(r.next() & 0xffffffffUL));
        }
        if (r.coin())
            v = -v;
        return integer(v);
    }
    if (o.rationals && k < 30) {
        long n = r.range(-9, 9), d = r.range(2, 9);
        return Rational::from_two_ints(*integer(n), *integer(d));
    }
    if (o.gaussian && k < 40) {
        return Complex::from_two_nums(*integer(r.range(-3, 3)), *integer(r.range(1, 3)));
    }
    if (o.floats && k < 48) {
        static const double vals[] = {0.5, 1.5, -2.25, 3.0, 0.1, -0.75, 10.0, 1e-3};
        return real_double(vals[r.below(8)]);
    }
    if (o.infs && k < 52) {
        unsigned j = r.below(4);
        return j == 0 ? rcp_static_cast<const Number>(Inf)
                      : j == 1 ? rcp_static_cast<const Number>(NegInf)
                               : j == 2 ? rcp_static_cast<const Number>(ComplexInf)
                                        : rcp_static_cast<const Number>(Nan);
    }
    return integer(r.range(-6, 6));
}

inline RCP<const Basic> rand_expr(Rng &r, const Opts &o, int depth);

inline RCP<const Basic> rand_leaf(Rng &r, const Opts &o)
{
    unsigned k = r.below(100);
    if (k < 45)
        return sym((int)r.below(o.nsyms));
    if (o.constants && k < 52)
        return r.coin() ? rcp_static_cast<const Basic>(pi) : rcp_static_cast<const Basic>(E);
    return rand_num(r, o);
}

inline RCP<const Basic> rand_expr(Rng &r, const Opts &o, int depth)
{
    if (depth <= 0)
        return rand_leaf(r, o);
    unsigned k = r.below(100);
    try {
        if (k < 22) {
            int n = 2 + (int)r.below(3);
            vec_basic v;
            for (int i = 0; i < n; i++)
                v.push_back(rand_expr(r, o, depth - 1));
            return add(v);
        }
        if (k < 44) {
            int n = 2 + (int)r.below(2);
            vec_basic v;
            for (int i = 0; i < n; i++)
                v.push_back(rand_expr(r, o, depth - 1));
            return mul(v);
        }
        if (k < 58) {
            RCP<const Basic> b = rand_expr(r, o, depth - 1);
            RCP<const Basic> e;
            unsigned j = r.below(100);
            if (o.radicals && j < 25)
                e = Rational::from_two_ints(*integer(r.range(-3, 3)), *integer(r.range(2, 3)));
            else if (o.symexp && j < 40)
                e = rand_expr(r, o, depth - 2);
            else if (o.negpow && j < 60)
                e = integer(-(long)r.range(1, 3));
            else
                e = integer(r.range(2, 4));
            if (is_a<Integer>(*e) && !mp_fits_slong_p(down_cast<const Integer &>(*e).as_integer_class()))
                e = integer(2);
            else if (is_a<Integer>(*e)
                     && (down_cast<const Integer &>(*e).as_int() > 6 || down_cast<const Integer &>(*e).as_int() < -6))
                e = integer(3);
            return pow(b, e);
        }
        if (o.functions && k < 74) {
            RCP<const Basic> a = rand_expr(r, o, depth - 1);
            switch (r.below(8)) {
                case 0:
                    return sin(a);
                case 1:
                    return cos(a);
                case 2:
                    return log(a);
                case 3:
                    return abs(a);
                case 4:
                    return exp(a);
                case 5:
                    return tan(a);
                case 6:
                    return atan2(a, rand_expr(r, o, depth - 1));
                default:
                    return is_a_Number(*a) ? sin(a) : gamma(a);
            }
        }
        if (o.fsymbols && k < 86) {
            if (r.coin())
                return function_symbol("f", rand_expr(r, o, depth - 1));
            return function_symbol("g", vec_basic{rand_expr(r, o, depth - 1), rand_expr(r, o, depth - 1)});
        }
        if (o.binders && k < 94) {
            RCP<const Basic> x = sym((int)r.below(o.nsyms));
            RCP<const Basic> inner = function_symbol("f", add(x, rand_expr(r, o, depth - 2)));
            RCP<const Basic> d = inner->diff(rcp_static_cast<const Symbol>(x));
            if (r.coin())
                return d;
            // evaluate the derivative at a point: Subs(Derivative(f(_xi), _xi), _xi, point)
            return function_symbol("f", rand_expr(r, o, depth - 1))->diff(rcp_static_cast<const Symbol>(x));
        }
    } catch (const std::exception &) {
        // e.g. division by zero inside a constructor: fall back to a leaf
    }
    return rand_leaf(r, o);
}

} // namespace vgen
#endif
