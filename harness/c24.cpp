// C24: dense matrix algebra over exact numbers is correct.
//
// Op line:   dm <alg> <args...>
//   matrix   RxC:e,e,...     (row major, entries  p  or  p/q ; `0x0:` is the empty matrix)
//   scalar   p or p/q ; index arguments are plain naturals ; flags 0/1
// Output (exactly what lean/Drv/C24.lean prints): result matrices `RxC:e,...` joined by `|`,
// permutation lists `pl=k-i;k-i`, pivot columns `pc=a;b`, scalars as `p/q`, tribools T/F/U.
// Entries that are not exact rationals print as `zoo`, `nan` or `?(<str>)`.
//
// The oracle is exact rational linear algebra on GMP rationals, written independently of the
// library and of the Lean model: cofactor determinants, own elimination for rank / rref,
// multiply-back for every factorisation, A*x = b for solvers, det(xI-A) by evaluation.
#include "common.h"
#include <gmp.h>
#include <symengine/matrix.h>
#include <symengine/integer.h>
#include <symengine/rational.h>
#include <symengine/nan.h>
#include <symengine/infinity.h>
#include <symengine/add.h>
#include <symengine/mul.h>
#include <functional>

using SymEngine::Basic;
using SymEngine::DenseMatrix;
using SymEngine::RCP;
using SymEngine::tribool;

// ------------------------------------------------------------------ exact rationals (oracle side)
struct Fr {
    mpq_t v;
    Fr()
    {
        mpq_init(v);
    }
    Fr(long n)
    {
        mpq_init(v);
        mpq_set_si(v, n, 1);
    }
    Fr(const Fr &o)
    {
        mpq_init(v);
        mpq_set(v, o.v);
    }
    Fr &operator=(const Fr &o)
    {
        mpq_set(v, o.v);
        return *this;
    }
    ~Fr()
    {
        mpq_clear(v);
    }
    bool zero() const
    {
        return mpq_sgn(v) == 0;
    }
    int sgn() const
    {
        return mpq_sgn(v);
    }
    std::string str() const
    {
        char *s = mpq_get_str(nullptr, 10, v);
        std::string r(s);
        void (*freefunc)(void *, size_t);
        mp_get_memory_functions(nullptr, nullptr, &freefunc);
        freefunc(s, strlen(s) + 1);
        return r;
    }
};
static Fr operator+(const Fr &a, const Fr &b)
{
    Fr r;
    mpq_add(r.v, a.v, b.v);
    return r;
}
static Fr operator-(const Fr &a, const Fr &b)
{
    Fr r;
    mpq_sub(r.v, a.v, b.v);
    return r;
}
static Fr operator*(const Fr &a, const Fr &b)
{
    Fr r;
    mpq_mul(r.v, a.v, b.v);
    return r;
}
static Fr operator/(const Fr &a, const Fr &b)
{
    Fr r;
    mpq_div(r.v, a.v, b.v);
    return r;
}
static bool operator==(const Fr &a, const Fr &b)
{
    return mpq_equal(a.v, b.v) != 0;
}
static bool operator!=(const Fr &a, const Fr &b)
{
    return !(a == b);
}
static Fr fabsq(const Fr &a)
{
    Fr r;
    mpq_abs(r.v, a.v);
    return r;
}
static bool parseFr(const std::string &s, Fr &out)
{
    if (s.empty())
        return false;
    for (char c : s)
        if (!(isdigit((unsigned char)c) || c == '-' || c == '/'))
            return false;
    if (mpq_set_str(out.v, s.c_str(), 10) != 0)
        return false;
    if (mpz_sgn(mpq_denref(out.v)) == 0)
        return false;
    mpq_canonicalize(out.v);
    return true;
}

struct FM {
    unsigned r = 0, c = 0;
    std::vector<Fr> a;
    FM() {}
    FM(unsigned r_, unsigned c_) : r(r_), c(c_), a((size_t)r_ * c_) {}
    Fr &at(unsigned i, unsigned j)
    {
        return a[(size_t)i * c + j];
    }
    const Fr &at(unsigned i, unsigned j) const
    {
        return a[(size_t)i * c + j];
    }
    std::string str() const
    {
        std::string o = std::to_string(r) + "x" + std::to_string(c) + ":";
        for (size_t i = 0; i < a.size(); i++) {
            if (i)
                o += ",";
            o += a[i].str();
        }
        return o;
    }
};
static bool operator==(const FM &x, const FM &y)
{
    if (x.r != y.r || x.c != y.c)
        return false;
    for (size_t i = 0; i < x.a.size(); i++)
        if (x.a[i] != y.a[i])
            return false;
    return true;
}
static bool parseFM(const std::string &s, FM &m)
{
    size_t x = s.find('x'), col = s.find(':');
    if (x == std::string::npos || col == std::string::npos || x > col)
        return false;
    m.r = (unsigned)std::stoul(s.substr(0, x));
    m.c = (unsigned)std::stoul(s.substr(x + 1, col - x - 1));
    m.a.clear();
    std::string body = s.substr(col + 1);
    if (!body.empty())
        for (auto &t : split(body, ',')) {
            Fr f;
            if (!parseFr(t, f))
                return false;
            m.a.push_back(f);
        }
    return m.a.size() == (size_t)m.r * m.c;
}
static FM fm_mul(const FM &A, const FM &B)
{
    FM C(A.r, B.c);
    for (unsigned i = 0; i < A.r; i++)
        for (unsigned j = 0; j < B.c; j++) {
            Fr s;
            for (unsigned k = 0; k < A.c; k++)
                s = s + A.at(i, k) * B.at(k, j);
            C.at(i, j) = s;
        }
    return C;
}
static FM fm_T(const FM &A)
{
    FM B(A.c, A.r);
    for (unsigned i = 0; i < A.r; i++)
        for (unsigned j = 0; j < A.c; j++)
            B.at(j, i) = A.at(i, j);
    return B;
}
static FM fm_eye(unsigned n)
{
    FM I(n, n);
    for (unsigned i = 0; i < n; i++)
        I.at(i, i) = Fr(1);
    return I;
}
// determinant by cofactor expansion along the first row (no elimination involved)
static Fr fm_det(const FM &A)
{
    unsigned n = A.r;
    if (n == 0)
        return Fr(1);
    if (n == 1)
        return A.at(0, 0);
    Fr s;
    for (unsigned j = 0; j < n; j++) {
        if (A.at(0, j).zero())
            continue;
        FM M(n - 1, n - 1);
        for (unsigned i = 1; i < n; i++)
            for (unsigned k = 0, kk = 0; k < n; k++)
                if (k != j)
                    M.at(i - 1, kk++) = A.at(i, k);
        Fr t = A.at(0, j) * fm_det(M);
        s = (j % 2 == 0) ? s + t : s - t;
    }
    return s;
}
static FM fm_lead(const FM &A, unsigned k)
{
    FM M(k, k);
    for (unsigned i = 0; i < k; i++)
        for (unsigned j = 0; j < k; j++)
            M.at(i, j) = A.at(i, j);
    return M;
}
// all leading principal minors of orders 1..k are non-zero
static bool lead_minors_nonzero(const FM &A, unsigned k)
{
    for (unsigned t = 1; t <= k && t <= A.r && t <= A.c; t++)
        if (fm_det(fm_lead(A, t)).zero())
            return false;
    return true;
}
// reduced row echelon form by plain Gauss-Jordan; returns pivot columns
static FM fm_rref(const FM &A, std::vector<unsigned> &piv)
{
    FM B = A;
    unsigned row = 0;
    piv.clear();
    for (unsigned col = 0; col < B.c && row < B.r; col++) {
        unsigned p = row;
        while (p < B.r && B.at(p, col).zero())
            p++;
        if (p == B.r)
            continue;
        for (unsigned k = 0; k < B.c; k++)
            std::swap(B.at(p, k), B.at(row, k));
        Fr d = B.at(row, col);
        for (unsigned k = 0; k < B.c; k++)
            B.at(row, k) = B.at(row, k) / d;
        for (unsigned i = 0; i < B.r; i++)
            if (i != row && !B.at(i, col).zero()) {
                Fr f = B.at(i, col);
                for (unsigned k = 0; k < B.c; k++)
                    B.at(i, k) = B.at(i, k) - f * B.at(row, k);
            }
        piv.push_back(col);
        row++;
    }
    return B;
}
static unsigned fm_rank(const FM &A)
{
    std::vector<unsigned> p;
    fm_rref(A, p);
    return (unsigned)p.size();
}
static bool row_equiv(const FM &A, const FM &B)
{
    std::vector<unsigned> p, q;
    return fm_rref(A, p) == fm_rref(B, q);
}
// echelon: the column of the first non-zero of each row strictly increases; zero rows last
static bool is_echelon(const FM &B)
{
    long last = -1;
    bool seenzero = false;
    for (unsigned i = 0; i < B.r; i++) {
        long lead = -1;
        for (unsigned j = 0; j < B.c; j++)
            if (!B.at(i, j).zero()) {
                lead = j;
                break;
            }
        if (lead < 0) {
            seenzero = true;
            continue;
        }
        if (seenzero || lead <= last)
            return false;
        last = lead;
    }
    return true;
}
static FM drop_last_col(const FM &B)
{
    if (B.c == 0)
        return B;
    FM D(B.r, B.c - 1);
    for (unsigned i = 0; i < D.r; i++)
        for (unsigned j = 0; j < D.c; j++)
            D.at(i, j) = B.at(i, j);
    return D;
}
static bool is_lower_fm(const FM &A)
{
    for (unsigned i = 0; i < A.r; i++)
        for (unsigned j = i + 1; j < A.c; j++)
            if (!A.at(i, j).zero())
                return false;
    return true;
}
static bool is_upper_fm(const FM &A)
{
    for (unsigned i = 0; i < A.r; i++)
        for (unsigned j = 0; j < i && j < A.c; j++)
            if (!A.at(i, j).zero())
                return false;
    return true;
}
static bool is_diag_fm(const FM &A)
{
    return is_lower_fm(A) && is_upper_fm(A);
}
static bool is_sym_fm(const FM &A)
{
    return A.r == A.c && fm_T(A) == A;
}
// characteristic polynomial coefficients (decreasing powers) agree with det(xI - A) at n+1 points
static bool charpoly_ok(const FM &A, const std::vector<Fr> &coef)
{
    unsigned n = A.r;
    if (coef.size() != n + 1)
        return false;
    for (long x = -1; x <= (long)n - 1 + 1; x++) {
        FM M(n, n);
        for (unsigned i = 0; i < n; i++)
            for (unsigned j = 0; j < n; j++)
                M.at(i, j) = (i == j ? Fr(x) : Fr(0)) - A.at(i, j);
        Fr want = fm_det(M), got;
        for (auto &cf : coef)
            got = got * Fr(x) + cf;
        if (want != got)
            return false;
    }
    return true;
}

// ------------------------------------------------------------------ library side
static RCP<const Basic> toBasic(const Fr &f)
{
    return SymEngine::Rational::from_mpq(SymEngine::rational_class(f.v));
}
static DenseMatrix toDM(const FM &m)
{
    SymEngine::vec_basic v;
    for (auto &e : m.a)
        v.push_back(toBasic(e));
    return DenseMatrix(m.r, m.c, v);
}
// one entry -> canonical text; sets fin=false when it is not an exact rational
static std::string entryStr(const RCP<const Basic> &e, bool &fin, Fr *out = nullptr)
{
    if (e.is_null()) {
        fin = false;
        return "null";
    }
    if (SymEngine::is_a<SymEngine::Integer>(*e)) {
        Fr f;
        mpq_set_z(f.v, SymEngine::get_mpz_t(SymEngine::down_cast<const SymEngine::Integer &>(*e).as_integer_class()));
        if (out)
            *out = f;
        return f.str();
    }
    if (SymEngine::is_a<SymEngine::Rational>(*e)) {
        Fr f;
        mpq_set(f.v, SymEngine::get_mpq_t(SymEngine::down_cast<const SymEngine::Rational &>(*e).as_rational_class()));
        if (out)
            *out = f;
        return f.str();
    }
    fin = false;
    if (SymEngine::is_a<SymEngine::NaN>(*e))
        return "nan";
    if (SymEngine::is_a<SymEngine::Infty>(*e) && SymEngine::down_cast<const SymEngine::Infty &>(*e).is_unsigned_infinity())
        return "zoo";
    return "?(" + e->__str__() + ")";
}
// result matrix -> text and (when all entries are rationals) oracle matrix
struct Res {
    std::string s;
    bool fin = true;
    bool hasnull = false;
    FM m;
};
static Res fromDM(const DenseMatrix &D)
{
    Res r;
    r.m = FM(D.nrows(), D.ncols());
    SymEngine::vec_basic v = D.as_vec_basic();
    r.s = std::to_string(D.nrows()) + "x" + std::to_string(D.ncols()) + ":";
    if (v.size() != (size_t)D.nrows() * D.ncols()) {
        r.fin = false;
        r.s += "badsize" + std::to_string(v.size());
        return r;
    }
    for (size_t i = 0; i < v.size(); i++) {
        if (i)
            r.s += ",";
        bool f = true;
        std::string t = entryStr(v[i], f, &r.m.a[i]);
        if (t == "null")
            r.hasnull = true;
        if (!f)
            r.fin = false;
        r.s += t;
    }
    return r;
}
static std::string plStr(const SymEngine::permutelist &pl)
{
    std::string o = "pl=";
    for (size_t i = 0; i < pl.size(); i++) {
        if (i)
            o += ";";
        o += std::to_string(pl[i].first) + "-" + std::to_string(pl[i].second);
    }
    return o;
}
static FM applyPl(const FM &A, const SymEngine::permutelist &pl)
{
    FM B = A;
    for (auto &p : pl)
        if ((unsigned)p.first < B.r && (unsigned)p.second < B.r)
            for (unsigned k = 0; k < B.c; k++)
                std::swap(B.at((unsigned)p.first, k), B.at((unsigned)p.second, k));
    return B;
}
static std::string triStr(tribool t)
{
    return SymEngine::is_true(t) ? "T" : (SymEngine::is_false(t) ? "F" : "U");
}

#define FAIL(key, detail)                                                                                              \
    do {                                                                                                               \
        if (oracle == "ok")                                                                                            \
            oracle = std::string("FAIL:") + key + ":" + detail;                                                        \
    } while (0)

static void note_nulls(const Res &r, std::string &oracle, const char *what)
{
    if (r.hasnull)
        FAIL("null-entry", std::string(what) + " has entries the algorithm never assigned");
}

std::string hx_run(const std::string &line, std::string &oracle)
{
    auto w = split(line, ' ');
    if (w.size() < 2 || w[0] != "dm")
        return "bad-op";
    const std::string alg = w[1];
    stat("alg:" + alg);
    std::vector<FM> M;     // matrix arguments in order
    std::vector<Fr> S;     // scalar arguments in order
    std::vector<long> N;   // the same scalars as integers when integral
    for (size_t i = 2; i < w.size(); i++) {
        if (w[i].find(':') != std::string::npos) {
            FM m;
            if (!parseFM(w[i], m))
                return "bad-op";
            M.push_back(m);
        } else {
            Fr f;
            if (!parseFr(w[i], f))
                return "bad-op";
            S.push_back(f);
            N.push_back(mpz_cmp_ui(mpq_denref(f.v), 1) == 0 ? mpz_get_si(mpq_numref(f.v)) : -1);
        }
    }
    auto needM = [&](size_t n) { return M.size() >= n; };
    auto needS = [&](size_t n) { return S.size() >= n; };
    if (!needM(1) && alg != "eye" && alg != "ones" && alg != "zeros")
        return "bad-op";
    FM A = M.size() > 0 ? M[0] : FM(), Bm = M.size() > 1 ? M[1] : FM();
    DenseMatrix dA = toDM(A), dB = toDM(Bm);
    unsigned n = A.r;
    bool square = A.r == A.c;

    // ---------------------------------------------------------- structural
    if (alg == "add" || alg == "emul") {
        if (!needM(2))
            return "bad-op";
        DenseMatrix C(A.r, A.c);
        if (alg == "add")
            add_dense_dense(dA, dB, C);
        else
            elementwise_mul_dense_dense(dA, dB, C);
        Res r = fromDM(C);
        FM want(A.r, A.c);
        for (size_t i = 0; i < A.a.size(); i++)
            want.a[i] = alg == "add" ? A.a[i] + Bm.a[i] : A.a[i] * Bm.a[i];
        if (!r.fin || !(r.m == want))
            FAIL(alg, "got " + r.s + " expected " + want.str());
        return r.s;
    }
    if (alg == "mul") {
        if (!needM(2))
            return "bad-op";
        DenseMatrix C(A.r, Bm.c);
        mul_dense_dense(dA, dB, C);
        Res r = fromDM(C);
        FM want = fm_mul(A, Bm);
        if (!r.fin || !(r.m == want))
            FAIL("mul", "got " + r.s + " expected " + want.str());
        return r.s;
    }
    if (alg == "mul_alias" || alg == "add_alias" || alg == "emul_alias") {
        // the output matrix is one of the operands: mode 1 = left, 2 = right, 3 = left = right = output,
        // 4 = right through the virtual API (A.op(B, B)), 5 = left through the virtual API (A.op(B, A)).
        // The result must be the same as with a fresh output matrix, and the other operand must be untouched.
        if (!needM(2) || !needS(1))
            return "bad-op";
        long mode = N[0];
        if (mode < 1 || mode > 5)
            return "bad-op";
        if (mode == 3)
            Bm = A;
        DenseMatrix &L = dA;
        DenseMatrix dB2 = toDM(Bm);
        DenseMatrix &Rr = mode == 3 ? dA : dB2;
        DenseMatrix &Out = (mode == 1 || mode == 5 || mode == 3) ? dA : dB2;
        FM want;
        if (alg == "mul_alias") {
            want = fm_mul(A, Bm);
            if (mode >= 4)
                L.mul_matrix(Rr, Out);
            else
                mul_dense_dense(L, Rr, Out);
        } else {
            want = FM(A.r, A.c);
            for (size_t i = 0; i < A.a.size(); i++)
                want.a[i] = alg == "add_alias" ? A.a[i] + Bm.a[i] : A.a[i] * Bm.a[i];
            if (mode >= 4) {
                if (alg == "add_alias")
                    L.add_matrix(Rr, Out);
                else
                    L.elementwise_mul_matrix(Rr, Out);
            } else if (alg == "add_alias")
                add_dense_dense(L, Rr, Out);
            else
                elementwise_mul_dense_dense(L, Rr, Out);
        }
        Res r = fromDM(Out);
        if (!r.fin || !(r.m == want))
            FAIL(alg, "aliased output (mode " + std::to_string(mode) + ") got " + r.s + " expected " + want.str());
        else if (mode == 2 || mode == 4) {
            Res ra = fromDM(dA);
            if (!ra.fin || !(ra.m == A))
                FAIL(alg, "left operand was modified: " + ra.s);
        } else if (mode == 1 || mode == 5) {
            Res rb = fromDM(dB2);
            if (!rb.fin || !(rb.m == Bm))
                FAIL(alg, "right operand was modified: " + rb.s);
        }
        return r.s;
    }
    if (alg == "adds_alias" || alg == "muls_alias") {
        if (!needS(1))
            return "bad-op";
        RCP<const Basic> k = toBasic(S[0]);
        if (alg == "adds_alias")
            add_dense_scalar(dA, k, dA);
        else
            mul_dense_scalar(dA, k, dA);
        Res r = fromDM(dA);
        FM want(A.r, A.c);
        for (size_t i = 0; i < A.a.size(); i++)
            want.a[i] = alg == "adds_alias" ? A.a[i] + S[0] : A.a[i] * S[0];
        if (!r.fin || !(r.m == want))
            FAIL(alg, "in-place result got " + r.s + " expected " + want.str());
        return r.s;
    }
    if (alg == "adds" || alg == "muls") {
        if (!needS(1))
            return "bad-op";
        DenseMatrix C(A.r, A.c);
        RCP<const Basic> k = toBasic(S[0]);
        if (alg == "adds")
            add_dense_scalar(dA, k, C);
        else
            mul_dense_scalar(dA, k, C);
        Res r = fromDM(C);
        FM want(A.r, A.c);
        for (size_t i = 0; i < A.a.size(); i++)
            want.a[i] = alg == "adds" ? A.a[i] + S[0] : A.a[i] * S[0];
        if (!r.fin || !(r.m == want))
            FAIL(alg, "got " + r.s + " expected " + want.str());
        return r.s;
    }
    if (alg == "transpose") {
        DenseMatrix C(A.c, A.r);
        transpose_dense(dA, C);
        Res r = fromDM(C);
        if (!r.fin || !(r.m == fm_T(A)))
            FAIL("transpose", "got " + r.s);
        return r.s;
    }
    if (alg == "submatrix") {
        // dm submatrix A r0 c0 r1 c1 rs cs ; the output matrix is pre-filled with zeros (step > 1 leaves gaps)
        if (!needS(6))
            return "bad-op";
        unsigned r0 = N[0], c0 = N[1], r1 = N[2], c1 = N[3], rs = N[4], cs = N[5];
        DenseMatrix C(r1 - r0 + 1, c1 - c0 + 1);
        zeros(C);
        submatrix_dense(dA, C, r0, c0, r1, c1, rs, cs);
        Res r = fromDM(C);
        FM want(r1 - r0 + 1, c1 - c0 + 1);
        for (unsigned i = 0; i < want.r; i += rs)
            for (unsigned j = 0; j < want.c; j += cs)
                want.at(i, j) = A.at(r0 + i, c0 + j);
        if (!r.fin || !(r.m == want))
            FAIL("submatrix", "got " + r.s + " expected " + want.str());
        return r.s;
    }
    if (alg == "row_join" || alg == "col_join" || alg == "row_insert" || alg == "col_insert") {
        if (!needM(2))
            return "bad-op";
        bool byrow = alg == "col_join" || alg == "row_insert"; // rows of B are inserted
        unsigned pos = alg == "row_join" ? A.c : alg == "col_join" ? A.r : (needS(1) ? (unsigned)N[0] : 0);
        if (alg == "row_join")
            dA.row_join(dB);
        else if (alg == "col_join")
            dA.col_join(dB);
        else if (alg == "row_insert")
            dA.row_insert(dB, pos);
        else
            dA.col_insert(dB, pos);
        Res r = fromDM(dA);
        FM want;
        if (byrow) {
            want = FM(A.r + Bm.r, A.c);
            for (unsigned i = 0; i < want.r; i++)
                for (unsigned j = 0; j < want.c; j++)
                    want.at(i, j) = i < pos ? A.at(i, j) : (i < pos + Bm.r ? Bm.at(i - pos, j) : A.at(i - Bm.r, j));
        } else {
            want = FM(A.r, A.c + Bm.c);
            for (unsigned i = 0; i < want.r; i++)
                for (unsigned j = 0; j < want.c; j++)
                    want.at(i, j) = j < pos ? A.at(i, j) : (j < pos + Bm.c ? Bm.at(i, j - pos) : A.at(i, j - Bm.c));
        }
        if (!r.fin || !(r.m == want))
            FAIL(alg, "got " + r.s + " expected " + want.str());
        return r.s;
    }
    if (alg == "row_del" || alg == "col_del") {
        if (!needS(1))
            return "bad-op";
        unsigned k = (unsigned)N[0];
        if (alg == "row_del")
            dA.row_del(k);
        else
            dA.col_del(k);
        Res r = fromDM(dA);
        FM want;
        if (alg == "row_del") {
            want = A.r == 1 ? FM(0, 0) : FM(A.r - 1, A.c);
            for (unsigned i = 0; i < want.r; i++)
                for (unsigned j = 0; j < want.c; j++)
                    want.at(i, j) = A.at(i < k ? i : i + 1, j);
        } else {
            want = A.c == 1 ? FM(0, 0) : FM(A.r, A.c - 1);
            for (unsigned i = 0; i < want.r; i++)
                for (unsigned j = 0; j < want.c; j++)
                    want.at(i, j) = A.at(i, j < k ? j : j + 1);
        }
        if (!r.fin || !(r.m == want))
            FAIL(alg, "got " + r.s + " expected " + want.str());
        return r.s;
    }
    if (alg == "row_exchange" || alg == "col_exchange") {
        if (!needS(2))
            return "bad-op";
        unsigned i = (unsigned)N[0], j = (unsigned)N[1];
        FM want = A;
        if (alg == "row_exchange") {
            row_exchange_dense(dA, i, j);
            for (unsigned k = 0; k < A.c; k++)
                std::swap(want.at(i, k), want.at(j, k));
        } else {
            column_exchange_dense(dA, i, j);
            for (unsigned k = 0; k < A.r; k++)
                std::swap(want.at(k, i), want.at(k, j));
        }
        Res r = fromDM(dA);
        if (!r.fin || !(r.m == want))
            FAIL(alg, "got " + r.s);
        return r.s;
    }
    if (alg == "row_mul_scalar") {
        if (!needS(2))
            return "bad-op";
        unsigned i = (unsigned)N[0];
        RCP<const Basic> c = toBasic(S[1]);
        row_mul_scalar_dense(dA, i, c);
        FM want = A;
        for (unsigned k = 0; k < A.c; k++)
            want.at(i, k) = S[1] * A.at(i, k);
        Res r = fromDM(dA);
        if (!r.fin || !(r.m == want))
            FAIL(alg, "got " + r.s);
        return r.s;
    }
    if (alg == "row_add_row") {
        if (!needS(3))
            return "bad-op";
        unsigned i = (unsigned)N[0], j = (unsigned)N[1];
        RCP<const Basic> c = toBasic(S[2]);
        row_add_row_dense(dA, i, j, c);
        FM want = A;
        for (unsigned k = 0; k < A.c; k++)
            want.at(i, k) = A.at(i, k) + S[2] * A.at(j, k);
        Res r = fromDM(dA);
        if (!r.fin || !(r.m == want))
            FAIL(alg, "got " + r.s);
        return r.s;
    }
    if (alg == "trace") {
        bool f = true;
        Fr got;
        std::string s = entryStr(dA.trace(), f, &got);
        Fr want;
        for (unsigned i = 0; i < n; i++)
            want = want + A.at(i, i);
        if (!f || got != want)
            FAIL("trace", "got " + s + " expected " + want.str());
        return s;
    }
    if (alg == "dot") {
        if (!needM(2))
            return "bad-op";
        DenseMatrix C(1, 1);
        dot(dA, dB, C);
        Res r = fromDM(C);
        // vectors only (generator): sum of products, as a 1x1 matrix
        if ((A.r == 1 || A.c == 1) && (Bm.r == 1 || Bm.c == 1) && A.a.size() == Bm.a.size()) {
            Fr s;
            for (size_t i = 0; i < A.a.size(); i++)
                s = s + A.a[i] * Bm.a[i];
            if (!r.fin || r.m.a.size() != 1 || r.m.a[0] != s)
                FAIL("dot", "got " + r.s + " expected " + s.str());
        }
        return r.s;
    }
    if (alg == "cross") {
        if (!needM(2))
            return "bad-op";
        DenseMatrix C(A.r, A.c);
        cross(dA, dB, C);
        Res r = fromDM(C);
        FM want(A.r, A.c);
        const std::vector<Fr> &a = A.a, &b = Bm.a;
        want.a[0] = a[1] * b[2] - a[2] * b[1];
        want.a[1] = a[2] * b[0] - a[0] * b[2];
        want.a[2] = a[0] * b[1] - a[1] * b[0];
        if (!r.fin || !(r.m == want))
            FAIL("cross", "got " + r.s);
        return r.s;
    }
    if (alg == "eye" || alg == "ones" || alg == "zeros") {
        if (!needS(2))
            return "bad-op";
        unsigned r_ = (unsigned)N[0], c_ = (unsigned)N[1];
        long k = alg == "eye" && needS(3) ? mpz_get_si(mpq_numref(S[2].v)) : 0;
        DenseMatrix C(r_, c_);
        if (alg == "eye")
            eye(C, (int)k);
        else if (alg == "ones")
            ones(C);
        else
            zeros(C);
        Res r = fromDM(C);
        FM want(r_, c_);
        for (unsigned i = 0; i < r_; i++)
            for (unsigned j = 0; j < c_; j++)
                want.at(i, j) = alg == "ones" ? Fr(1) : (alg == "eye" && (long)j - (long)i == k ? Fr(1) : Fr(0));
        if (!r.fin || !(r.m == want))
            FAIL(alg, "got " + r.s + " expected " + want.str());
        return r.s;
    }
    if (alg == "diag") {
        // dm diag <vector as kx1> r c k
        if (!needS(3))
            return "bad-op";
        unsigned r_ = (unsigned)N[0], c_ = (unsigned)N[1];
        long k = mpz_get_si(mpq_numref(S[2].v));
        SymEngine::vec_basic v;
        for (auto &e : A.a)
            v.push_back(toBasic(e));
        DenseMatrix C(r_, c_);
        diag(C, v, (int)k);
        Res r = fromDM(C);
        FM want(r_, c_);
        for (unsigned i = 0; i < r_; i++)
            for (unsigned j = 0; j < c_; j++)
                if ((long)j - (long)i == k) {
                    unsigned t = k >= 0 ? i : j;
                    if (t < A.a.size())
                        want.at(i, j) = A.a[t];
                }
        if (!r.fin || !(r.m == want))
            FAIL("diag", "got " + r.s + " expected " + want.str());
        return r.s;
    }

    // ---------------------------------------------------------- predicates
    if (alg == "is_zero" || alg == "is_diagonal" || alg == "is_symmetric" || alg == "is_hermitian" || alg == "is_wdd"
        || alg == "is_sdd" || alg == "is_posdef" || alg == "is_negdef" || alg == "is_lower" || alg == "is_upper"
        || alg == "is_symmetric_dense") {
        std::string got;
        bool want = false;
        if (alg == "is_zero") {
            got = triStr(dA.is_zero());
            want = true;
            for (auto &e : A.a)
                if (!e.zero())
                    want = false;
        } else if (alg == "is_diagonal") {
            got = triStr(dA.is_diagonal());
            want = square && is_diag_fm(A);
        } else if (alg == "is_symmetric" || alg == "is_hermitian") {
            got = triStr(alg == "is_symmetric" ? dA.is_symmetric() : dA.is_hermitian());
            want = is_sym_fm(A);
        } else if (alg == "is_symmetric_dense") {
            got = is_symmetric_dense(dA) ? "T" : "F";
            want = is_sym_fm(A);
        } else if (alg == "is_lower") {
            // library naming: is_lower() <=> the strictly lower part is zero (tests/matrix/test_matrix.cpp)
            got = dA.is_lower() ? "T" : "F";
            want = is_upper_fm(A);
        } else if (alg == "is_upper") {
            got = dA.is_upper() ? "T" : "F";
            want = is_lower_fm(A);
        } else if (alg == "is_wdd" || alg == "is_sdd") {
            got = triStr(alg == "is_wdd" ? dA.is_weakly_diagonally_dominant() : dA.is_strictly_diagonally_dominant());
            want = square;
            for (unsigned i = 0; i < n && want; i++) {
                Fr s;
                for (unsigned j = 0; j < n; j++)
                    if (i != j)
                        s = s + fabsq(A.at(i, j));
                int c = (fabsq(A.at(i, i)) - s).sgn();
                if (alg == "is_wdd" ? c < 0 : c <= 0)
                    want = false;
            }
        } else {
            got = triStr(alg == "is_posdef" ? dA.is_positive_definite() : dA.is_negative_definite());
            // x^T A x > 0 for all x != 0  <=>  the symmetric part has positive leading minors (Sylvester)
            want = square;
            if (square) {
                FM H(n, n);
                for (unsigned i = 0; i < n; i++)
                    for (unsigned j = 0; j < n; j++)
                        H.at(i, j) = (A.at(i, j) + A.at(j, i)) * (alg == "is_posdef" ? Fr(1) : Fr(-1));
                for (unsigned t = 1; t <= n && want; t++)
                    if (fm_det(fm_lead(H, t)).sgn() <= 0)
                        want = false;
            }
        }
        if (got != (want ? "T" : "F"))
            FAIL(alg, "got " + got + " expected " + (want ? "T" : "F"));
        return got;
    }

    // ---------------------------------------------------------- elimination
    if (alg == "pge" || alg == "pffge" || alg == "pgje" || alg == "pffgje") {
        DenseMatrix C(A.r, A.c);
        SymEngine::permutelist pl;
        if (alg == "pge")
            pivoted_gaussian_elimination(dA, C, pl);
        else if (alg == "pffge")
            pivoted_fraction_free_gaussian_elimination(dA, C, pl);
        else if (alg == "pgje")
            pivoted_gauss_jordan_elimination(dA, C, pl);
        else
            pivoted_fraction_free_gauss_jordan_elimination(dA, C, pl);
        Res r = fromDM(C);
        note_nulls(r, oracle, "result");
        if (!r.fin)
            FAIL(alg, "pivoted elimination of a rational matrix produced a non-rational entry: " + r.s);
        else if (!row_equiv(A, r.m))
            FAIL(alg, "result is not row-equivalent to the input: " + r.s);
        else if (alg == "pge" || alg == "pffge") {
            // the loops stop before the last column (it plays the role of a right-hand side)
            if (!is_echelon(drop_last_col(r.m)))
                FAIL(alg, "the leading columns of the result are not in row echelon form: " + r.s);
        } else {
            // Gauss-Jordan: echelon, and every pivot column has a single non-zero
            std::vector<unsigned> piv;
            FM R = fm_rref(A, piv);
            bool ok = is_echelon(r.m);
            for (unsigned t = 0; t < piv.size() && ok; t++)
                for (unsigned i = 0; i < A.r; i++)
                    if (i != t && !r.m.at(i, piv[t]).zero())
                        ok = false;
            if (ok && alg == "pgje" && !(r.m == R))
                ok = false;
            if (!ok)
                FAIL(alg, "result is not the reduced echelon form: " + r.s + " rref=" + R.str());
        }
        return r.s + "|" + plStr(pl);
    }
    if (alg == "ffge" || alg == "ffgje") {
        DenseMatrix C(A.r, A.c);
        if (alg == "ffge")
            fraction_free_gaussian_elimination(dA, C);
        else
            fraction_free_gauss_jordan_elimination(dA, C);
        Res r = fromDM(C);
        note_nulls(r, oracle, "result");
        // the algorithm's own precondition: no pivoting, so the leading minors it divides by / pivots on are non-zero
        unsigned need = alg == "ffge" ? (A.c == 0 || A.r == 0 ? 0 : std::min(A.r - 1, A.c - 1)) : std::min(A.r, A.c);
        bool pre = (alg == "ffge" || A.r >= A.c) && lead_minors_nonzero(A, need);
        if (pre) {
            stat("pre-ok:" + alg);
            if (!r.fin)
                FAIL(alg, "non-rational entry although all leading minors are non-zero: " + r.s);
            else if (!row_equiv(A, r.m))
                FAIL(alg, "result is not row-equivalent to the input: " + r.s);
            else if (alg == "ffge" && !is_echelon(drop_last_col(r.m)))
                FAIL(alg, "the leading columns of the result are not in row echelon form: " + r.s);
        }
        return r.s;
    }
    if (alg == "rref" || alg == "rank") {
        bool nl = alg == "rref" && needS(1) && N[0] == 1;
        DenseMatrix C(A.r, A.c);
        SymEngine::vec_uint pc;
        reduced_row_echelon_form(dA, C, pc, nl);
        Res r = fromDM(C);
        std::vector<unsigned> piv;
        FM R = fm_rref(A, piv);
        std::string pcs = "pc=";
        for (size_t i = 0; i < pc.size(); i++)
            pcs += (i ? ";" : "") + std::to_string(pc[i]);
        bool same = pc.size() == piv.size();
        for (size_t i = 0; same && i < pc.size(); i++)
            same = pc[i] == piv[i];
        if (alg == "rank") {
            if (pc.size() != fm_rank(A))
                FAIL("rank", "got " + std::to_string(pc.size()) + " expected " + std::to_string(fm_rank(A)));
            return std::to_string(pc.size());
        }
        if (!r.fin || !(r.m == R))
            FAIL("rref", "got " + r.s + " expected " + R.str());
        else if (!same)
            FAIL("rref-pivots", "got " + pcs);
        return r.s + "|" + pcs;
    }

    // ---------------------------------------------------------- solvers
    if (alg == "diag_solve" || alg == "back_sub" || alg == "fwd_sub" || alg == "ffge_solve" || alg == "ffgj_solve"
        || alg == "fflu_solve" || alg == "lu_solve" || alg == "plu_solve" || alg == "ldl_solve") {
        if (!needM(2))
            return "bad-op";
        DenseMatrix X(A.c, Bm.c);
        bool pivots = false;   // does the algorithm pivot (precondition: non-singular only)?
        bool pre = square;     // the algorithm's own precondition on A
        FM Aeff = A;           // the matrix whose system is solved
        if (alg == "diag_solve") {
            diagonal_solve(dA, dB, X);
            Aeff = FM(n, n);
            for (unsigned i = 0; i < n; i++)
                Aeff.at(i, i) = A.at(i, i);
        } else if (alg == "back_sub") {
            back_substitution(dA, dB, X);
            Aeff = FM(n, n);
            for (unsigned i = 0; i < n; i++)
                for (unsigned j = i; j < n; j++)
                    Aeff.at(i, j) = A.at(i, j);
        } else if (alg == "fwd_sub") {
            // fraction-free forward substitution; defined for unit-lower L here (generator): L x = b
            forward_substitution(dA, dB, X);
            Aeff = FM(n, n);
            for (unsigned i = 0; i < n; i++)
                for (unsigned j = 0; j <= i; j++)
                    Aeff.at(i, j) = A.at(i, j);
            for (unsigned i = 0; i < n; i++)
                if (A.at(i, i) != Fr(1))
                    pre = false;
        } else if (alg == "ffge_solve")
            fraction_free_gaussian_elimination_solve(dA, dB, X);
        else if (alg == "ffgj_solve") {
            pivots = needS(1) && N[0] == 1;
            fraction_free_gauss_jordan_solve(dA, dB, X, pivots);
        } else if (alg == "fflu_solve")
            fraction_free_LU_solve(dA, dB, X);
        else if (alg == "lu_solve")
            LU_solve(dA, dB, X);
        else if (alg == "plu_solve") {
            pivots = true;
            pivoted_LU_solve(dA, dB, X);
        } else {
            LDL_solve(dA, dB, X);
            pre = pre && is_sym_fm(A);
        }
        Res r = fromDM(X);
        note_nulls(r, oracle, "x");
        bool nonsing = square && !fm_det(Aeff).zero();
        if (!pivots)
            pre = pre && lead_minors_nonzero(Aeff, n);
        else
            pre = pre && nonsing;
        if (pre) {
            stat("pre-ok:" + alg);
            if (!r.fin)
                FAIL(alg, "non-rational solution although the algorithm's precondition holds: " + r.s);
            else if (!(fm_mul(Aeff, r.m) == Bm))
                FAIL(alg, "A*x != b, x=" + r.s);
        } else if (square && !nonsing && r.fin && n > 0 && Bm.c > 0 && pivots)
            FAIL(alg, "singular system but a finite 'solution' was returned without any error: " + r.s);
        return r.s;
    }

    // ---------------------------------------------------------- factorisations
    if (alg == "lu" || alg == "ldl") {
        DenseMatrix L(n, n), U(n, n);
        if (alg == "lu")
            LU(dA, L, U);
        else
            LDL(dA, L, U);
        Res rl = fromDM(L), ru = fromDM(U);
        note_nulls(rl, oracle, "L");
        note_nulls(ru, oracle, alg == "lu" ? "U" : "D");
        bool pre = lead_minors_nonzero(A, n > 0 ? n - 1 : 0) && (alg == "lu" || is_sym_fm(A));
        if (pre) {
            stat("pre-ok:" + alg);
            bool unit = rl.fin;
            for (unsigned i = 0; i < n && unit; i++)
                unit = rl.m.at(i, i) == Fr(1);
            if (!rl.fin || !ru.fin)
                FAIL(alg, "non-rational factor although the leading minors are non-zero: " + rl.s + "|" + ru.s);
            else if (!unit || !is_lower_fm(rl.m))
                FAIL(alg, "L is not unit lower triangular: " + rl.s);
            else if (alg == "lu" ? !is_upper_fm(ru.m) : !is_diag_fm(ru.m))
                FAIL(alg, "second factor has the wrong shape: " + ru.s);
            else if (!((alg == "lu" ? fm_mul(rl.m, ru.m) : fm_mul(fm_mul(rl.m, ru.m), fm_T(rl.m))) == A))
                FAIL(alg, "factors do not multiply back: " + rl.s + "|" + ru.s);
        }
        return rl.s + "|" + ru.s;
    }
    if (alg == "plu" || alg == "plu1") {
        SymEngine::permutelist pl;
        bool nonsing = !fm_det(A).zero();
        DenseMatrix L(n, n), U(n, n);
        std::string out;
        try {
            if (alg == "plu")
                pivoted_LU(dA, L, U, pl);
            else
                pivoted_LU(dA, U, pl);
        } catch (const SymEngine::SymEngineException &e) {
            if (nonsing)
                FAIL(alg, std::string("exception on a non-singular matrix: ") + e.what());
            throw;
        }
        if (!nonsing && n > 0)
            FAIL(alg, "singular matrix accepted without the rank-deficient exception");
        Res ru = fromDM(U);
        FM Lm, Um;
        if (alg == "plu") {
            Res rl = fromDM(L);
            note_nulls(rl, oracle, "L");
            out = rl.s + "|" + ru.s + "|" + plStr(pl);
            if (!rl.fin || !ru.fin)
                FAIL(alg, "non-rational factor: " + out);
            Lm = rl.m;
            Um = ru.m;
        } else {
            out = ru.s + "|" + plStr(pl);
            if (!ru.fin)
                FAIL(alg, "non-rational factor: " + out);
            Lm = FM(n, n);
            Um = FM(n, n);
            for (unsigned i = 0; i < n; i++)
                for (unsigned j = 0; j < n; j++) {
                    if (j < i)
                        Lm.at(i, j) = ru.m.at(i, j);
                    else
                        Um.at(i, j) = ru.m.at(i, j);
                    if (i == j)
                        Lm.at(i, j) = Fr(1);
                }
        }
        note_nulls(ru, oracle, "U");
        if (oracle == "ok" && nonsing) {
            bool unit = true;
            for (unsigned i = 0; i < n; i++)
                unit = unit && Lm.at(i, i) == Fr(1);
            if (!unit || !is_lower_fm(Lm) || !is_upper_fm(Um))
                FAIL(alg, "factor shapes wrong: " + out);
            else if (!(fm_mul(Lm, Um) == applyPl(A, pl)))
                FAIL(alg, "L*U != P*A: " + out);
        }
        return out;
    }
    if (alg == "fflu" || alg == "ffldu") {
        DenseMatrix L(n, n), D(n, n), U(n, n);
        std::string out;
        FM Lm(n, n), Dm(n, n), Um(n, n);
        bool fin = true;
        if (alg == "fflu") {
            fraction_free_LU(dA, U);
            Res r = fromDM(U);
            note_nulls(r, oracle, "LU");
            out = r.s;
            fin = r.fin;
            // Nakos-Turner-Williams: U is the Bareiss triangle, L the columns at elimination time,
            // D = diag(p1, p1 p2, ..., p_{n-1} p_n) with p_k = U[k][k]; then L D^{-1} U = A
            if (fin)
                for (unsigned i = 0; i < n; i++)
                    for (unsigned j = 0; j < n; j++) {
                        if (j < i)
                            Lm.at(i, j) = r.m.at(i, j);
                        else
                            Um.at(i, j) = r.m.at(i, j);
                        if (i == j) {
                            Lm.at(i, j) = r.m.at(i, i);
                            Dm.at(i, i) = i == 0 ? r.m.at(0, 0) : r.m.at(i - 1, i - 1) * r.m.at(i, i);
                        }
                    }
        } else {
            fraction_free_LDU(dA, L, D, U);
            Res rl = fromDM(L), rd = fromDM(D), ru = fromDM(U);
            note_nulls(rl, oracle, "L");
            note_nulls(rd, oracle, "D");
            note_nulls(ru, oracle, "U");
            out = rl.s + "|" + rd.s + "|" + ru.s;
            fin = rl.fin && rd.fin && ru.fin;
            Lm = rl.m;
            Dm = rd.m;
            Um = ru.m;
        }
        bool pre = n > 0 && lead_minors_nonzero(A, n - 1);
        if (pre) {
            stat("pre-ok:" + alg);
            if (!fin)
                FAIL(alg, "non-rational factor although the leading minors are non-zero: " + out);
            else if (!is_lower_fm(Lm) || !is_upper_fm(Um) || !is_diag_fm(Dm))
                FAIL(alg, "factor shapes wrong: " + out);
            else {
                // L * D^{-1} * U = A  (D may have a zero last entry only when A is singular: compare L*adj form)
                bool dz = false;
                for (unsigned i = 0; i < n; i++)
                    dz = dz || Dm.at(i, i).zero();
                if (!dz) {
                    FM Di(n, n);
                    for (unsigned i = 0; i < n; i++)
                        Di.at(i, i) = Fr(1) / Dm.at(i, i);
                    if (!(fm_mul(fm_mul(Lm, Di), Um) == A))
                        FAIL(alg, "L*D^-1*U != A: " + out);
                } else
                    stat("ffldu-singular-skipped");
            }
        }
        return out;
    }
    if (alg == "cholesky") {
        DenseMatrix L(n, n);
        cholesky(dA, L);
        Res r = fromDM(L);
        note_nulls(r, oracle, "L");
        bool spd = is_sym_fm(A);
        for (unsigned t = 1; t <= n && spd; t++)
            spd = fm_det(fm_lead(A, t)).sgn() > 0;
        if (spd && r.fin) {
            stat("pre-ok:cholesky");
            bool pos = true;
            for (unsigned i = 0; i < n; i++)
                pos = pos && r.m.at(i, i).sgn() > 0;
            if (!is_lower_fm(r.m) || !pos)
                FAIL("cholesky", "L is not lower triangular with positive diagonal: " + r.s);
            else if (!(fm_mul(r.m, fm_T(r.m)) == A))
                FAIL("cholesky", "L*L^T != A: " + r.s);
        } else if (spd)
            stat("cholesky-irrational");
        return r.s;
    }
    if (alg == "qr") {
        DenseMatrix Q(A.r, A.c), R(A.c, A.c);
        QR(dA, Q, R);
        Res rq = fromDM(Q), rr = fromDM(R);
        note_nulls(rq, oracle, "Q");
        note_nulls(rr, oracle, "R");
        bool full = fm_rank(A) == A.c;
        if (full && rq.fin && rr.fin) {
            stat("pre-ok:qr");
            bool pos = true;
            for (unsigned i = 0; i < A.c; i++)
                pos = pos && rr.m.at(i, i).sgn() > 0;
            if (!is_upper_fm(rr.m) || !pos)
                FAIL("qr", "R is not upper triangular with positive diagonal: " + rr.s);
            else if (!(fm_mul(fm_T(rq.m), rq.m) == fm_eye(A.c)))
                FAIL("qr", "Q^T*Q != I: " + rq.s);
            else if (!(fm_mul(rq.m, rr.m) == A))
                FAIL("qr", "Q*R != A: " + rq.s + "|" + rr.s);
        } else if (full)
            stat("qr-irrational");
        return rq.s + "|" + rr.s;
    }

    // ---------------------------------------------------------- determinant, characteristic polynomial
    if (alg == "det_bareis" || alg == "det_berkowitz" || alg == "det") {
        RCP<const Basic> d = alg == "det_bareis" ? det_bareis(dA) : alg == "det" ? dA.det() : det_berkowitz(dA);
        bool f = true;
        Fr got;
        std::string s = entryStr(d, f, &got);
        Fr want = fm_det(A);
        if (!f || got != want)
            FAIL(alg, "got " + s + " expected " + want.str());
        return s;
    }
    if (alg == "berkowitz" || alg == "char_poly") {
        std::vector<DenseMatrix> polys;
        if (alg == "berkowitz")
            berkowitz(dA, polys);
        else {
            DenseMatrix P(n + 1, 1);
            char_poly(dA, P);
            polys.push_back(P);
        }
        std::vector<std::string> outs;
        for (size_t t = 0; t < polys.size(); t++) {
            Res r = fromDM(polys[t]);
            outs.push_back(r.s);
            unsigned order = alg == "berkowitz" ? (unsigned)t + 1 : n;
            if (!r.fin || !charpoly_ok(fm_lead(A, order), r.m.a))
                FAIL(alg, "polynomial #" + std::to_string(t) + " is not det(xI - A_" + std::to_string(order)
                              + "): " + r.s);
        }
        if (alg == "berkowitz" && polys.size() != n)
            FAIL(alg, "expected one polynomial per leading principal minor");
        return join(outs, "|");
    }

    // ---------------------------------------------------------- inverses
    if (alg == "inv_fflu" || alg == "inv_lu" || alg == "inv_plu" || alg == "inv_gj" || alg == "inv") {
        DenseMatrix X(n, n);
        bool pivots = alg == "inv_plu" || alg == "inv_gj" || alg == "inv";
        if (alg == "inv_fflu")
            inverse_fraction_free_LU(dA, X);
        else if (alg == "inv_lu")
            inverse_LU(dA, X);
        else if (alg == "inv_plu")
            inverse_pivoted_LU(dA, X);
        else if (alg == "inv_gj")
            inverse_gauss_jordan(dA, X);
        else
            dA.inv(X);
        Res r = fromDM(X);
        note_nulls(r, oracle, "inverse");
        bool nonsing = !fm_det(A).zero();
        bool pre = pivots ? nonsing : lead_minors_nonzero(A, n);
        if (pre) {
            stat("pre-ok:" + alg);
            if (!r.fin)
                FAIL(alg, "non-rational inverse although the algorithm's precondition holds: " + r.s);
            else if (!(fm_mul(A, r.m) == fm_eye(n)))
                FAIL(alg, "A*inverse != I: " + r.s);
        } else if (!nonsing && r.fin && n > 0)
            FAIL(alg, "singular matrix but a finite 'inverse' was returned without any error: " + r.s);
        return r.s;
    }
    return "bad-op";
}

// ------------------------------------------------------------------ generator
static Fr rndq(Rng &r, int zero_pct)
{
    if ((int)r.below(100) < zero_pct)
        return Fr(0);
    long p = r.range(-5, 5);
    long q = r.coin(1, 4) ? r.range(2, 4) : 1;
    Fr f;
    mpq_set_si(f.v, p, (unsigned long)q);
    mpq_canonicalize(f.v);
    return f;
}
static FM rndm(Rng &r, unsigned R, unsigned C, int zero_pct)
{
    FM m(R, C);
    for (auto &e : m.a)
        e = rndq(r, zero_pct);
    return m;
}
static FM rnd_int(Rng &r, unsigned R, unsigned C, int zero_pct, long lim = 4)
{
    FM m(R, C);
    for (auto &e : m.a)
        e = (int)r.below(100) < zero_pct ? Fr(0) : Fr(r.range(-lim, lim));
    return m;
}
// unit lower triangular with small entries
static FM rnd_unit_lower(Rng &r, unsigned n, bool rational)
{
    FM L = fm_eye(n);
    for (unsigned i = 0; i < n; i++)
        for (unsigned j = 0; j < i; j++)
            L.at(i, j) = rational ? rndq(r, 30) : Fr(r.range(-2, 2));
    return L;
}
static FM rnd_upper(Rng &r, unsigned n, bool nonzero_diag, bool rational)
{
    FM U(n, n);
    for (unsigned i = 0; i < n; i++)
        for (unsigned j = i; j < n; j++) {
            U.at(i, j) = rational ? rndq(r, 20) : Fr(r.range(-3, 3));
            if (i == j && nonzero_diag && U.at(i, j).zero())
                U.at(i, j) = Fr(r.coin() ? 1 : -2);
        }
    return U;
}
struct Shape {
    FM m;
    std::string tag;
};
// a square matrix of a chosen structural family
static Shape rnd_square(Rng &r, unsigned n)
{
    Shape s;
    unsigned k = (unsigned)r.below(100);
    if (n == 0) {
        s.m = FM(0, 0);
        s.tag = "empty";
    } else if (k < 22) {
        s.m = rndm(r, n, n, 10);
        s.tag = "dense";
    } else if (k < 36) {
        s.m = rnd_int(r, n, n, 45);
        s.tag = "sparse";
    } else if (k < 50) {
        // L*U with non-zero pivots: all leading minors non-zero
        s.m = fm_mul(rnd_unit_lower(r, n, r.coin(1, 3)), rnd_upper(r, n, true, r.coin(1, 3)));
        s.tag = "strongly-regular";
    } else if (k < 62) {
        // rank deficient by construction: (n x t)(t x n), t < n
        unsigned t = n == 1 ? 0 : (unsigned)r.below(n);
        s.m = t == 0 ? FM(n, n) : fm_mul(rnd_int(r, n, t, 15, 3), rnd_int(r, t, n, 15, 3));
        s.tag = "rank-deficient";
    } else if (k < 72) {
        // zero leading minor of a random order, usually still invertible: permute rows of an L*U product
        s.m = fm_mul(rnd_unit_lower(r, n, false), rnd_upper(r, n, true, false));
        if (n >= 2) {
            unsigned t = (unsigned)r.below(n - 1);
            for (unsigned j = 0; j <= t; j++)
                s.m.at(t, j) = Fr(0); // kills the minor of order t+1 (row t of the leading block is zero)
        } else
            s.m.at(0, 0) = Fr(0);
        s.tag = "zero-leading-minor";
    } else if (k < 80) {
        // zero columns in front / in the middle: pivot search must skip columns
        s.m = rndm(r, n, n, 15);
        unsigned z = (unsigned)r.below(n);
        for (unsigned i = 0; i < n; i++)
            s.m.at(i, z) = Fr(0);
        if (r.coin() && n > 2)
            for (unsigned i = 0; i < n; i++)
                s.m.at(i, (z + 1) % n) = s.m.at(i, (z + 2) % n) * Fr(2);
        s.tag = "zero-column";
    } else if (k < 88) {
        // symmetric positive definite: G*G^T with G lower, positive diagonal
        FM G = rnd_unit_lower(r, n, r.coin(1, 3));
        for (unsigned i = 0; i < n; i++)
            G.at(i, i) = r.coin(1, 3) ? Fr(1) / Fr(r.range(1, 3)) : Fr(r.range(1, 3));
        s.m = fm_mul(G, fm_T(G));
        s.tag = "spd";
    } else if (k < 94) {
        // symmetric indefinite with non-zero leading minors: L*D*L^T
        FM L = rnd_unit_lower(r, n, r.coin(1, 3)), D(n, n);
        for (unsigned i = 0; i < n; i++)
            D.at(i, i) = Fr(r.coin() ? r.range(1, 3) : -r.range(1, 3));
        s.m = fm_mul(fm_mul(L, D), fm_T(L));
        s.tag = "sym-ldl";
    } else if (k < 97) {
        s.m = r.coin() ? rnd_upper(r, n, r.coin(), true) : fm_T(rnd_upper(r, n, r.coin(), true));
        s.tag = "triangular";
    } else {
        s.m = r.coin() ? fm_eye(n) : FM(n, n);
        s.tag = "identity-or-zero";
    }
    return s;
}
static Shape rnd_rect(Rng &r, unsigned R, unsigned C)
{
    Shape s;
    unsigned k = (unsigned)r.below(100);
    if (R == 0 || C == 0) {
        s.m = FM(R, C);
        s.tag = "empty";
    } else if (k < 35) {
        s.m = rndm(r, R, C, 10);
        s.tag = "dense";
    } else if (k < 55) {
        s.m = rnd_int(r, R, C, 50);
        s.tag = "sparse";
    } else if (k < 80) {
        unsigned t = (unsigned)r.below(std::min(R, C) + 1);
        s.m = t == 0 ? FM(R, C) : fm_mul(rnd_int(r, R, t, 15, 3), rnd_int(r, t, C, 15, 3));
        s.tag = "rank-deficient";
    } else {
        s.m = rndm(r, R, C, 15);
        unsigned z = (unsigned)r.below(C);
        for (unsigned i = 0; i < R; i++)
            s.m.at(i, z) = Fr(0);
        if (z + 1 < C && r.coin())
            for (unsigned i = 0; i < R; i++)
                s.m.at(i, z + 1) = Fr(0);
        s.tag = "zero-column";
    }
    return s;
}
// a matrix with orthonormal rational columns times an upper triangular R with positive diagonal
static FM rnd_qr_input(Rng &r, unsigned R, unsigned C)
{
    FM Q = fm_eye(R);
    int refl = 1 + (int)r.below(2);
    for (int t = 0; t < refl; t++) {
        // Householder reflection I - 2 v v^T / (v^T v) with an integer v: rational and orthogonal
        FM v(R, 1);
        Fr vv;
        for (unsigned i = 0; i < R; i++) {
            v.at(i, 0) = Fr(r.range(-2, 2));
            vv = vv + v.at(i, 0) * v.at(i, 0);
        }
        if (vv.zero())
            continue;
        FM H = fm_eye(R);
        for (unsigned i = 0; i < R; i++)
            for (unsigned j = 0; j < R; j++)
                H.at(i, j) = H.at(i, j) - Fr(2) * v.at(i, 0) * v.at(j, 0) / vv;
        Q = fm_mul(Q, H);
    }
    FM Qc(R, C);
    for (unsigned i = 0; i < R; i++)
        for (unsigned j = 0; j < C; j++)
            Qc.at(i, j) = Q.at(i, j);
    FM U = rnd_upper(r, C, true, false);
    for (unsigned i = 0; i < C; i++)
        U.at(i, i) = fabsq(U.at(i, i));
    return fm_mul(Qc, U);
}

static unsigned rnd_size(Rng &r, bool th, unsigned lo = 1)
{
    unsigned k = (unsigned)r.below(100);
    unsigned hi = th ? 6 : 5;
    if (k < 6)
        return lo;
    if (k < 70)
        return (unsigned)r.range(std::max(2u, lo), 4);
    return (unsigned)r.range(std::max(2u, lo), hi);
}

// fixed boundary family: empty matrices (0x0, 0xn, nx0) through every algorithm
static void gen_empty()
{
    const char *one[] = {"transpose", "is_zero", "is_diagonal", "is_symmetric", "is_symmetric_dense", "is_lower",
                         "is_upper", "is_posdef", "is_wdd", "trace", "pge", "pffge", "pgje", "pffgje", "ffge", "ffgje",
                         "rref 0", "rref 1", "rank", "lu", "plu", "plu1", "fflu", "ffldu", "ldl", "cholesky", "qr",
                         "det_bareis", "det_berkowitz", "det", "berkowitz", "char_poly", "inv_fflu", "inv_lu",
                         "inv_plu", "inv_gj", "inv"};
    for (const char *a : one) {
        auto ws = split(a, ' ');
        emit("dm " + ws[0] + " 0x0:" + (ws.size() > 1 ? " " + ws[1] : ""), "empty");
    }
    const char *rect[] = {"transpose", "is_zero", "pge", "pffge", "pgje", "pffgje", "ffge", "rref 0", "rref 1", "rank", "qr"};
    for (const char *a : rect) {
        auto ws = split(a, ' ');
        std::string alg = ws[0], tail = ws.size() > 1 ? " " + ws[1] : "";
        emit("dm " + alg + " 2x0:" + tail, "empty");
        if (alg != "qr")
            emit("dm " + alg + " 0x3:" + tail, "empty");
    }
    const char *sol[] = {"diag_solve", "back_sub", "fwd_sub", "ffge_solve", "ffgj_solve", "fflu_solve", "lu_solve",
                         "plu_solve", "ldl_solve"};
    for (const char *a : sol) {
        std::string tail = std::string(a) == "ffgj_solve" ? " 1" : "";
        emit(std::string("dm ") + a + " 0x0: 0x1:" + tail, "empty");
        emit(std::string("dm ") + a + " 2x2:2,1,1,3 2x0:" + tail, "empty");
    }
    emit("dm add 0x0: 0x0:", "empty");
    emit("dm add 0x2: 0x2:", "empty");
    emit("dm mul 0x3: 3x2:1,2,3,4,5,6", "empty");
    emit("dm mul 2x0: 0x2:", "empty");
    emit("dm mul 2x3:1,2,3,4,5,6 3x0:", "empty");
    emit("dm row_del 1x3:1,2,3 0", "empty");
    emit("dm col_del 3x1:1,2,3 0", "empty");
    emit("dm row_join 2x0: 2x2:1,2,3,4", "empty");
    emit("dm col_join 0x2: 1x2:1,2", "empty");
    emit("dm zeros 0 3", "empty");
    emit("dm ones 2 0", "empty");
}

// fixed boundary family: the first pivot is not in the first column / not in the first row
static void gen_leading_zero()
{
    const char *mats[] = {"2x3:0,1,2,0,3,4",        "2x3:0,0,0,0,0,0",           "2x3:0,0,1,0,0,2",
                          "3x3:0,0,0,0,1,2,0,0,0",  "3x4:0,0,2,1,0,0,4,2,0,0,1,1", "3x3:0,0,0,0,0,0,0,0,5",
                          "1x3:0,0,7",              "3x2:0,0,0,0,0,3",           "4x4:0,0,1,2,0,0,2,4,0,3,0,1,0,6,0,2",
                          "3x3:0,2,1,0,4,2,0,1,1/2", "2x2:0,0,0,0",               "3x1:0,0,0",
                          "2x4:0,0,0,1/3,0,0,0,2"};
    const char *algs[] = {"rref 0", "rref 1", "rank", "pgje", "pffgje", "pge", "pffge"};
    for (const char *m : mats)
        for (const char *a : algs) {
            auto ws = split(a, ' ');
            emit("dm " + ws[0] + " " + m + (ws.size() > 1 ? " " + ws[1] : ""), std::string(a) + ":leading-zero-fixed");
        }
}
// random matrix whose first z columns are zero, with optional zero rows and a rank-deficient rest
static FM rnd_leading_zero(Rng &r, unsigned R, unsigned C)
{
    unsigned z = C <= 1 ? C : 1 + (unsigned)r.below(C - 1);
    if (r.coin(1, 10))
        z = C; // zero matrix
    FM m(R, C);
    unsigned w = C - z;
    if (w > 0) {
        unsigned t = 1 + (unsigned)r.below(std::min(R, w));
        FM rest = r.coin() ? rndm(r, R, w, 25) : fm_mul(rnd_int(r, R, t, 15, 3), rnd_int(r, t, w, 15, 3));
        for (unsigned i = 0; i < R; i++)
            for (unsigned j = 0; j < w; j++)
                m.at(i, z + j) = rest.at(i, j);
    }
    if (R > 1 && r.coin()) { // a zero row, preferably the first one
        unsigned zr = r.coin() ? 0 : (unsigned)r.below(R);
        for (unsigned j = 0; j < C; j++)
            m.at(zr, j) = Fr(0);
    }
    return m;
}

void hx_gen(Rng &r0, const std::string &tier)
{
    // common.h's SplitMix increment equals its seed multiplier, so seed k+1 is seed k shifted by one draw:
    // re-key the stream so that different seeds give unrelated cases
    Rng r(r0.next() ^ 0xC24C24C24ULL);
    bool th = tier == "thorough";
    int reps = th ? 120 : 12;
    gen_empty();
    gen_leading_zero();
    const char *sq1[] = {"lu", "plu", "plu1", "fflu", "ffldu", "ldl", "cholesky", "det_bareis", "det_berkowitz", "det",
                         "berkowitz", "char_poly", "inv_fflu", "inv_lu", "inv_plu", "inv_gj", "inv", "trace",
                         "is_diagonal", "is_symmetric", "is_hermitian", "is_symmetric_dense", "is_lower", "is_upper",
                         "is_wdd", "is_sdd", "is_posdef", "is_negdef", "ffgje"};
    const char *rect1[] = {"pge", "pffge", "pgje", "pffgje", "ffge", "rref 0", "rref 1", "rank", "transpose", "is_zero"};
    const char *solve[] = {"ffge_solve", "ffgj_solve 1", "ffgj_solve 0", "fflu_solve", "lu_solve", "plu_solve", "ldl_solve"};
    for (int rep = 0; rep < reps; rep++) {
        for (const char *a : sq1) {
            std::string alg = a;
            unsigned n = rnd_size(r, th);
            if ((alg == "berkowitz" || alg == "char_poly" || alg == "det_berkowitz") && n > 5)
                n = 5;
            Shape s = rnd_square(r, n);
            if ((alg == "cholesky") && r.coin(3, 4)) {
                do
                    s = rnd_square(r, n);
                while (s.tag != "spd");
            }
            if ((alg == "ldl") && r.coin(3, 4)) {
                do
                    s = rnd_square(r, n);
                while (s.tag != "spd" && s.tag != "sym-ldl");
            }
            if (alg == "is_symmetric" || alg == "is_hermitian" || alg == "is_symmetric_dense" || alg == "is_diagonal") {
                if (r.coin()) { // near misses: symmetric / diagonal with at most one entry disturbed
                    FM m = alg == "is_diagonal" ? FM(n, n) : rndm(r, n, n, 20);
                    for (unsigned i = 0; i < n; i++)
                        for (unsigned j = 0; j <= i; j++) {
                            if (alg == "is_diagonal")
                                m.at(i, j) = i == j ? rndq(r, 30) : Fr(0);
                            else
                                m.at(i, j) = m.at(j, i);
                        }
                    if (r.coin() && n > 1)
                        m.at((unsigned)r.below(n), (unsigned)r.below(n)) = Fr(7);
                    s.m = m;
                    s.tag = "near-sym-or-diag";
                }
            }
            if ((alg == "is_wdd" || alg == "is_sdd") && r.coin()) {
                // rows around the dominance boundary
                s.m = rnd_int(r, n, n, 20, 2);
                for (unsigned i = 0; i < n; i++) {
                    Fr t;
                    for (unsigned j = 0; j < n; j++)
                        if (j != i)
                            t = t + fabsq(s.m.at(i, j));
                    s.m.at(i, i) = (t + Fr(r.range(0, 1))) * Fr(r.coin() ? 1 : -1);
                }
                s.tag = "dominance-boundary";
            }
            emit("dm " + alg + " " + s.m.str(), alg + ":" + s.tag);
        }
        {
            // pivoted eliminations / rref (both normalisations) where the first pivot is found late
            const char *lz[] = {"rref 0", "rref 1", "pffgje", "pgje", "pffge", "pge"};
            for (int t = 0; t < 3; t++) {
                const char *a = lz[(rep * 3 + t) % 6];
                unsigned R = rnd_size(r, th), C = rnd_size(r, th, 2);
                auto ws = split(a, ' ');
                emit("dm " + ws[0] + " " + rnd_leading_zero(r, R, C).str() + (ws.size() > 1 ? " " + ws[1] : ""),
                     std::string(a) + ":leading-zero");
            }
            // output matrix aliases an operand
            unsigned n = rnd_size(r, th), k = rnd_size(r, th);
            FM Sq = rndm(r, n, n, 20), Sq2 = rndm(r, n, n, 20), Rt = rndm(r, k, n, 20), Lt = rndm(r, n, k, 20);
            int mm = 1 + (rep % 5);
            // mul: output = left needs a square right operand, output = right a square left operand
            if (mm == 1 || mm == 5)
                emit("dm mul_alias " + Rt.str() + " " + Sq.str() + " " + tostr(mm), "mul_alias:out=left");
            else if (mm == 3)
                emit("dm mul_alias " + Sq.str() + " " + Sq.str() + " 3", "mul_alias:all-same");
            else
                emit("dm mul_alias " + Sq.str() + " " + Lt.str() + " " + tostr(mm), "mul_alias:out=right");
            emit("dm mul_alias " + Sq2.str() + " " + Lt.str() + " " + tostr(rep % 2 ? 2 : 4), "mul_alias:out=right");
            int am = 1 + ((rep + 2) % 5);
            const char *ea = rep % 2 ? "add_alias" : "emul_alias";
            emit(std::string("dm ") + ea + " " + Rt.str() + " " + (am == 3 ? Rt : rndm(r, k, n, 20)).str() + " " + tostr(am),
                 std::string(ea) + ":mode" + tostr(am));
            emit(std::string("dm ") + (rep % 2 ? "muls_alias " : "adds_alias ") + Lt.str() + " " + rndq(r, 10).str(),
                 "scalar_alias");
        }
        for (const char *a : rect1) {
            unsigned R = rnd_size(r, th), C = rnd_size(r, th);
            if (r.coin(1, 3))
                C = R;
            Shape s = r.coin(1, 3) && R == C ? rnd_square(r, R) : rnd_rect(r, R, C);
            auto ws = split(a, ' ');
            std::string op = "dm " + ws[0] + " " + s.m.str();
            if (ws.size() > 1)
                op += " " + ws[1];
            emit(op, std::string(a) + ":" + s.tag);
        }
        for (const char *a : solve) {
            unsigned n = rnd_size(r, th), c = 1 + (unsigned)r.below(2);
            Shape s = rnd_square(r, n);
            if (std::string(a) == "ldl_solve") {
                do
                    s = rnd_square(r, n);
                while (s.tag != "spd" && s.tag != "sym-ldl" && !r.coin(1, 8));
                if (s.tag != "spd" && s.tag != "sym-ldl") { // symmetrise so that the symmetric check passes
                    for (unsigned i = 0; i < n; i++)
                        for (unsigned j = 0; j < i; j++)
                            s.m.at(i, j) = s.m.at(j, i);
                    s.tag = "sym-" + s.tag;
                }
            }
            FM b = rndm(r, n, c, 15);
            auto ws = split(a, ' ');
            std::string op = "dm " + ws[0] + " " + s.m.str() + " " + b.str();
            if (ws.size() > 1)
                op += " " + ws[1];
            emit(op, std::string(a) + ":" + s.tag);
        }
        {
            // triangular / diagonal solvers
            unsigned n = rnd_size(r, th), c = 1 + (unsigned)r.below(2);
            FM U = rnd_upper(r, n, r.coin(9, 10), true), b = rndm(r, n, c, 15);
            emit("dm back_sub " + U.str() + " " + b.str(), "back_sub");
            FM L = rnd_unit_lower(r, n, true);
            emit("dm fwd_sub " + L.str() + " " + b.str(), "fwd_sub");
            FM D(n, n);
            for (unsigned i = 0; i < n; i++)
                D.at(i, i) = rndq(r, 5);
            emit("dm diag_solve " + D.str() + " " + b.str(), "diag_solve");
        }
        {
            // QR with rational orthonormal factor
            unsigned C = (unsigned)r.range(1, th ? 4 : 3), R = C + (unsigned)r.below(3);
            emit("dm qr " + rnd_qr_input(r, R, C).str(), "qr:orthonormal-rational");
            if (r.coin(1, 4))
                emit("dm qr " + rnd_int(r, R, C, 10, 2).str(), "qr:generic");
        }
        {
            // structural operations
            unsigned R = rnd_size(r, th), C = rnd_size(r, th), K = rnd_size(r, th);
            FM A = rndm(r, R, C, 20), B = rndm(r, R, C, 20), B2 = rndm(r, C, K, 20);
            emit("dm add " + A.str() + " " + B.str(), "add");
            emit("dm emul " + A.str() + " " + B.str(), "emul");
            emit("dm mul " + A.str() + " " + B2.str(), "mul");
            emit("dm adds " + A.str() + " " + rndq(r, 10).str(), "adds");
            emit("dm muls " + A.str() + " " + rndq(r, 10).str(), "muls");
            unsigned r0 = (unsigned)r.below(R), r1 = r0 + (unsigned)r.below(R - r0);
            unsigned c0 = (unsigned)r.below(C), c1 = c0 + (unsigned)r.below(C - c0);
            unsigned rs = r.coin(3, 4) ? 1 : 2, cs = r.coin(3, 4) ? 1 : 2;
            emit("dm submatrix " + A.str() + " " + tostr(r0) + " " + tostr(c0) + " " + tostr(r1) + " " + tostr(c1) + " "
                     + tostr(rs) + " " + tostr(cs),
                 rs * cs == 1 ? "submatrix" : "submatrix-step");
            FM Bj = rndm(r, R, K, 20), Bc = rndm(r, K, C, 20);
            emit("dm row_join " + A.str() + " " + Bj.str(), "row_join");
            emit("dm col_join " + A.str() + " " + Bc.str(), "col_join");
            emit("dm row_insert " + A.str() + " " + Bc.str() + " " + tostr(r.below(R + 1)), "row_insert");
            emit("dm col_insert " + A.str() + " " + Bj.str() + " " + tostr(r.below(C + 1)), "col_insert");
            emit("dm row_del " + A.str() + " " + tostr(r.below(R)), "row_del");
            emit("dm col_del " + A.str() + " " + tostr(r.below(C)), "col_del");
            if (R > 1) {
                unsigned i = (unsigned)r.below(R), j = (i + 1 + (unsigned)r.below(R - 1)) % R;
                emit("dm row_exchange " + A.str() + " " + tostr(i) + " " + tostr(j), "row_exchange");
                emit("dm row_add_row " + A.str() + " " + tostr(i) + " " + tostr(j) + " " + rndq(r, 10).str(),
                     "row_add_row");
            }
            if (C > 1) {
                unsigned i = (unsigned)r.below(C), j = (i + 1 + (unsigned)r.below(C - 1)) % C;
                emit("dm col_exchange " + A.str() + " " + tostr(i) + " " + tostr(j), "col_exchange");
            }
            emit("dm row_mul_scalar " + A.str() + " " + tostr(r.below(R)) + " " + rndq(r, 10).str(), "row_mul_scalar");
            FM v1 = rndm(r, r.coin() ? 1 : C, 1, 10);
            v1 = rndm(r, C, 1, 10);
            FM v2 = rndm(r, C, 1, 10);
            emit("dm dot " + (r.coin() ? v1 : fm_T(v1)).str() + " " + (r.coin() ? v2 : fm_T(v2)).str(), "dot");
            FM x1 = rndm(r, 3, 1, 10), x2 = rndm(r, 3, 1, 10);
            if (r.coin()) {
                x1 = fm_T(x1);
                x2 = fm_T(x2);
            }
            emit("dm cross " + x1.str() + " " + x2.str(), "cross");
            long k = r.range(-(long)R + 1, (long)C - 1);
            emit("dm eye " + tostr(R) + " " + tostr(C) + " " + tostr(k), "eye");
            emit("dm ones " + tostr(R) + " " + tostr(C), "ones");
            emit("dm zeros " + tostr(R) + " " + tostr(C), "zeros");
            unsigned len = k >= 0 ? std::min(R, C - (unsigned)k) : std::min(C, R - (unsigned)(-k));
            emit("dm diag " + rndm(r, std::max(len, 1u), 1, 10).str() + " " + tostr(R) + " " + tostr(C) + " " + tostr(k),
                 "diag");
        }
    }
}
